#!/usr/bin/env python3
"""Self-test of the checkers: apply each mutant / benign refactor of
selftest/mutants.json to a scratch copy of /repo's sources (never to /repo),
run the named property check on the copy and compare the verdict.

  expect=violation : exit 1 and a VIOLATION line naming the expected rule
  expect=silent    : exit 0 (benign refactor; the rule must follow it)
  expect=broken    : exit 2 (rewrites the rule declines to follow)

usage: run.py [--only ID_SUBSTR] [--prop Cxx] [--jobs N]
"""
import argparse
import json
import os
import shutil
import subprocess
import sys
import tempfile
import threading
from concurrent.futures import ThreadPoolExecutor

HERE = os.path.dirname(os.path.abspath(__file__))
VERIF = os.path.dirname(HERE)
REPO = os.environ.get("CRAB_REPO", "/repo")
SCRATCH = os.environ.get("VERIF_SCRATCH", "/var/tmp")


_REPO_KEY = []
_IN_USE = {}
_IN_USE_LOCK = threading.Lock()


def _tree_key(d):
    if VERIF not in sys.path:
        sys.path.insert(0, VERIF)
    from crabcheck import facts
    return facts._sha_tree(d)[0]


def _claim_cache(d):
    """two entries with the same edit (a seed caught by two properties) share one cache: count the users"""
    try:
        key = _tree_key(d)
    except Exception:
        return None
    with _IN_USE_LOCK:
        _IN_USE[key] = _IN_USE.get(key, 0) + 1
    return key


def _drop_cache(key):
    """the facts extracted from a scratch copy are of no use once its check has run: remove them straight away
    (never the cache of REPO itself, never one another entry of this run still reads, never one that a different
    process has re-used since it was written) so that a self-test needs the room of `jobs` caches, not one per entry"""
    if key is None:
        return
    try:
        from crabcheck import facts
        with _IN_USE_LOCK:
            _IN_USE[key] -= 1
            if _IN_USE[key] > 0:
                return
            if not _REPO_KEY:
                _REPO_KEY.append(_tree_key(REPO))
            if key == _REPO_KEY[0]:
                return
            cdir = os.path.join(facts.CACHE_ROOT, key)
            idx = os.path.join(cdir, "index.json")
            if os.path.exists(idx) and os.path.getmtime(cdir) - os.path.getmtime(idx) > 1.0:
                return          # re-used (ensure_facts touches the directory) by somebody else: leave it to the pruning
            shutil.rmtree(cdir, ignore_errors=True)
    except Exception:
        pass


def run_one(m):
    d = tempfile.mkdtemp(prefix="verif-selftest-", dir=SCRATCH)
    key = None
    try:
        for sub in ("include", "lib"):
            shutil.copytree(os.path.join(REPO, sub), os.path.join(d, sub))
        if m.get("patch"):
            # a seeded change kept under /verif/seeded: apply its patch.diff to the scratch copy
            pr = subprocess.run(["patch", "-p1", "-s", "-i", m["patch"]], cwd=d, stdout=subprocess.PIPE, stderr=subprocess.STDOUT,
                                universal_newlines=True)
            if pr.returncode != 0:
                return m, "STALE", "seed patch does not apply: " + pr.stdout[-300:]
            edits = []
        else:
            edits = m.get("edits") or [{"file": m["file"], "old": m["old"], "new": m["new"], "count": m.get("count", 1)}]
        for e in edits:
            p = os.path.join(d, e["file"])
            with open(p) as fh:
                s = fh.read()
            cnt = s.count(e["old"])
            want = e.get("count", 1)
            if cnt != want:
                return m, "STALE", "pattern occurs %d times (expected %d) in %s" % (cnt, want, e["file"])
            s = s.replace(e["old"], e["new"])
            with open(p, "w") as fh:
                fh.write(s)
        key = _claim_cache(d)
        env = dict(os.environ)
        env["CRAB_REPO"] = d
        env["VERIF_EVIDENCE_DIR"] = os.path.join(d, "evidence")
        p = subprocess.run([sys.executable, os.path.join(VERIF, "check.py"), m["prop"], "--repo", d, "--no-evidence"],
                           stdout=subprocess.PIPE, stderr=subprocess.STDOUT, universal_newlines=True, env=env)
        out = p.stdout
        exp = m["expect"]
        if exp == "violation":
            ok = p.returncode == 1 and "VIOLATION property=%s" % m["prop"] in out and \
                (("rule " + m["rule"] + " ") in out if m.get("rule") else True)
        elif exp == "silent":
            ok = p.returncode == 0
        else:
            ok = p.returncode == 2
        return m, "OK" if ok else "FAIL", "exit %d\n%s" % (p.returncode, "\n".join(out.splitlines()[-12:]))
    finally:
        _drop_cache(key)
        shutil.rmtree(d, ignore_errors=True)


def main():
    ap = argparse.ArgumentParser()
    ap.add_argument("--only", default=None)
    ap.add_argument("--prop", default=None)
    ap.add_argument("--jobs", type=int, default=4)
    ap.add_argument("--verbose", action="store_true")
    a = ap.parse_args()
    with open(os.path.join(HERE, "mutants.json")) as fh:
        ms = json.load(fh)
    # seeded changes (made by sub-agents that saw only the property text) are permanent members of the corpus
    import glob
    for mp in sorted(glob.glob(os.path.join(VERIF, "seeded", "S*", "meta.json"))):
        with open(mp) as fh:
            meta = json.load(fh)
        for prop in meta.get("caught_by", []):
            ms.append({"id": "seed-" + os.path.basename(os.path.dirname(mp))[:3] + "-" + prop, "prop": prop, "expect": "violation",
                       "patch": os.path.join(os.path.dirname(mp), "patch.diff")})
    if a.only:
        ms = [m for m in ms if a.only in m["id"]]
    if a.prop:
        ms = [m for m in ms if m["prop"] == a.prop]
    bad = 0
    with ThreadPoolExecutor(max_workers=a.jobs) as ex:
        for m, status, detail in ex.map(run_one, ms):
            print("%-5s %-40s %s %s expect=%s" % (status, m["id"], m["prop"], m.get("rule", "-"), m["expect"]))
            if status != "OK" or a.verbose:
                print("      " + detail.replace("\n", "\n      "))
            if status != "OK":
                bad += 1
    print("selftest: %d/%d as expected" % (len(ms) - bad, len(ms)))
    return 1 if bad else 0


if __name__ == "__main__":
    sys.exit(main())
