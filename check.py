#!/usr/bin/env python3
"""check.py <Cxx> [--tier quick|thorough] [--replay file]

Static check of one property of seahorn/crab.  Decides the clause-level rules
of crabcheck/props/<Cxx>.py on facts extracted by the crabfacts clang plugin
from /repo's *current* working tree (nothing is executed).

exit 0  every obligation discharged (known findings are printed)
exit 1  a violation not listed in known_findings.json (VIOLATION line)
exit 2  analysis broken: anchor vanished / floor missed / undecidable site
"""
import argparse
import importlib
import json
import os
import sys
import traceback

HERE = os.path.dirname(os.path.abspath(__file__))
sys.path.insert(0, HERE)

from crabcheck import facts, report  # noqa: E402


def main():
    ap = argparse.ArgumentParser()
    ap.add_argument("prop")
    ap.add_argument("--tier", default=os.environ.get("VERIF_TIER", "quick"))
    ap.add_argument("--replay", default=None)
    ap.add_argument("--repo", default=None)
    ap.add_argument("--no-evidence", action="store_true")
    ap.add_argument("--freeze", action="store_true", help="rewrite tables/reference/<prop>.json from this run")
    a = ap.parse_args()
    tier = a.tier if a.tier in ("quick", "thorough") else "quick"
    seed = int(os.environ.get("VERIF_SEED", "0") or 0)
    prop = a.prop
    try:
        mod = importlib.import_module("crabcheck.props." + prop)
    except ImportError as e:
        print("no such property module: %s (%s)" % (prop, e))
        return 2
    try:
        db = facts.load(a.repo)
    except facts.AnalysisBroken as e:
        print("ANALYSIS-BROKEN property=%s %s" % (prop, e))
        if not a.no_evidence:
            _broken_evidence(prop, tier, seed, str(e))
        return 2
    ctx = report.Ctx(prop, tier, db, seed)
    ctx.no_evidence = a.no_evidence
    ctx.freeze = a.freeze
    only = None
    if a.replay:
        with open(a.replay) as fh:
            rp = json.load(fh)
        only = rp.get("rule")
        print("replaying rule %s on %s" % (only, rp.get("pattern")))
    for rule_fn in mod.RULES:
        if only and not rule_fn.__name__.startswith(only.split(".")[-1] + "_") and rule_fn.__name__ != only.split(".")[-1]:
            continue
        try:
            rule_fn(ctx)
        except facts.AnalysisBroken as e:
            ctx.fail("rule %s: %s" % (rule_fn.__name__, e))
        except Exception as e:  # a crash of a rule is a broken analysis, never a pass
            ctx.fail("rule %s crashed: %s: %s" % (rule_fn.__name__, type(e).__name__, e))
            traceback.print_exc()
    if tier == "thorough" and hasattr(mod, "THOROUGH"):
        for rule_fn in mod.THOROUGH:
            try:
                rule_fn(ctx)
            except Exception as e:
                ctx.fail("rule %s crashed: %s: %s" % (rule_fn.__name__, type(e).__name__, e))
                traceback.print_exc()
    if tier == "thorough" and not only and not a.no_evidence:
        _selftest(ctx, prop)
    if only:
        ctx.rules = {k: v for k, v in ctx.rules.items()}
        for r in ctx.rules.values():
            r["floor"] = 0
    return report.finish(ctx, mod.LEVEL_TEXT, mod.ASSUMPTIONS)


def _selftest(ctx, prop):
    """thorough tier: prove the rules of this property are armed.  Every mutant of selftest/mutants.json for the property
    (a small edit of crab that still compiles and breaks one rule instance) must be reported, every benign refactor must
    stay silent.  Mutants are applied to scratch copies of /repo's sources (never to /repo); nothing is executed.  A rule that
    misses its mutant or fires on a benign refactor makes the run ANALYSIS-BROKEN (exit 2): a checker fault, not a violation."""
    import subprocess
    jobs = os.environ.get("VERIF_SELFTEST_JOBS", "4")
    p = subprocess.run([sys.executable, os.path.join(HERE, "selftest", "run.py"), "--prop", prop, "--jobs", jobs],
                       stdout=subprocess.PIPE, stderr=subprocess.STDOUT, universal_newlines=True)
    rows = [l.split() for l in p.stdout.splitlines() if l[:5].strip() in ("OK", "FAIL", "STALE")]
    res = {"mutants_total": 0, "mutants_reported": 0, "benign_total": 0, "benign_silent": 0, "failed": []}
    for r in rows:
        status, mid, expect = r[0], r[1], r[-1]
        if expect == "expect=violation":
            res["mutants_total"] += 1
            res["mutants_reported"] += status == "OK"
        elif expect == "expect=silent":
            res["benign_total"] += 1
            res["benign_silent"] += status == "OK"
        if status != "OK":
            res["failed"].append("%s (%s)" % (mid, status))
    ctx.extra["selftest"] = res
    print("selftest %s: %d/%d mutants reported, %d/%d benign refactors silent" %
          (prop, res["mutants_reported"], res["mutants_total"], res["benign_silent"], res["benign_total"]))
    for f in res["failed"]:
        ctx.fail("self-test: %s not as expected (checker fault)" % f)
    if not rows:
        ctx.fail("self-test: no mutant registered for %s" % prop)


def _broken_evidence(prop, tier, seed, msg):
    ev = {"property_id": prop, "tier": tier, "seed": seed, "level": "other",
          "coverage": {"explanation": "analysis broken before any rule ran: " + msg,
                       "obligations": 0, "discharged": 0, "analysis_broken": [msg]},
          "wall_s": 0.0, "violations": 0}
    os.makedirs(os.path.join(HERE, "evidence"), exist_ok=True)
    with open(os.path.join(HERE, "evidence", prop + ".json"), "w") as fh:
        json.dump(ev, fh, indent=1)


if __name__ == "__main__":
    sys.exit(main())
