#!/bin/sh
# try_seed.sh <patch.diff> <Cxx> [<Cyy> ...]: apply a seeded change to /repo,
# run the named checks (no evidence written), and undo the change.
patch=$1; shift
git -C /repo apply "$patch" || { echo "patch does not apply"; exit 2; }
for p in "$@"; do
  python3 /verif/check.py $p --no-evidence 2>&1 | grep -E "^VIOLATION|^  rule|^ANALYSIS-BROKEN|-> exit" | head -8
done
git -C /repo checkout -- .
git -C /repo status --short | grep -v _build
