#!/usr/bin/env python3
"""prints the prompt handed to a seeding sub-agent: property text + scratch worktree only"""
import json, sys
pid, wt = sys.argv[1], sys.argv[2]
extra = sys.argv[3] if len(sys.argv) > 3 else ""
p = [json.loads(l) for l in open('/verif/properties.jsonl') if json.loads(l)['id'] == pid][0]
print(f"""You are helping to test a verification effort for the open-source C++ library seahorn/crab (a header-heavy abstract-interpretation static-analysis library: CrabIR CFGs, abstract domains, fixpoint solvers). A scratch git worktree of the library at its pinned commit is at {wt}. Do ALL your work inside {wt} (and /tmp if you need temp files). Do NOT read, list or modify /verif, and do NOT modify /repo. There is no network.

PROPERTY ({pid}: {p['title']})
{p['statement']}
Quantification: {p['quantifier']['text']}
Source files the property is anchored in: {', '.join(p['anchors']['files'])}

YOUR TASK
Produce ONE realistic change to the library sources (under {wt}/include or {wt}/lib) that BREAKS this property, such that:
 (a) the library and all its tests still compile,
 (b) the existing test suite (120 ctest tests) still passes with the change,
 (c) you have a demonstration (a small C++ program linked against the library, or a new test) that FAILS (wrong/unsound result, detected by the program itself: nonzero exit) with the change and PASSES without it.
The change should look like a slip a maintainer could make (swapped operands, a dropped call, a wrong guard or polarity, an off-by-one, a missing case, a stale cache, a forgotten field in a copy, ...), be small (a few lines), and should need something SPECIFIC to manifest — a particular multi-step sequence of operations, an unusual input or parameter setting, a particular graph shape, or two cooperating sites that each look fine alone — NOT something ordinary use exposes at once. Prefer a change in code that the property's anchors point at. Avoid changes that merely crash or assert. {extra}

HOW TO BUILD AND TEST (takes ~8 minutes on first build; later builds are incremental but most tests include most headers)
  cd {wt}
  cmake -S . -B _build -G Ninja -DCRAB_ENABLE_TESTS=ON -DCMAKE_BUILD_TYPE=RelWithDebInfo -DCMAKE_CXX_FLAGS_RELWITHDEBINFO="-O1 -DNDEBUG" > /dev/null
  ninja -C _build > _build/ninja.log 2>&1 ; tail -3 _build/ninja.log
  ctest --test-dir _build -j8 --timeout 900 2>&1 | tail -5        # must report 100% tests passed, 120 tests
A demo program can be built like:
  g++ -std=c++11 -O1 -I{wt}/include -I{wt}/_build/include demo.cpp {wt}/_build/lib/libCrab.a -lgmp -o demo
Look at {wt}/tests/*.hpp and {wt}/tests/domains/*.cc for how client code sets up variable factories, CFGs, domains and analyzers (tests/crab_lang.hpp and tests/crab_dom.hpp define the usual typedefs; you may include them from your demo with -I{wt}/tests).
Think first, choose the change by READING the code, then build once with the change applied, run the tests, then write and run the demo with and without the change (git stash / git apply -R to toggle; rebuild the library or, for header-only changes, just rebuild the demo).

DELIVERABLES (all under {wt}/_seed/):
  patch.diff   - `git diff` of the library change only (must apply with `git apply` to a clean checkout)
  demo.cpp     - the demonstration (plus build.sh with the exact build/run commands, using paths relative to the worktree root passed as $1)
  README.md    - what the change is, which clause of the property it breaks and why, what it needs in order to manifest, why the existing tests do not notice, and the exact commands you ran with their observed results (ctest summary with the patch; demo exit status with and without the patch)
Leave the worktree with the patch APPLIED and _build present. In your final answer give a concise summary (the diff, what manifests it, test results). If after serious effort you cannot satisfy (b) or (c), say so plainly rather than overstating.""")
