#!/bin/sh
# verify_seed.sh <worktree>: confirm a seeded change (1) builds, (2) keeps the
# 120-test suite green, (3) makes the demo fail, and (4) the demo passes
# without it.  Leaves the worktree with the patch applied.
wt=$1
cd $wt || exit 2
echo "== patch"; git diff --stat -- include lib | tail -3
git diff -- include lib > /tmp/verify_cur.diff
echo "== build (with patch)"; ninja -k 0 -C _build > _build/verify_ninja.log 2>&1; tail -1 _build/verify_ninja.log
echo "== ctest (with patch)"; ctest --test-dir _build -j12 --timeout 900 2>&1 | grep -E "tests passed|Not Run|Failed|\*\*\*" | head -8
echo "== demo with patch"; sh _seed/build.sh $wt > /tmp/verify_demo1.log 2>&1; echo "exit=$?"; tail -3 /tmp/verify_demo1.log
echo "== demo without patch"; git apply -R /tmp/verify_cur.diff && ninja -C _build Crab >/dev/null 2>&1; sh _seed/build.sh $wt > /tmp/verify_demo2.log 2>&1; echo "exit=$?"; tail -3 /tmp/verify_demo2.log
git apply /tmp/verify_cur.diff
echo "== restored"; git diff --stat -- include lib | tail -1
