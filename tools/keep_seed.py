#!/usr/bin/env python3
"""keep_seed.py <worktree> <seed id> <property> <needs...>: copy a verified seeded change into /verif/seeded/<id>/"""
import json, os, shutil, subprocess, sys
wt, sid, prop = sys.argv[1:4]
needs = " ".join(sys.argv[4:])
d = os.path.join("/verif/seeded", sid)
os.makedirs(d, exist_ok=True)
for f in ("patch.diff", "demo.cpp", "build.sh", "README.md"):
    p = os.path.join(wt, "_seed", f)
    if os.path.exists(p):
        shutil.copy(p, os.path.join(d, f))
log = ""
lp = "/tmp/verify_%s.log" % os.path.basename(wt).split("_")[-1]
if os.path.exists(lp):
    log = open(lp).read()
meta = {"id": sid, "property": prop, "needs_to_manifest": needs,
        "patch_files": subprocess.check_output(["git", "-C", wt, "diff", "--stat", "--", "include", "lib"]).decode().strip().splitlines(),
        "verified_by": "tools/verify_seed.sh in the scratch worktree: ninja -k 0 (wrapint.cc does not compile with g++ 12 in this sandbox, "
                       "with or without the change; it is not among the 120 baseline tests), ctest (only 'wrapint (Not Run)' fails, as on the "
                       "unchanged tree), demo with the change (exit 1), demo without it (exit 0)",
        "verification_log": log[-1500:]}
json.dump(meta, open(os.path.join(d, "meta.json"), "w"), indent=1)
print("kept", d)
