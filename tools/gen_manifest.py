#!/usr/bin/env python3
"""Regenerates /verif/MANIFEST.json from the property modules that exist."""
import importlib
import json
import os
import sys

HERE = os.path.dirname(os.path.abspath(__file__))
VERIF = os.path.dirname(HERE)
sys.path.insert(0, VERIF)

PENDING_REASON = {}

NOTES = ("Static analysis only: a clang-14 frontend plugin (engine/crabfacts.cc) dumps the instantiated, "
         "callee-resolved syntax trees of /repo's current sources; python rules (crabcheck/props) decide clause-level "
         "necessary conditions of each property. Exit 0 = all obligations discharged, 1 = violation, 2 = analysis broken "
         "(anchor vanished / site no longer decidable) which is neither a pass nor an alarm. See DESIGN.md.")


def main():
    props = [json.loads(l) for l in open(os.path.join(VERIF, "properties.jsonl"))]
    checks = []
    na = []
    for p in props:
        pid = p["id"]
        try:
            mod = importlib.import_module("crabcheck.props." + pid)
        except ImportError:
            na.append({"property_id": pid, "reason": PENDING_REASON.get(pid, "no static rule built yet for this property")})
            continue
        if getattr(mod, "NOT_APPLICABLE", None):
            na.append({"property_id": pid, "reason": mod.NOT_APPLICABLE})
            continue
        checks.append({
            "property_id": pid,
            "quick_cmd": "python3 check.py %s --tier quick" % pid,
            "thorough_cmd": "python3 check.py %s --tier thorough" % pid,
            "evidence_file": "/verif/evidence/%s.json" % pid,
            "replay_cmd_template": "python3 check.py %s --replay {path}" % pid,
            "engine": "crabcheck",
            "level_claimed": {"category": "other", "text": mod.LEVEL_TEXT, "design_ref": "DESIGN.md section 4, " + pid},
            "level_note": "Trusted: clang 14 parsing/instantiation, the crabfacts normalisation, frozen tables in the rule "
                          "modules. Assumes: " + "; ".join(mod.ASSUMPTIONS),
            "technique": getattr(mod, "TECHNIQUE", "custom static analysis over clang AST facts (must-precede / guarded-by / "
                                                   "who-may-write / table agreement rules)"),
        })
    man = {
        "version": 1,
        "setup_cmd": "sh engine/build.sh",
        "hooks": {"guard": "CRAB_VERIF_STATIC",
                  "enable": "none needed: static analysis reads the sources as they are; no instrumentation is compiled in",
                  "baseline_off_cmd": "ctest --test-dir /repo/_build -j8 --timeout 900",
                  "source_commits": [], "add_only": True},
        "engines": [{"name": "crabcheck", "path": "/verif/check.py",
                     "serves_properties": [c["property_id"] for c in checks],
                     "kind_free_text": "clang-14 frontend plugin (AST fact extractor over instantiated templates) + python rule library"}],
        "checks": checks,
        "notes": NOTES,
        "not_applicable": na,
    }
    with open(os.path.join(VERIF, "MANIFEST.json"), "w") as fh:
        json.dump(man, fh, indent=1)
    print("claimed:", [c["property_id"] for c in checks])
    print("not applicable:", [n["property_id"] for n in na])


if __name__ == "__main__":
    main()
