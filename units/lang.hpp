// /verif-owned copy of the client-side language definitions (mirrors
// tests/crab_lang.hpp) so that edits under /repo/tests cannot hide code from
// the checker.  Never executed; only parsed by clang with the crabfacts plugin.
#pragma once
#include <crab/cfg/basic_block_traits.hpp>
#include <crab/cfg/cfg.hpp>
#include <crab/cg/cg.hpp>
#include <crab/config.h>
#include <crab/support/debug.hpp>
#include <crab/types/varname_factory.hpp>
#include <crab/types/tag.hpp>

namespace crab {
namespace cfg_impl {
using variable_factory_t = var_factory_impl::str_variable_factory;
using varname_t = typename variable_factory_t::varname_t;
using basic_block_label_t = std::string;
using z_cfg_t = cfg::cfg<basic_block_label_t, varname_t, ikos::z_number>;
using z_cfg_ref_t = cfg::cfg_ref<z_cfg_t>;
using z_cfg_rev_t = cfg::cfg_rev<z_cfg_ref_t>;
using z_basic_block_t = z_cfg_t::basic_block_t;
using z_var = variable<ikos::z_number, varname_t>;
using z_var_or_cst_t = variable_or_constant<ikos::z_number, varname_t>;
using z_lin_exp_t = ikos::linear_expression<ikos::z_number, varname_t>;
using z_lin_cst_t = ikos::linear_constraint<ikos::z_number, varname_t>;
using z_ref_cst_t = reference_constraint<ikos::z_number, varname_t>;
using q_cfg_t = cfg::cfg<basic_block_label_t, varname_t, ikos::q_number>;
using q_cfg_ref_t = cfg::cfg_ref<q_cfg_t>;
using q_cfg_rev_t = cfg::cfg_rev<q_cfg_ref_t>;
using q_basic_block_t = q_cfg_t::basic_block_t;
using q_var = variable<ikos::q_number, varname_t>;
using q_lin_t = ikos::linear_expression<ikos::q_number, varname_t>;
using q_lin_cst_t = ikos::linear_constraint<ikos::q_number, varname_t>;
} // namespace cfg_impl
namespace cg_impl {
using z_cg_t = cg::call_graph<cfg_impl::z_cfg_ref_t>;
using z_cg_ref_t = cg::call_graph_ref<z_cg_t>;
} // namespace cg_impl

template <> class variable_name_traits<std::string> {
public:
  static std::string to_string(std::string varname) { return varname; }
};
template <> class basic_block_traits<cfg_impl::z_basic_block_t> {
public:
  using bb_label_t = typename cfg_impl::z_basic_block_t::basic_block_label_t;
  static std::string to_string(const bb_label_t &bbl) { return bbl; }
};
template <> class basic_block_traits<cfg_impl::q_basic_block_t> {
public:
  using bb_label_t = typename cfg_impl::q_basic_block_t::basic_block_label_t;
  static std::string to_string(const bb_label_t &bbl) { return bbl; }
};
} // namespace crab
