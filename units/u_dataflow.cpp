#include "doms.hpp"
#include <crab/analysis/dataflow/assertion_crawler.hpp>
#include <crab/analysis/dataflow/assumptions.hpp>
#include <crab/analysis/dataflow/liveness.hpp>
#include <crab/analysis/fwd_analyzer.hpp>
#include <crab/analysis/graphs/cdg.hpp>
#include <crab/analysis/graphs/dominance.hpp>
#include <crab/analysis/graphs/sccg.hpp>
#include <crab/analysis/graphs/topo_order.hpp>
#include <crab/cfg/cfg_to_dot.hpp>
#include <crab/cfg/type_checker.hpp>
#include <crab/checkers/assertion.hpp>
#include <crab/checkers/checker.hpp>
#include <crab/transforms/dce.hpp>
#include <crab/transforms/lower_safe_assertions.hpp>
using namespace vdom;
void dataflow_run(z_cfg_t *cfg, crab::cg_impl::z_cg_t &cg) {
  z_cfg_ref_t cfg_ref(*cfg);
  {
    using crawler_t = crab::analyzer::assertion_crawler<z_cfg_ref_t>;
    typename crawler_t::assert_map_t assert_map;
    typename crawler_t::summary_map_t summaries;
    crawler_t crawler(cfg_ref, assert_map, summaries);
    crawler.exec();
    crawler.write(crab::outs());
    auto r = crawler.get_results(cfg->entry());
    crab::outs() << r;
  }
  {
    using icrawler_t = crab::analyzer::inter_assertion_crawler<crab::cg_impl::z_cg_t>;
    icrawler_t crawler(cg);
    crawler.run();
    auto results = crawler.get_results(cfg_ref, cfg->entry());
    crab::outs() << results;
    crawler.write(crab::outs());
  }
  {
    crab::transforms::dead_code_elimination<z_cfg_ref_t> dce;
    dce.run(cfg_ref);
    z_cfg_t *cloned = cfg->clone();
    cloned->simplify();
    crab::outs() << *cloned;
    delete cloned;
  }
  {
    std::set<const z_cfg_ref_t::statement_t *> safe_checks;
    crab::transforms::lower_safe_assertions<z_cfg_ref_t> lsa(safe_checks);
    lsa.run(cfg_ref);
  }
  {
    crab::analyzer::liveness_analysis<z_cfg_ref_t> live(cfg_ref);
    live.exec();
    crab::outs() << live;
  }
  {
    crab::analyzer::assumption_naive_analysis<z_cfg_ref_t> a1(cfg_ref);
    a1.exec();
    crab::analyzer::assumption_dataflow_analysis<z_cfg_ref_t> a2(cfg_ref);
    a2.exec();
  }
  {
    std::map<basic_block_label_t, std::vector<basic_block_label_t>> cdg;
    crab::analyzer::graph_algo::control_dep_graph(cfg_ref, cdg);
    std::unordered_map<basic_block_label_t, basic_block_label_t> idom;
    crab::analyzer::graph_algo::dominator_tree(cfg_ref, cfg_ref.entry(), idom);
    crab::analyzer::graph_algo::scc_graph<crab::cg_impl::z_cg_ref_t> sccg(cg);
    std::vector<typename crab::cg_impl::z_cg_ref_t::node_t> order;
    crab::analyzer::graph_algo::rev_topo_sort(sccg, order);
  }
  {
    crab::cfg::type_checker<z_cfg_ref_t> tc(cfg_ref);
    tc.run();
  }
}
template class crab::cfg::cfg<basic_block_label_t, varname_t, ikos::z_number>;
template class crab::cfg::basic_block<basic_block_label_t, varname_t, ikos::z_number>;
template class crab::cfg::cfg_ref<z_cfg_t>;
template class crab::cfg::cfg_rev<z_cfg_ref_t>;
template class crab::cfg::basic_block_rev<z_basic_block_t>;
// set_domain::rename is instantiated by no client in the tree (the sets of constraints of the flat Boolean domain never
// rename): instantiate it over variables so that the twin of discrete_domain::rename is analysed too
template void crab::domains::set_domain<crab::cfg_impl::z_var, std::less<crab::cfg_impl::z_var>>::rename(
    const std::vector<crab::cfg_impl::z_var> &, const std::vector<crab::cfg_impl::z_var> &);
// the meet of discrete_pair_domain has no client in the tree (the assertion crawler only joins): instantiate it
using vdf_pair_dom_t = crab::domains::discrete_pair_domain<crab::cfg_impl::z_var, ikos::discrete_domain<crab::cfg_impl::z_var>>;
template vdf_pair_dom_t vdf_pair_dom_t::operator&(const vdf_pair_dom_t &) const;
