// alternative graph representations and weight types of the DBM-based domains (closure-related domain parameters)
#include "doms.hpp"
using namespace vdom;
using namespace crab::domains;
using z_ss_t = DBM_impl::DefaultParams<z_number, DBM_impl::GraphRep::ss>;
using z_pt_t = DBM_impl::DefaultParams<z_number, DBM_impl::GraphRep::pt>;
using z_ht_t = DBM_impl::DefaultParams<z_number, DBM_impl::GraphRep::ht>;
using z_safe_t = DBM_impl::SafeInt64DefaultParams<z_number, DBM_impl::GraphRep::adapt_ss>;
using z_big_t = DBM_impl::BigNumDefaultParams<z_number, DBM_impl::GraphRep::ss>;
template class crab::domains::split_dbm_domain<z_number, varname_t, z_ss_t>;
template class crab::domains::split_dbm_domain<z_number, varname_t, z_pt_t>;
template class crab::domains::split_dbm_domain<z_number, varname_t, z_ht_t>;
template class crab::domains::split_dbm_domain<z_number, varname_t, z_safe_t>;
template class crab::domains::split_dbm_domain<z_number, varname_t, z_big_t>;
template class crab::domains::split_oct_domain<z_number, varname_t, z_safe_t>;
