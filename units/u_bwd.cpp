#include "doms.hpp"
#include <crab/analysis/bwd_analyzer.hpp>
#include <crab/checkers/assertion.hpp>
#include <crab/checkers/base_property.hpp>
#include <crab/checkers/checker.hpp>
using namespace vdom;
template <typename CFG, typename Dom>
void backward_run(CFG *cfg, basic_block_label_t entry, Dom initial_states) {
  using cfg_ref_t = crab::cfg::cfg_ref<CFG>;
  using analyzer_t = crab::analyzer::intra_forward_backward_analyzer<cfg_ref_t, Dom>;
  analyzer_t a(*cfg, initial_states);
  typename analyzer_t::assumption_map_t assumptions;
  crab::fixpoint_parameters fixpo_params;
  crab::analyzer::fwd_bwd_parameters params;
  params.enable_backward() = true;
  a.run(entry, initial_states, assumptions, nullptr, fixpo_params, params);
  auto inv = a[entry];
  auto pre = a.get_pre(entry);
  auto post = a.get_post(entry);
  auto &wto = a.get_wto();
  crab::outs() << wto << inv << pre << post;
  using checker_t = crab::checker::intra_checker<analyzer_t>;
  using property_t = crab::checker::assert_property_checker<analyzer_t>;
  typename checker_t::prop_checker_ptr prop(new property_t(3));
  checker_t checker(a, {prop});
  checker.run();
  checker.show(crab::outs());
}
template void backward_run<z_cfg_t, z_interval_domain_t>(z_cfg_t *, basic_block_label_t, z_interval_domain_t);
template void backward_run<z_cfg_t, z_sdbm_domain_t>(z_cfg_t *, basic_block_label_t, z_sdbm_domain_t);
template void backward_run<z_cfg_t, z_aa_int_t>(z_cfg_t *, basic_block_label_t, z_aa_int_t);
template void backward_run<q_cfg_t, q_interval_domain_t>(q_cfg_t *, basic_block_label_t, q_interval_domain_t);
template class crab::analyzer::intra_necessary_preconditions_abs_transformer<
    z_basic_block_t, z_interval_domain_t,
    std::unordered_map<const z_cfg_t::statement_t *, z_interval_domain_t>>;
template class crab::analyzer::necessary_preconditions_fixpoint_iterator<z_cfg_ref_t, z_interval_domain_t>;
template class crab::domains::BackwardAssignOps<z_interval_domain_t>;
template class crab::domains::BackwardAssignOps<q_interval_domain_t>;
template class crab::domains::BackwardAssignOps<z_sdbm_domain_t>;
