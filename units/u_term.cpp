#include "doms.hpp"
using namespace vdom;
template class crab::domains::term_domain<crab::domains::term::TDomInfo<z_number, varname_t, z_interval_domain_t>>;
template class crab::domains::term_domain<crab::domains::term::TDomInfo<z_number, varname_t, z_dis_interval_domain_t>>;
template class crab::domains::uf_domain<z_number, varname_t>;
template class crab::domains::reduced_numerical_domain_product2<z_term_dis_int_t, z_sdbm_domain_t>;
