// forward analyzer + checker + liveness for two representative domains
#include "doms.hpp"
#include <crab/analysis/dataflow/liveness.hpp>
#include <crab/analysis/fwd_analyzer.hpp>
#include <crab/checkers/assertion.hpp>
#include <crab/checkers/base_property.hpp>
#include <crab/checkers/checker.hpp>
#include <crab/checkers/div_zero.hpp>
using namespace vdom;
template <typename CFG, typename Dom>
void intra_run(CFG *cfg, basic_block_label_t entry, Dom init) {
  using cfg_ref_t = crab::cfg::cfg_ref<CFG>;
  using analyzer_t = crab::analyzer::intra_fwd_analyzer<cfg_ref_t, Dom>;
  using assumption_map_t = typename analyzer_t::assumption_map_t;
  crab::analyzer::live_and_dead_analysis<cfg_ref_t> live(*cfg);
  live.exec();
  auto absval_fac = init.make_top();
  crab::fixpoint_parameters fixpo_params;
  analyzer_t a(*cfg, absval_fac, &live, fixpo_params);
  assumption_map_t assumptions;
  a.run(entry, init, assumptions);
  a.run(init);
  auto inv = a[entry];
  auto pre = a.get_pre(entry);
  auto post = a.get_post(entry);
  auto &wto = a.get_wto();
  crab::outs() << wto << inv << pre << post;
  a.clear();
  using checker_t = crab::checker::intra_checker<analyzer_t>;
  using assert_checker_t = crab::checker::assert_property_checker<analyzer_t>;
  using div_checker_t = crab::checker::div_zero_property_checker<analyzer_t>;
  typename checker_t::prop_checker_ptr prop(new assert_checker_t(0));
  typename checker_t::prop_checker_ptr prop2(new div_checker_t(0));
  checker_t checker(a, {prop, prop2});
  checker.run();
  checker.show(crab::outs());
}
template void intra_run<z_cfg_t, z_interval_domain_t>(z_cfg_t *, basic_block_label_t, z_interval_domain_t);
template void intra_run<z_cfg_t, z_sdbm_domain_t>(z_cfg_t *, basic_block_label_t, z_sdbm_domain_t);
template void intra_run<q_cfg_t, q_interval_domain_t>(q_cfg_t *, basic_block_label_t, q_interval_domain_t);
template void intra_run<z_cfg_t, z_abs_domain_t>(z_cfg_t *, basic_block_label_t, z_abs_domain_t);
template void intra_run<z_cfg_t, z_rgn_int_t>(z_cfg_t *, basic_block_label_t, z_rgn_int_t);
// the whole iterator / transformer classes, every member
template class ikos::interleaved_fwd_fixpoint_iterator<z_cfg_ref_t, z_interval_domain_t>;
template class ikos::wto<z_cfg_ref_t>;
template class ikos::wto_nesting<z_cfg_ref_t>;
template class crab::analyzer::intra_abs_transformer<z_basic_block_t, z_interval_domain_t>;
template class crab::analyzer::intra_abs_transformer<z_basic_block_t, z_sdbm_domain_t>;
template class crab::thresholds<z_number>;
template class crab::analyzer::liveness_analysis<z_cfg_ref_t>;
template class crab::analyzer::live_and_dead_analysis<z_cfg_ref_t>;
