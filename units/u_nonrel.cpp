#include "doms.hpp"
using namespace vdom;
template class ikos::interval_domain<z_number, varname_t>;
template class ikos::interval_domain<q_number, varname_t>;
template class crab::domains::constant_domain<z_number, varname_t>;
template class ikos::congruence_domain<z_number, varname_t>;
template class crab::domains::numerical_congruence_domain<z_interval_domain_t>;
template class crab::domains::sign_domain<z_number, varname_t>;
template class crab::domains::sign_constant_domain<z_number, varname_t>;
template class crab::domains::dis_interval_domain<z_number, varname_t>;
template class crab::domains::wrapped_interval_domain<z_number, varname_t>;
template class crab::domains::flat_boolean_domain<z_number, varname_t>;
