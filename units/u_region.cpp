#include "doms.hpp"
using namespace vdom;
template class crab::domains::region_domain<RegionParams<rgn_int_base_t>>;
template class crab::domains::region_domain<RegionParams<rgn_sdbm_base_t>>;
