#include "doms.hpp"
#include <crab/analysis/inter/bottom_up_inter_analyzer.hpp>
#include <crab/analysis/inter/top_down_inter_analyzer.hpp>
#include <crab/checkers/checker.hpp>
using namespace vdom;
using params_t = crab::analyzer::inter_analyzer_parameters<crab::cg_impl::z_cg_t>;
template <typename InterAnalyzer, typename Dom>
void inter_run(crab::cg_impl::z_cg_t &cg, Dom init, const params_t &params) {
  InterAnalyzer analyzer(cg, init, params);
  analyzer.run(init);
  for (auto &v : boost::make_iterator_range(cg.nodes())) {
    auto cfg = v.get_cfg();
    auto pre = analyzer.get_pre(cfg, cfg.entry());
    auto post = analyzer.get_post(cfg, cfg.entry());
    auto sum = analyzer.get_summary(cfg);
    crab::outs() << pre << post << sum;
  }
  analyzer.clear();
}
using td_int_t = crab::analyzer::top_down_inter_analyzer<crab::cg_impl::z_cg_t, z_interval_domain_t>;
using td_sdbm_t = crab::analyzer::top_down_inter_analyzer<crab::cg_impl::z_cg_t, z_sdbm_domain_t>;
using td_rgn_t = crab::analyzer::top_down_inter_analyzer<crab::cg_impl::z_cg_t, z_rgn_sdbm_t>;
using bu_t = crab::analyzer::bottom_up_inter_analyzer<crab::cg_impl::z_cg_t, z_dbm_domain_t, z_interval_domain_t>;
using bu2_t = crab::analyzer::bottom_up_inter_analyzer<crab::cg_impl::z_cg_t, z_sdbm_domain_t, z_sdbm_domain_t>;
template void inter_run<td_int_t, z_interval_domain_t>(crab::cg_impl::z_cg_t &, z_interval_domain_t, const params_t &);
template void inter_run<td_sdbm_t, z_sdbm_domain_t>(crab::cg_impl::z_cg_t &, z_sdbm_domain_t, const params_t &);
template void inter_run<td_rgn_t, z_rgn_sdbm_t>(crab::cg_impl::z_cg_t &, z_rgn_sdbm_t, const params_t &);
void td_checks(crab::cg_impl::z_cg_t &cg, const params_t &params) {
  z_interval_domain_t init;
  td_int_t a(cg, init, params);
  a.run(init);
  a.print_checks(crab::outs());
}
void bu_run(crab::cg_impl::z_cg_t &cg, const params_t &params) {
  z_dbm_domain_t bu_top;
  z_interval_domain_t td_top;
  bu_t a(cg, td_top, bu_top, params);
  a.run(td_top);
  z_sdbm_domain_t s_top;
  bu2_t a2(cg, s_top, s_top, params);
  a2.run(s_top);
  for (auto &v : boost::make_iterator_range(cg.nodes())) {
    auto cfg = v.get_cfg();
    auto pre = a.get_pre(cfg, cfg.entry());
    auto post = a.get_post(cfg, cfg.entry());
    auto sum = a.get_summary(cfg);
    crab::outs() << pre << post << sum;
  }
  a.clear();
}
template class crab::cg::call_graph<z_cfg_ref_t>;
template class crab::cg::call_graph_ref<crab::cg_impl::z_cg_t>;
// the checker of the bottom-up analyzer: no test of the repository instantiates it
template class crab::checker::inter_checker<bu_t>;
template class crab::checker::inter_checker<bu2_t>;
