#include "doms.hpp"
using namespace vdom;
template class crab::domains::array_smashing<z_interval_domain_t>;
template class crab::domains::array_smashing<z_sdbm_domain_t>;
template class crab::domains::array_adaptive_domain<z_interval_domain_t>;
template class crab::domains::array_adaptive_domain<z_sdbm_domain_t>;
