// sparse_dbm_domain has one member (Wt_max::apply) that does not compile when
// instantiated (uses an undeclared `max`); the unit is parsed with
// allowerrors=1 and the rule library checks that this is the only error.
#include "doms.hpp"
using namespace vdom;
template class crab::domains::sparse_dbm_domain<z_number, varname_t, z_dbm_graph_t>;
