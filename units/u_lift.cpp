#include "doms.hpp"
using namespace vdom;
template class crab::domains::flat_boolean_numerical_domain<z_interval_domain_t>;
template class crab::domains::flat_boolean_numerical_domain<z_sdbm_domain_t>;
template class crab::domains::lookahead_widening_domain<z_soct_domain_t>;
template class crab::domains::lookahead_widening_domain<z_interval_domain_t>;
template class crab::domains::numerical_packing_domain<z_sdbm_domain_t>;
template class crab::domains::powerset_domain<z_interval_domain_t>;
template class crab::domains::value_partitioning_domain<z_interval_domain_t>;
