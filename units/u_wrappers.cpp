#include "doms.hpp"
using namespace vdom;
template class crab::domains::abstract_domain<z_var>;
template class crab::domains::abstract_domain_ref<z_var>;
template class crab::domains::abstract_domain<q_var>;
template class crab::domains::abstract_domain_ref<q_var>;
namespace {
// force the type-erasure model for two concrete domains
void use_models() {
  z_interval_domain_t i;
  z_abs_domain_nonref_t a(i);
  z_abs_domain_t r(i);
  z_sdbm_domain_t s;
  z_abs_domain_nonref_t a2(s);
  z_abs_domain_t r2(s);
}
}
