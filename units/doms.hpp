// Domain typedefs analysed by /verif (mirrors tests/crab_dom.hpp minus the
// external libraries that are not part of this build: apron, elina, ldd, pplite).
#pragma once
#include "lang.hpp"
#include <crab/domains/array_adaptive.hpp>
#include <crab/domains/array_smashing.hpp>
#include <crab/domains/combined_domains.hpp>
#include <crab/domains/combined_congruences.hpp>
#include <crab/domains/congruences.hpp>
#include <crab/domains/constant_domain.hpp>
#include <crab/domains/dis_intervals.hpp>
#include <crab/domains/fixed_tvpi_domain.hpp>
#include <crab/domains/flat_boolean_domain.hpp>
#include <crab/domains/generic_abstract_domain.hpp>
#include <crab/domains/intervals.hpp>
#include <crab/domains/lookahead_widening_domain.hpp>
#include <crab/domains/numerical_packing.hpp>
#include <crab/domains/powerset_domain.hpp>
#include <crab/domains/region_domain.hpp>
#include <crab/domains/sign_domain.hpp>
#include <crab/domains/sign_constant_domain.hpp>
#include <crab/domains/sparse_dbm.hpp>
#include <crab/domains/split_dbm.hpp>
#include <crab/domains/split_oct.hpp>
#include <crab/domains/term_equiv.hpp>
#include <crab/domains/uf_domain.hpp>
#include <crab/domains/value_partitioning_domain.hpp>
#include <crab/domains/wrapped_interval_domain.hpp>

namespace vdom {
using namespace crab::cfg_impl;
using namespace crab::domains;
using namespace ikos;

using z_interval_domain_t = interval_domain<z_number, varname_t>;
using q_interval_domain_t = interval_domain<q_number, varname_t>;
using z_constant_domain_t = constant_domain<z_number, varname_t>;
using z_congruence_domain_t = congruence_domain<z_number, varname_t>;
using z_ric_domain_t = numerical_congruence_domain<z_interval_domain_t>;
using z_sign_domain_t = sign_domain<z_number, varname_t>;
using z_sign_constant_domain_t = sign_constant_domain<z_number, varname_t>;
using z_dbm_graph_t = DBM_impl::DefaultParams<z_number, DBM_impl::GraphRep::adapt_ss>;
using q_dbm_graph_t = DBM_impl::DefaultParams<q_number, DBM_impl::GraphRep::adapt_ss>;
using z_dbm_domain_t = sparse_dbm_domain<z_number, varname_t, z_dbm_graph_t>;
using z_sdbm_domain_t = split_dbm_domain<z_number, varname_t, z_dbm_graph_t>;
using q_sdbm_domain_t = split_dbm_domain<q_number, varname_t, q_dbm_graph_t>;
using z_soct_domain_t = split_oct_domain<z_number, varname_t, z_dbm_graph_t>;
using z_dis_interval_domain_t = dis_interval_domain<z_number, varname_t>;
using z_term_domain_t = term_domain<term::TDomInfo<z_number, varname_t, z_interval_domain_t>>;
using z_term_dbm_t = term_domain<term::TDomInfo<z_number, varname_t, z_sdbm_domain_t>>;
using z_term_dis_int_t = term_domain<term::TDomInfo<z_number, varname_t, z_dis_interval_domain_t>>;
using z_uf_domain_t = uf_domain<z_number, varname_t>;
using z_num_domain_t = reduced_numerical_domain_product2<z_term_dis_int_t, z_sdbm_domain_t>;
using z_fixed_tvpi_domain_t = fixed_tvpi_domain<z_sdbm_domain_t>;
using z_flat_bool_domain_t = flat_boolean_domain<z_number, varname_t>;
using z_bool_num_domain_t = flat_boolean_numerical_domain<z_dbm_domain_t>;
using z_bool_interval_domain_t = flat_boolean_numerical_domain<z_interval_domain_t>;
using z_bool_sdbm_domain_t = flat_boolean_numerical_domain<z_sdbm_domain_t>;
using z_soct_domain_lw_t = lookahead_widening_domain<z_soct_domain_t>;
using z_interval_lw_t = lookahead_widening_domain<z_interval_domain_t>;
using z_pack_sdbm_t = numerical_packing_domain<z_sdbm_domain_t>;
using z_aa_int_t = array_adaptive_domain<z_interval_domain_t>;
using z_aa_term_int_t = array_adaptive_domain<z_term_domain_t>;
using z_aa_bool_int_t = array_adaptive_domain<z_bool_interval_domain_t>;
using z_aa_sdbm_t = array_adaptive_domain<z_sdbm_domain_t>;
using z_as_int_t = array_smashing<z_interval_domain_t>;
using z_as_dis_int_t = array_smashing<z_dis_interval_domain_t>;
using z_as_sdbm_t = array_smashing<z_sdbm_domain_t>;
using z_as_bool_num_t = array_smashing<z_bool_num_domain_t>;
using z_pow_int_t = powerset_domain<z_interval_domain_t>;
using z_pow_aa_int_t = powerset_domain<z_aa_int_t>;
using z_vp_int_t = value_partitioning_domain<z_interval_domain_t>;
using z_wrapped_interval_domain_t = wrapped_interval_domain<z_number, varname_t>;

using var_allocator = crab::var_factory_impl::str_var_alloc_col;
template <class BaseAbsDom> struct RegionParams {
  using number_t = z_number;
  using varname_t = crab::cfg_impl::varname_t;
  using varname_allocator_t = crab::var_factory_impl::str_var_alloc_col;
  using base_abstract_domain_t = BaseAbsDom;
  using base_varname_t = typename BaseAbsDom::varname_t;
};
using rgn_int_base_t = interval_domain<z_number, typename var_allocator::varname_t>;
using rgn_sdbm_base_t = split_dbm_domain<z_number, typename var_allocator::varname_t, z_dbm_graph_t>;
using z_rgn_int_t = region_domain<RegionParams<rgn_int_base_t>>;
using z_rgn_bool_int_t = region_domain<RegionParams<flat_boolean_numerical_domain<rgn_int_base_t>>>;
using z_rgn_sdbm_t = region_domain<RegionParams<rgn_sdbm_base_t>>;
using z_rgn_aa_int_t = region_domain<RegionParams<array_adaptive_domain<rgn_int_base_t>>>;

using z_abs_domain_t = abstract_domain_ref<z_var>;
using q_abs_domain_t = abstract_domain_ref<q_var>;
using z_abs_domain_nonref_t = abstract_domain<z_var>;
} // namespace vdom
