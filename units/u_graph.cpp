#include "doms.hpp"
using namespace vdom;
template class crab::domains::split_dbm_domain<z_number, varname_t, z_dbm_graph_t>;
template class crab::domains::split_oct_domain<z_number, varname_t, z_dbm_graph_t>;
template class crab::domains::fixed_tvpi_domain<z_sdbm_domain_t>;
