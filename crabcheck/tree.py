"""Utilities over the normalised function trees produced by crabfacts."""

CHILD_KEYS = ("init", "var", "i", "c", "o", "fx", "a", "b", "t", "e", "n", "v", "r",
              "L", "R", "ch", "h")

STMT_KINDS = {"seq", "if", "while", "do", "for", "rangefor", "switch", "case",
              "default", "ret", "break", "continue", "goto", "label", "decl",
              "try", "otherstmt"}


def children(n):
    """direct child nodes in evaluation order"""
    out = []
    if not isinstance(n, dict):
        return out
    k = n.get("k")
    if k in ("bin", "asg"):
        # C++ evaluates RHS before LHS for assignments in C++17 only; we keep
        # source order, rules that depend on it must say so
        for ck in ("L", "R"):
            v = n.get(ck)
            if isinstance(v, dict):
                out.append(v)
        return out
    if k == "for":
        order = ("i", "c", "b", "n")
    elif k == "do":
        order = ("b", "c")
    elif k == "lambda":
        order = ("b",)
    else:
        order = CHILD_KEYS
    for ck in order:
        v = n.get(ck)
        if isinstance(v, dict):
            out.append(v)
        elif isinstance(v, list):
            out.extend(x for x in v if isinstance(x, dict))
    return out


def walk(n, into_lambdas=True):
    """pre-order generator over all nodes"""
    stack = [n]
    while stack:
        x = stack.pop()
        if not isinstance(x, dict):
            continue
        yield x
        if x.get("k") == "lambda" and not into_lambdas:
            continue
        ch = children(x)
        stack.extend(reversed(ch))


def walk_with_parents(n, into_lambdas=True):
    """yields (node, parents tuple)"""
    stack = [(n, ())]
    while stack:
        x, ps = stack.pop()
        if not isinstance(x, dict):
            continue
        yield x, ps
        if x.get("k") == "lambda" and not into_lambdas:
            continue
        nps = ps + (x,)
        for c in reversed(children(x)):
            stack.append((c, nps))


def strip(n, casts=True):
    """remove wrappers that do not change the value: elidable copy/move
    constructions, default-argument markers, opaque values, explicit casts"""
    while isinstance(n, dict):
        k = n.get("k")
        if k == "ctor" and n.get("cp") and len(n.get("a", [])) == 1:
            n = n["a"][0]
        elif k == "dflt" or k == "opaque":
            n = n.get("e")
        elif k == "cast" and casts:
            n = n.get("e")
        elif k == "ctor" and len(n.get("a", [])) == 1 and is_converting_ctor(n):
            n = n["a"][0]
        else:
            break
    return n


def is_converting_ctor(n):
    return False


def callee(n):
    if isinstance(n, dict) and n.get("k") in ("call", "ctor"):
        f = n.get("f")
        if isinstance(f, dict):
            return f
    return None


def callee_name(n):
    f = callee(n)
    return f["name"] if f else None


def callee_pk(n):
    f = callee(n)
    return f["pk"] if f else None


def is_call(n, name=None, pk=None, cpk=None, op=None, nargs=None):
    if not isinstance(n, dict) or n.get("k") != "call":
        return False
    f = n.get("f")
    if op is not None:
        fop = n.get("op") or (f.get("op") if isinstance(f, dict) else None)
        if fop != op:
            return False
    if name is not None:
        if not isinstance(f, dict):
            return False
        if isinstance(name, (set, tuple, list, frozenset)):
            if f["name"] not in name:
                return False
        elif f["name"] != name:
            return False
    if pk is not None and (not isinstance(f, dict) or f["pk"] != pk):
        return False
    if cpk is not None and (not isinstance(f, dict) or f.get("cpk") != cpk):
        return False
    if nargs is not None and len(n.get("a", [])) != nargs:
        return False
    return True


def calls(n, into_lambdas=True, **kw):
    return [x for x in walk(n, into_lambdas) if is_call(x, **kw)]


def obj(n):
    """receiver expression of a member call (stripped)"""
    return strip(n.get("o")) if isinstance(n, dict) else None


def args(n):
    return [strip(a) for a in n.get("a", [])]


def is_this(n):
    n = strip(n)
    if not isinstance(n, dict):
        return False
    if n.get("k") == "this":
        return True
    if n.get("k") == "un" and n.get("op") == "*" and is_this(n.get("e")):
        return True
    return False


def is_ref(n, name=None, rk=None):
    n = strip(n)
    if not isinstance(n, dict) or n.get("k") != "ref":
        return False
    if name is not None and n.get("n") != name:
        return False
    if rk is not None and n.get("rk") != rk:
        return False
    return True


def deref(n):
    """see through smart-pointer / pointer dereferences: p->, *p, p.get()"""
    n = strip(n)
    while isinstance(n, dict):
        if n.get("k") == "call" and n.get("op") in ("->", "*") and "o" in n and not n.get("a"):
            n = strip(n["o"])
        elif n.get("k") == "call" and isinstance(n.get("f"), dict) and n["f"]["name"] == "get" and "o" in n and not n.get("a") \
                and (n["f"].get("cpk") or "").startswith("std::"):
            n = strip(n["o"])
        elif n.get("k") == "un" and n.get("op") == "*":
            n = strip(n.get("e"))
        else:
            break
    return n


def is_field(n, name=None, of_this=None):
    """member access expression to a data member (seen through ->, *, get())"""
    n = deref(n)
    if not isinstance(n, dict) or n.get("k") != "mem" or "fn" in n:
        return False
    if name is not None and n.get("n") != name:
        return False
    if of_this is True and not is_this(n.get("b")):
        return False
    if of_this is False and is_this(n.get("b")):
        return False
    return True


def is_lit(n, v=None):
    n = strip(n)
    if not isinstance(n, dict) or n.get("k") != "lit":
        return False
    return v is None or n.get("v") == v


def same_var(a, b):
    a, b = strip(a), strip(b)
    if not (isinstance(a, dict) and isinstance(b, dict)):
        return False
    if a.get("k") == "ref" and b.get("k") == "ref":
        if "id" in a and "id" in b:
            return a["id"] == b["id"]
        return a.get("n") == b.get("n") and a.get("rk") == b.get("rk")
    if a.get("k") == "mem" and b.get("k") == "mem":
        return a.get("n") == b.get("n") and same_expr(a.get("b"), b.get("b"))
    if a.get("k") == "this" and b.get("k") == "this":
        return True
    return False


def same_expr(a, b):
    """structural equality modulo wrappers and locations"""
    a, b = strip(a), strip(b)
    if a is None or b is None:
        return a is b
    if not (isinstance(a, dict) and isinstance(b, dict)):
        return a == b
    if a.get("k") != b.get("k"):
        # `*this` vs this
        if is_this(a) and is_this(b):
            return True
        return False
    k = a["k"]
    if k in ("ref", "mem", "this"):
        return same_var(a, b)
    if k == "lit":
        return a.get("v") == b.get("v")
    if k in ("call", "ctor"):
        fa, fb = a.get("f"), b.get("f")
        if (fa or {}).get("qn") != (fb or {}).get("qn") or (fa or {}).get("psig") != (fb or {}).get("psig"):
            return False
        if not same_expr(a.get("o"), b.get("o")):
            return False
        aa, ab = a.get("a", []), b.get("a", [])
        return len(aa) == len(ab) and all(same_expr(x, y) for x, y in zip(aa, ab))
    if k in ("bin", "asg"):
        return a.get("op") == b.get("op") and same_expr(a.get("L"), b.get("L")) and same_expr(a.get("R"), b.get("R"))
    if k == "un":
        return a.get("op") == b.get("op") and same_expr(a.get("e"), b.get("e"))
    if k == "cond":
        return all(same_expr(a.get(x), b.get(x)) for x in ("c", "t", "e"))
    ca, cb = children(a), children(b)
    return len(ca) == len(cb) and all(same_expr(x, y) for x, y in zip(ca, cb))


def mentions(n, pred):
    return any(pred(x) for x in walk(n))


def refs(n, name=None, vid=None):
    out = []
    for x in walk(n):
        if x.get("k") == "ref":
            if name is not None and x.get("n") != name:
                continue
            if vid is not None and x.get("id") != vid:
                continue
            out.append(x)
    return out


# ------------------------------------------------------------------ printing
_PREC_BIN = {"*": 12, "/": 12, "%": 12, "+": 11, "-": 11, "<<": 10, ">>": 10,
             "<": 9, ">": 9, "<=": 9, ">=": 9, "==": 8, "!=": 8, "&": 7, "^": 6,
             "|": 5, "&&": 4, "||": 3, ",": 1}


def src(n, depth=0):
    """compact source-like rendering (for reports and for signatures)"""
    if n is None:
        return ""
    if isinstance(n, list):
        return ", ".join(src(x, depth) for x in n)
    if not isinstance(n, dict):
        return str(n)
    if depth > 40:
        return "..."
    d = depth + 1
    k = n.get("k")
    if k == "ref":
        return n.get("n", "?")
    if k == "this":
        return "this"
    if k == "lit":
        if n.get("str"):
            return '"%s"' % n.get("v")
        return str(n.get("v"))
    if k == "mem":
        b = n.get("b")
        if isinstance(b, dict) and strip(b) is not None and strip(b).get("k") == "this":
            return n.get("n")
        return "%s.%s" % (src(b, d), n.get("n"))
    if k == "call":
        f = n.get("f")
        a = n.get("a", [])
        op = n.get("op")
        if op:
            if "o" in n:
                o = src(n["o"], d)
                if op == "()":
                    return "%s(%s)" % (o, src(a, d))
                if op == "[]":
                    return "%s[%s]" % (o, src(a, d))
                if op in ("*", "-", "!", "~", "++", "--", "->") and not a:
                    return "%s%s" % (op, o)
                if len(a) == 1:
                    return "(%s %s %s)" % (o, op, src(a[0], d))
                return "%s.operator%s(%s)" % (o, op, src(a, d))
            if len(a) == 2:
                return "(%s %s %s)" % (src(a[0], d), op, src(a[1], d))
            if len(a) == 1:
                return "%s%s" % (op, src(a[0], d))
        name = f["name"] if isinstance(f, dict) else src(n.get("fx"), d)
        if "o" in n:
            o = n["o"]
            if is_this(o):
                return "%s(%s)" % (name, src(a, d))
            return "%s.%s(%s)" % (src(o, d), name, src(a, d))
        if isinstance(f, dict) and f.get("static") and f.get("cpk"):
            return "%s::%s(%s)" % (f["cpk"].split("::")[-1], name, src(a, d))
        return "%s(%s)" % (name, src(a, d))
    if k == "ctor":
        a = n.get("a", [])
        if n.get("cp") and len(a) == 1:
            return src(a[0], d)
        f = n.get("f") or {}
        cn = (f.get("cpk") or "?").split("::")[-1]
        return "%s(%s)" % (cn, src(a, d))
    if k in ("bin", "asg"):
        return "(%s %s %s)" % (src(n.get("L"), d), n.get("op"), src(n.get("R"), d))
    if k == "un":
        op = n.get("op", "")
        if op.startswith("post"):
            return "%s%s" % (src(n.get("e"), d), op[4:])
        if op.startswith("pre"):
            return "%s%s" % (op[3:], src(n.get("e"), d))
        return "%s%s" % (op, src(n.get("e"), d))
    if k == "cond":
        return "(%s ? %s : %s)" % (src(n.get("c"), d), src(n.get("t"), d), src(n.get("e"), d))
    if k == "cast":
        return "(%s)%s" % (n.get("T"), src(n.get("e"), d))
    if k == "dflt" or k == "opaque":
        return src(n.get("e"), d)
    if k == "lambda":
        return "[lambda]"
    if k == "ilist":
        return "{%s}" % src(n.get("a", []), d)
    if k == "idx":
        return "%s[%s]" % (src(n.get("b"), d), src(n.get("i"), d))
    if k == "new":
        return "new %s(%s)" % (n.get("T"), src(n.get("e"), d))
    if k == "decl":
        return "%s %s = %s" % (n.get("T"), n.get("n"), src(n.get("i"), d))
    if k == "ret":
        return "return %s" % src(n.get("v"), d)
    if k == "if":
        return "if (%s) ..." % src(n.get("c"), d)
    if k in ("break", "continue"):
        return k
    if k == "seq":
        return "{...}"
    return "<%s>" % k


def loc(fn, n):
    l = n.get("l") if isinstance(n, dict) else None
    if l is None:
        return "%s:%s" % (fn.get("file"), fn.get("line"))
    return "%s:%s:%s" % (fn.get("file"), l, n.get("cl", 0))


def in_macro(n, parents, names):
    """is the node (or an ancestor) expanded from one of the named macros?
    'm' attributes are only emitted where the macro stack changes, so the
    nearest enclosing node carrying 'm' decides."""
    for x in (n,) + tuple(reversed(parents)):
        m = x.get("m")
        if m is not None:
            parts = m.split(">") if m else []
            return any(p in names for p in parts)
    return False


LOG_MACROS = {"CRAB_LOG", "CRAB_VERBOSE_IF", "CRAB_WARN", "assert"}
