"""Small matching helpers shared by the rule modules."""
from .tree import (walk, walk_with_parents, strip, is_call, is_ref, is_this, is_field,
                   same_expr, same_var, src, children, callee, LOG_MACROS)
from . import paths

ASSIGN_OPS = {"=", "|=", "&=", "+=", "-=", "*=", "/=", "^=", "%=", "<<=", ">>="}


def local_decls(body):
    """id -> decl node for every local variable declared in body"""
    out = {}
    for n in walk(body):
        if n.get("k") == "decl" and "id" in n:
            out[n["id"]] = n
    return out


def writes_to(body, vid):
    """nodes that (may) assign local/param variable vid: builtin assignment,
    operator= / compound operator call with the variable as receiver,
    ++/--.  Passing it by non-const reference is *not* tracked."""
    out = []
    for n in walk(body):
        k = n.get("k")
        if k == "asg":
            l = strip(n.get("L"))
            if isinstance(l, dict) and l.get("k") == "ref" and l.get("id") == vid:
                out.append(n)
        elif k == "call" and n.get("op") in ASSIGN_OPS:
            o = strip(n.get("o")) if "o" in n else (strip(n["a"][0]) if n.get("a") else None)
            if isinstance(o, dict) and o.get("k") == "ref" and o.get("id") == vid:
                out.append(n)
        elif k == "un" and n.get("op", "").lstrip("pre").lstrip("post") in ("++", "--"):
            e = strip(n.get("e"))
            if isinstance(e, dict) and e.get("k") == "ref" and e.get("id") == vid:
                out.append(n)
    return out


def resolve_local(body, e, decls=None):
    """one step of local def-use: a reference to a local variable that is
    initialised at its declaration and never written afterwards stands for its
    initialiser.  Returns the (stripped) expression."""
    e = strip(e)
    for _ in range(4):
        if not (isinstance(e, dict) and e.get("k") == "ref" and e.get("rk") == "local"):
            return e
        if decls is None:
            decls = local_decls(body)
        d = decls.get(e.get("id"))
        if d is None or "i" not in d:
            return e
        if writes_to(body, e["id"]):
            return e
        e = strip(d["i"])
    return e


_NEG = {"<=": ">", ">": "<=", "<": ">=", ">=": "<", "==": "!=", "!=": "=="}
_FLIP = {"<=": ">=", ">=": "<=", "<": ">", ">": "<", "==": "==", "!=": "!="}


def cmp_parts(n):
    """(op, lhs, rhs) of a comparison (builtin or overloaded), else None"""
    n = strip(n)
    if not isinstance(n, dict):
        return None
    if n.get("k") == "bin" and n.get("op") in _NEG:
        return n["op"], strip(n.get("L")), strip(n.get("R"))
    if n.get("k") == "call" and n.get("op") in _NEG:
        if "o" in n and len(n.get("a", [])) == 1:
            return n["op"], strip(n["o"]), strip(n["a"][0])
        if "o" not in n and len(n.get("a", [])) == 2:
            return n["op"], strip(n["a"][0]), strip(n["a"][1])
    return None


def atom_truth(cond, pol, atom, body=None, decls=None, depth=0):
    """Given that `cond` evaluated to `pol`, what does that imply for the
    atomic predicate `atom`?  atom(node) returns +1 if node *is* the atom, -1
    if node is its negation, 0 otherwise.  Result: True / False / None."""
    c = strip(cond)
    if not isinstance(c, dict) or depth > 8:
        return None
    a = atom(c)
    if a > 0:
        return pol
    if a < 0:
        return not pol
    k = c.get("k")
    if k == "un" and c.get("op") == "!":
        return atom_truth(c.get("e"), not pol, atom, body, decls, depth + 1)
    if k == "call" and c.get("op") == "!" and "o" in c and not c.get("a"):
        return atom_truth(c.get("o"), not pol, atom, body, decls, depth + 1)
    if k == "bin" and c.get("op") == "&&" and pol:
        for s in (c.get("L"), c.get("R")):
            r = atom_truth(s, True, atom, body, decls, depth + 1)
            if r is not None:
                return r
        return None
    if k == "bin" and c.get("op") == "||" and not pol:
        for s in (c.get("L"), c.get("R")):
            r = atom_truth(s, False, atom, body, decls, depth + 1)
            if r is not None:
                return r
        return None
    if k == "ref" and c.get("rk") == "local" and body is not None:
        r = resolve_local(body, c, decls)
        if r is not c and isinstance(r, dict) and r.get("k") != "ref":
            return atom_truth(r, pol, atom, body, decls, depth + 1)
    return None


def guard_truth(gs, atom, body=None):
    """truth value of `atom` implied by a guard tuple from paths.guards"""
    decls = local_decls(body) if body is not None else None
    res = None
    for cond, pol in gs:
        if isinstance(cond, tuple):
            continue
        r = atom_truth(cond, pol, atom, body, decls)
        if r is not None:
            if res is not None and res != r:
                return "contradiction"
            res = r
    return res


def in_log(n, parents):
    from .tree import in_macro
    return in_macro(n, parents, LOG_MACROS)


def nodes_not_in_log(body, pred, into_lambdas=True):
    out = []
    for n, ps in walk_with_parents(body, into_lambdas):
        if pred(n) and not in_log(n, ps):
            out.append((n, ps))
    return out


def rets(body, into_lambdas=False):
    return [n for n, ps in nodes_not_in_log(body, lambda x: x.get("k") == "ret", into_lambdas)]


def param(fn, idx):
    ps = fn.get("params", [])
    return ps[idx] if idx < len(ps) else None


def is_param(n, fn, idx):
    p = param(fn, idx)
    n = strip(n)
    return (p is not None and isinstance(n, dict) and n.get("k") == "ref"
            and n.get("id") == p["id"])


def strip_move(n):
    """std::move(x) / std::forward(x) -> x"""
    n = strip(n)
    while isinstance(n, dict) and n.get("k") == "call" and (callee(n) or {}).get("qn") in ("std::move", "std::forward") and n.get("a"):
        n = strip(n["a"][0])
    return n


def enclosing(parents, kinds):
    for p in reversed(parents):
        if p.get("k") in kinds:
            return p
    return None


def loops_in(body):
    return [n for n in walk(body, into_lambdas=False) if n.get("k") in ("for", "while", "do", "rangefor")]


def exits_of_loop(loop):
    """break / return / goto statements that leave `loop` (breaks of nested
    loops or switches excluded)"""
    out = []

    def go(n, depth_loops):
        if not isinstance(n, dict):
            return
        k = n.get("k")
        if k == "lambda":
            return
        if k == "break":
            if depth_loops == 0:
                out.append(n)
            return
        if k in ("ret", "goto"):
            out.append(n)
            return
        if k in ("for", "while", "do", "rangefor", "switch") and n is not loop:
            for c in children(n):
                go(c, depth_loops + 1)
            return
        for c in children(n):
            go(c, depth_loops)
    for c in children(loop):
        go(c, 0)
    return out
