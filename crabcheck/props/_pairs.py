"""Twin-statement consistency (a contradiction-style rule): the two bound
updates that propagate ONE new path se -> ... -> de through the zero vertex

    if (g.lookup(0, S, w))  g.update_edge(0, w.get() + W, D, op);
    if (g.lookup(D, 0, w))  g.update_edge(S, w.get() + W, 0, op);

must agree on the path weight W and on the end points S, D."""
from ..tree import (walk, strip, is_call, is_ref, is_this, is_field, deref, same_expr, src, obj, args, callee)
from .. import paths
from ..match import strip_move, resolve_local


def _is_zero(e):
    e = strip(e)
    return isinstance(e, dict) and e.get("k") == "lit" and e.get("v") == "0"


def _weight_term(e):
    """X in `w.get() + X`"""
    e = strip_move(e)
    if isinstance(e, dict) and e.get("k") == "call" and e.get("op") == "+":
        ops = ([e["o"]] if "o" in e else []) + e.get("a", [])
        if len(ops) == 2:
            for i in (0, 1):
                if is_call(strip(ops[i]), name="get"):
                    return strip(ops[1 - i])
    if isinstance(e, dict) and e.get("k") == "bin" and e.get("op") == "+":
        for a, b in ((e.get("L"), e.get("R")), (e.get("R"), e.get("L"))):
            if is_call(strip(a), name="get"):
                return strip(b)
    return None


def twin_update_rule(ctx, rid, files=("include/crab/domains/split_dbm.hpp",)):
    n = 0
    for f in files:
        for fn in ctx.db.fns(f):
            body = fn["body"]
            for blk in [x for x in walk(body) if x.get("k") == "seq"]:
                ups = []
                for s in blk.get("b", []):
                    if s.get("k") != "if" or "e" in s:
                        continue
                    c = strip(s.get("c"))
                    if not is_call(c, name="lookup") or len(c.get("a", [])) != 3:
                        continue
                    u = [x for x in walk(s.get("t")) if is_call(x, name="update_edge")]
                    if len(u) != 1 or len(u[0].get("a", [])) < 3:
                        continue
                    ups.append((c, u[0]))
                if len(ups) != 2:
                    continue
                (l1, u1), (l2, u2) = ups
                # orientation: one update starts at 0, the other ends at 0
                if _is_zero(u1["a"][0]) and _is_zero(u2["a"][2]):
                    up, lo = (l1, u1), (l2, u2)
                elif _is_zero(u2["a"][0]) and _is_zero(u1["a"][2]):
                    up, lo = (l2, u2), (l1, u1)
                else:
                    continue
                n += 1
                w_up, w_lo = _weight_term(up[1]["a"][1]), _weight_term(lo[1]["a"][1])
                S_up, D_up = strip(up[0]["a"][1]), strip(up[1]["a"][2])      # lookup(0,S), update(0,.,D)
                D_lo, S_lo = strip(lo[0]["a"][0]), strip(lo[1]["a"][0])      # lookup(D,0), update(S,.,0)
                if w_up is None or w_lo is None:
                    ctx.undecided("cannot read the path weight of the twin bound updates", fn, up[1], rid=rid)
                    continue
                if not same_expr(w_up, w_lo):
                    ctx.bad("%s: the two bound updates for the new path %s -> %s use different path weights (`%s` for the upper bound of "
                            "%s, `%s` for the lower bound of %s): one of the bounds is tightened with the weight of a shorter path" %
                            (fn["name"], src(S_up), src(D_up), src(w_up), src(D_up), src(w_lo), src(S_lo)), fn, up[1],
                            sig="twin-weight:%s:%s/%s" % (fn["pk"], src(w_up), src(w_lo)), rid=rid)
                elif not (same_expr(S_up, S_lo) and same_expr(D_up, D_lo)):
                    ctx.bad("%s: the twin bound updates disagree on the end points of the new path ((%s,%s) vs (%s,%s))" %
                            (fn["name"], src(S_up), src(D_up), src(S_lo), src(D_lo)), fn, up[1],
                            sig="twin-ends:%s:%s" % (fn["pk"], src(w_up)), rid=rid)
                else:
                    ctx.ok("%s: bounds of %s -> %s both updated with weight %s" % (fn["name"], src(S_up), src(D_up), src(w_up)), fn, up[1], rid=rid)
    if n == 0:
        ctx.fail("rule %s: no twin bound update found" % rid)
