"""C11 - backward analysis returns necessary preconditions."""
from ..tree import (walk, walk_with_parents, strip, is_call, is_ref, is_this, is_field, deref, same_expr,
                    src, obj, args, callee)
from .. import paths
from ..match import (strip_move, is_param, rets, nodes_not_in_log, resolve_local, local_decls, writes_to, cmp_parts,
                     guard_truth, atom_truth)
from . import _stmts
from . import _enumswitch as es
from . import _cfgedges

LEVEL_TEXT = ("Clause-level static rules: the backward transformer overwrites (backward_* / forget) every operand a statement "
              "defines and maps each statement kind to the reviewed backward operation with operands in the reviewed positions; "
              "for assertions it joins the negated condition when propagating error states and assumes the condition for good "
              "states; per-statement forward invariants are recorded BEFORE the statement is executed and statements are walked "
              "in reverse; generic backward arithmetic only inverts operations that are invertible over the instantiation's number "
              "type and always meets with the forward invariant; the reversed CFG views mirror every accessor; casts with a Boolean operand "
              "forget the destination (r12); assertions are discharged with dominance relative to the forward entry (r13); a re-run starts "
              "from cleared tables (r14); backward array stores handle every overwritten cell (r15). Numeric soundness of "
              "each domain's own backward_* operations is NOT decided; region/reference statements have no backward semantics in "
              "the API (documented) and are exempt.")
ASSUMPTIONS = ["forward invariants supplied to the backward analysis are sound (C01)",
               "domain-specific backward_* operations over-approximate the pre-image (numeric, not decided)"]

ABS = "include/crab/analysis/abs_transformer.hpp"
BWD = "include/crab/analysis/bwd_analyzer.hpp"
BAO = "include/crab/domains/backward_assign_operations.hpp"
NPT = "crab::analyzer::intra_necessary_preconditions_abs_transformer"

# (round 0 exempted all thirteen region / reference statement kinds here because the domain API has no backward region
# operations.  That exemption hid finding F16: an empty exec() for a statement that DEFINES a variable is unsound.  Only the kinds
# that define nothing remain exempt; assert_ref is decided by C11.r2.)
EXEMPT = {"remove_ref_stmt": "defines no variable", "assume_ref_stmt": "defines no variable; ignoring an assumption enlarges the precondition",
          "assert_ref_stmt": "defines no variable; error states decided by C11.r2"}
EXEMPT["intrinsic_stmt"] = "semantics of an intrinsic is domain-defined"


def _extra_kill(n, info, sid):
    """`m_pre = pre_then | pre_else` where both copies were backward-assigned:
    treat a whole-state assignment from locals that killed the def as a kill"""
    return ()


def r1_def_coverage(ctx):
    ctx.rule("C11.r1", "backward exec(S&) overwrites or forgets every operand S defines", floor=40)
    # select_t assigns through copies of m_pre: receiver fields include the local copies
    kinds = _stmts.def_coverage_rule(ctx, "C11.r1", None, ABS, NPT, receiver_fields=("m_pre",), exempt=dict(EXEMPT, select_stmt=
                                     "handled by rule C11.r4 (works on copies of the state that are joined)"))
    if kinds is not None and len(kinds) < 33:
        ctx.fail("rule C11.r1: backward exec overrides found for %d statement kinds, expected 33" % len(kinds))


def r1b_table(ctx):
    ctx.rule("C11.r1b", "each statement kind is mapped to the reviewed backward operation / operand positions", floor=33)
    _stmts.exec_table_rule(ctx, "C11.r1b", "exec_backward", ABS, NPT, receiver_fields=("m_pre",))


def r2_asserts(ctx):
    ctx.rule("C11.r2", "assertions: error states join the NEGATED condition into the precondition; good states assume it", floor=8)
    infos = _stmts.statement_table(ctx.db)
    for fn in ctx.db.fns(ABS, cpk=NPT, name="exec"):
        info = _stmts.stmt_info_for(fn, infos)
        if info is None or info.name not in ("assert_stmt", "bool_assert_stmt"):
            continue
        body = fn["body"]
        g = paths.guards(body)
        d = local_decls(body)

        def good(c):
            return 1 if is_field(strip(c), "m_good_states", of_this=True) else 0
        sid = fn["params"][0]["id"]
        # (a) error branch
        joins = [n for n, ps in nodes_not_in_log(body, lambda x: x.get("k") == "call" and x.get("op") in ("|=", "&=", "=") and is_field(x.get("o"), "m_pre"))]
        err = [n for n in joins if guard_truth(g.get(id(n), ()), good, body) is False]
        if not err:
            ctx.bad("exec(%s&): no update of the precondition on the error-states path (!m_good_states)" % info.name, fn, body,
                    sig="assert-error-missing:%s" % info.name)
        for n in err:
            a = strip(n["a"][0])
            okj = n.get("op") == "|=" and isinstance(a, dict) and a.get("k") == "ref" and a.get("rk") == "local"
            if not okj:
                ctx.bad("exec(%s&): on the error path the precondition is updated with `%s`; expected `m_pre |= error` (join: any "
                        "failing assertion is an error)" % (info.name, src(n)), fn, n, sig="assert-error-join:%s" % info.name)
                continue
            ed = d.get(a["id"])
            top_init = ed is not None and "i" in ed and any(is_call(x, name="make_top") for x in walk(ed["i"]))
            # constraint applied to `error`
            cons = [x for x, ps in nodes_not_in_log(body, lambda y: y.get("k") == "call" and "o" in y and is_ref(y["o"]) and strip(y["o"]).get("id") == a["id"]
                                                     and callee(y) and callee(y)["name"] in ("operator+=", "assume_bool"))]
            negated = False
            for c in cons:
                if callee(c)["name"] == "operator+=":
                    negated = any(is_call(x, name="negate") for x in walk(c["a"][0]))
                else:
                    negated = len(c["a"]) == 2 and strip(c["a"][1]).get("v") == "true"
            if top_init and cons and negated:
                ctx.ok("exec(%s): error = top constrained with the negated condition; m_pre |= error" % info.name, fn, n)
            else:
                ctx.bad("exec(%s&): the error state must be make_top() constrained with the NEGATED assertion condition "
                        "(top=%s, constrained=%s, negated=%s)" % (info.name, top_init, bool(cons), negated), fn, n,
                        sig="assert-error-shape:%s" % info.name)
        # (b) good branch
        goodc = [n for n, ps in nodes_not_in_log(body, lambda x: x.get("k") == "call" and is_field(x.get("o"), "m_pre") and callee(x) and
                                                   callee(x)["name"] in ("operator+=", "assume_bool"))]
        goodc = [n for n in goodc if guard_truth(g.get(id(n), ()), good, body) is True]
        okg = False
        for n in goodc:
            if callee(n)["name"] == "operator+=":
                okg = not any(is_call(x, name="negate") for x in walk(n["a"][0]))
            else:
                okg = len(n["a"]) == 2 and strip(n["a"][1]).get("v") == "false"
        if okg:
            ctx.ok("exec(%s): good states assume the condition" % info.name, fn, goodc[0])
        else:
            ctx.bad("exec(%s&): on the good-states path the (un-negated) condition is not assumed" % info.name, fn, body,
                    sig="assert-good:%s" % info.name)


def r3_analyze(ctx):
    ctx.rule("C11.r3", "per-statement forward invariants recorded before the statement executes; backward pass walks rbegin..rend", floor=2)
    fs = ctx.db.fns(BWD, pk="crab::analyzer::necessary_preconditions_fixpoint_iterator::analyze")
    if not ctx.need(fs, "necessary_preconditions_fixpoint_iterator::analyze"):
        return
    for fn in fs:
        body = fn["body"]
        loops = [l for l in walk(body) if l.get("k") == "rangefor" and any(is_call(x, name="accept") for x in walk(l.get("b")))]
        if len(loops) != 2:
            ctx.undecided("expected a forward and a backward statement loop", fn, body)
            continue
        fl, bl = loops
        if not (any(is_call(x, name="begin") for x in walk(fl.get("r"))) and any(is_call(x, name="rbegin") for x in walk(bl.get("r")))):
            ctx.bad("analyze must rebuild invariants walking begin..end and compute preconditions walking rbegin..rend "
                    "(found `%s` / `%s`)" % (src(fl.get("r"))[:50], src(bl.get("r"))[:50]), fn, bl, sig="bwd-direction")
        else:
            ctx.ok("forward rebuild begin..end, backward pass rbegin..rend", fn, bl)
        ins = [n for n in walk(fl.get("b")) if is_call(n, name=("insert", "emplace"))]
        acc = [n for n in walk(fl.get("b")) if is_call(n, name="accept")]
        order = [x for x in walk(fl.get("b")) if (ins and x is ins[0]) or x is acc[0]]
        if ins and order[0] is ins[0]:
            ctx.ok("pp_invariants[&s] = F.get_abs_value() before s.accept(&F)", fn, ins[0])
        else:
            ctx.bad("the invariant recorded for a statement is taken AFTER executing it: the backward transformer would meet the "
                    "precondition with the statement's post-state", fn, acc[0], sig="bwd-pp-order")
        d = local_decls(body)
        inv = [x for x in d.values() if x.get("n") == "invariant" or ("i" in x and any(is_call(y, name="make_top") for y in walk(x["i"])))]
        if inv and any(is_call(y, name="make_top") for y in walk(inv[0].get("i"))):
            ctx.ok("block invariant defaults to top when the forward analysis has none", fn, inv[0])
        else:
            ctx.bad("the block's forward invariant does not default to top", fn, body, sig="bwd-default-top")


def r4_select(ctx):
    ctx.rule("C11.r4", "backward select: each branch operand is paired with its own branch condition; infeasible-branch shortcuts "
                       "take the OTHER branch; the general case joins both", floor=4)
    infos = _stmts.statement_table(ctx.db)
    for fn in ctx.db.fns(ABS, cpk=NPT, name="exec"):
        info = _stmts.stmt_info_for(fn, infos)
        if info is None or info.name != "select_stmt":
            continue
        body = fn["body"]
        sid = fn["params"][0]["id"]
        decls = local_decls(body)
        g = paths.guards(body)

        def acc_of(e):
            for x in walk(e):
                if x.get("k") == "call" and is_ref(x.get("o")) and strip(x["o"]).get("id") == sid and callee(x):
                    if callee(x)["name"] in ("left", "right", "cond"):
                        return callee(x)["name"]
            return None

        def state_key(o):
            o = deref(o)
            if isinstance(o, dict) and o.get("k") == "mem":
                return "field:" + o.get("n")
            if isinstance(o, dict) and o.get("k") == "ref":
                return "local:%s" % o.get("id")
            return None

        def cond_polarity(e):
            """+1: stmt.cond(), -1: stmt.cond().negate()"""
            if acc_of(e) != "cond":
                return 0
            return -1 if any(is_call(x, name="negate") for x in walk(e)) else 1
        # (a) pairing inside every statement sequence
        n_pairs = 0
        for seq in [x for x in walk(body) if x.get("k") == "seq"]:
            items = seq.get("b", [])
            for i, st in enumerate(items):
                if is_call(st, name="backward_assign") and len(st.get("a", [])) >= 2:
                    which = acc_of(st["a"][1])
                    sk = state_key(st.get("o"))
                    pol = 0
                    for nx in items[i + 1:]:
                        if nx.get("k") == "call" and nx.get("op") == "+=" and state_key(nx.get("o")) == sk:
                            pol = cond_polarity(nx["a"][0])
                            break
                    want = {"left": 1, "right": -1}.get(which, 0)
                    n_pairs += 1
                    if want != 0 and pol == want:
                        ctx.ok("select: %s operand paired with %s" % (which, "cond" if pol > 0 else "not cond"), fn, st)
                    else:
                        ctx.bad("backward select pulls the post-state back through the `%s` operand but then assumes %s: the operand "
                                "of one branch is combined with the condition of the other" %
                                (which, {1: "cond", -1: "cond.negate()", 0: "no branch condition"}[pol]), fn, st, sig="select-pairing:%s" % which)
                    # (b) shortcut guard: under V.is_bottom() with V = inv + cond^p the pair must be the other branch
                    for c, gp in g.get(id(st), ()):
                        if isinstance(c, tuple) or not gp:
                            continue
                        cc = strip(c)
                        if is_call(cc, name="is_bottom") and is_ref(cc.get("o")):
                            vid = strip(cc["o"]).get("id")
                            vpol = 0
                            for y in walk(body):
                                if y.get("k") == "call" and y.get("op") == "+=" and is_ref(y.get("o")) and strip(y["o"]).get("id") == vid:
                                    vpol = cond_polarity(y["a"][0])
                            if vpol != 0:
                                if want == -vpol:
                                    ctx.ok("select shortcut: branch with %s infeasible -> use the other branch" % ("cond" if vpol > 0 else "not cond"), fn, st)
                                else:
                                    ctx.bad("backward select: when the %s-branch is infeasible (`%s`) the precondition is computed "
                                            "through the `%s` operand - the operand of the infeasible branch" %
                                            ("then" if vpol > 0 else "else", src(cc), which), fn, st, sig="select-shortcut:%s" % which)
        if n_pairs < 4:
            ctx.bad("backward select must handle both operands in the general case and in both shortcuts (found %d backward_assign)" % n_pairs,
                    fn, body, sig="select-cases")
        asg = [n for n in walk(body) if n.get("k") == "call" and n.get("op") == "=" and is_field(n.get("o"), "m_pre")]
        if asg and is_call(strip_move(asg[-1]["a"][0]), op="|"):
            ctx.ok("m_pre = pre_then | pre_else", fn, asg[-1])
        else:
            ctx.bad("backward select must JOIN the preconditions of the two branches (found `%s`)" % (src(asg[-1]) if asg else "nothing"),
                    fn, body, sig="select-join")


INVERSE_Z = {"OP_ADDITION": {"OP_SUBTRACTION"}, "OP_SUBTRACTION": {"OP_ADDITION"}, "OP_MULTIPLICATION": {"OP_SDIV"},
             "OP_SDIV": set(), "OP_UDIV": set(), "OP_SREM": set(), "OP_UREM": set()}
INVERSE_Q = dict(INVERSE_Z, OP_SDIV={"OP_MULTIPLICATION"})


def _static_false(cond):
    """condition contains a conjunct that is the compile-time constant false
    (std::integral_constant<bool,false>::value / std::is_same<...>::value)"""
    c = strip(cond)
    if not isinstance(c, dict):
        return False
    if c.get("k") == "bin" and c.get("op") == "&&":
        return _static_false(c.get("L")) or _static_false(c.get("R"))
    if c.get("k") == "ref" and c.get("rk") == "global" and "integral_constant<bool, false>" in (c.get("qna") or ""):
        return True
    return False


def r7_inverse_table(ctx):
    ctx.rule("C11.r7", "generic backward arithmetic inverts only operations invertible over the number type; always meets with the invariant", floor=10)
    fs = [f for f in ctx.db.fns(BAO, name="apply") if (f.get("cpk") or "").endswith("BackwardAssignOps")]
    if not ctx.need(fs, "BackwardAssignOps::apply"):
        return
    for fn in fs:
        ps = fn["params"]
        with_const = "variable" not in (ps[4].get("TC") or "")
        numt = [x for x in walk(fn["body"]) if x.get("k") == "ref" and x.get("rk") == "global" and x.get("n") == "value" and
                "integral_constant<bool" in (x.get("qna") or "")]
        if with_const:
            isq = "q_number" in (ps[4].get("TC") or "")
        else:
            isq = "q_number" in (ps[2].get("TC") or "")
        table = INVERSE_Q if isq else INVERSE_Z
        sw = es.find_switch_on_param(fn, 1)
        if sw is None:
            ctx.undecided("BackwardAssignOps::apply is not a switch on the operation", fn, fn["body"])
            continue
        g = paths.guards(fn["body"])
        named = set()
        for labels, stmts in es.switch_cases(sw):
            inv_ops = set()
            forgets = False
            for s in stmts:
                for n in walk(s):
                    if is_call(n, name="apply") and is_param(n.get("o"), fn, 0):
                        feasible = not any((pol and _static_false(c)) for c, pol in g.get(id(n), ()) if not isinstance(c, tuple))
                        r = es.first_enum_ref(n["a"][0]) if n.get("a") else None
                        if feasible and r is not None:
                            inv_ops.add(r["n"])
                    if is_call(n, name="assign") and not ("o" in n):
                        # x := y + z / y - z through the general backward assignment
                        e = n["a"][2] if len(n.get("a", [])) > 2 else None
                        ops = [callee(x).get("op") for x in walk(e) if x.get("k") == "call" and callee(x) and callee(x).get("op") in ("+", "-")]
                        inv_ops.add("assign:" + "".join(ops))
                    if n.get("k") == "call" and n.get("op") == "-=" and is_param(n.get("o"), fn, 0):
                        forgets = True
            for lab in labels:
                labs = [lab] if lab != "default" else [x for x in INVERSE_Z if x not in named]
                for l2 in labs:
                    named.add(l2)
                    if with_const:
                        allowed = table.get(l2, set())
                        bad_ops = {o for o in inv_ops if not o.startswith("assign:")} - allowed
                        if bad_ops:
                            ctx.bad("backward `x := y %s k` over %s is computed by applying %s to the post-state; this is not an "
                                    "over-approximation of the pre-image (allowed: %s or forgetting x)" %
                                    (l2, "Q" if isq else "Z", sorted(bad_ops), sorted(allowed) or "nothing"), fn, stmts[0],
                                    sig="inverse:%s:%s" % ("q" if isq else "z", l2))
                        elif inv_ops or forgets:
                            ctx.ok("%s (%s): %s" % (l2, "Q" if isq else "Z", sorted(inv_ops) or "forget"), fn, stmts[0])
                        else:
                            ctx.bad("backward `x := y %s k` neither inverts nor forgets x" % l2, fn, stmts[0], sig="inverse-nothing:%s" % l2)
                    else:
                        want = {"OP_ADDITION": "assign:+", "OP_SUBTRACTION": "assign:-"}.get(l2)
                        got = {o for o in inv_ops if o.startswith("assign:")}
                        if want is not None and got == {want}:
                            ctx.ok("%s: backward assign of y %s z" % (l2, want[-1]), fn, stmts[0])
                        elif want is None and not got and forgets:
                            ctx.ok("%s: forget x" % l2, fn, stmts[0])
                        elif want is not None and not got and forgets:
                            ctx.ok("%s: forget x (sound, imprecise)" % l2, fn, stmts[0])
                        else:
                            ctx.bad("backward `x := y %s z` is handled with %s" % (l2, sorted(inv_ops)), fn, stmts[0], sig="inverse-var:%s" % l2)
        # meet with the invariant after the switch (or inside assign)
        meets = [n for n in walk(fn["body"]) if n.get("k") == "call" and n.get("op") in ("&", "&=") and any(is_param(x, fn, len(ps) - 1) for x in walk(n) if x.get("k") == "ref")]
        if meets or not with_const:
            ctx.ok("result met with the forward invariant", fn, meets[0] if meets else None)
        else:
            ctx.bad("BackwardAssignOps::apply no longer meets the result with the forward invariant", fn, fn["body"], sig="inverse-no-meet")
    for fn in [f for f in ctx.db.fns(BAO, name="assign") if (f.get("cpk") or "").endswith("BackwardAssignOps")]:
        body = fn["body"]

        def gen(n):
            if n.get("k") == "call" and n.get("op") == "+=" and is_param(n.get("o"), fn, 0):
                return ("constrained",)
            if n.get("k") == "call" and n.get("op") == "-=" and is_param(n.get("o"), fn, 0):
                return ("forgot",)
            return ()
        f = paths.must_events(body, gen)
        fg = [n for n in walk(body) if n.get("k") == "call" and n.get("op") == "-=" and is_param(n.get("o"), fn, 0)]
        rn = [n for n in walk(body) if is_call(n, name="rename") and is_param(n.get("o"), fn, 0)]
        okk = fg and all("constrained" in f.at.get(id(x), ()) for x in fg) and all("forgot" in f.at.get(id(x), ()) for x in rn)
        if okk:
            ctx.ok("assign: add x = e (with x renamed apart), forget x, rename back - in that order", fn, fg[0])
        else:
            ctx.bad("BackwardAssignOps::assign must add the constraint x = e before forgetting x (and rename x' back after)", fn, body, sig="bassign-order")
        meets = [n for n in walk(body) if n.get("k") == "call" and n.get("op") in ("&", "&=") and any(is_param(x, fn, 3) for x in walk(n) if x.get("k") == "ref")]
        if meets:
            ctx.ok("assign: result met with the forward invariant", fn, meets[0])
        else:
            ctx.bad("BackwardAssignOps::assign no longer meets the result with the forward invariant", fn, body, sig="bassign-no-meet")


def r8_mirror(ctx):
    ctx.rule("C11.r8", "reversed CFG views mirror successors/predecessors, begin/rbegin, entry/exit", floor=8)
    _cfgedges.mirror_rule(ctx, "C11.r8")


RULES = [r1_def_coverage, r1b_table, r2_asserts, r3_analyze, r4_select, r7_inverse_table, r8_mirror]


def r9_unvisited_successors(ctx):
    ctx.rule("C11.r9", "error mode: the backward iteration runs over the reversed CFG and visits only blocks that reach the exit; a block "
             "with a successor outside that set must treat the states flowing there as possibly erroneous (top), never as `no error`", floor=1)
    NP = "crab::analyzer::necessary_preconditions_fixpoint_iterator"
    fs = ctx.db.fns(BWD, pk=NP + "::analyze")
    if not ctx.need(fs, "necessary_preconditions_fixpoint_iterator::analyze"):
        return
    # the iteration graph: the base class must be built from cfg_rev<CFG>(cfg); anything else is another design
    ctors = [f for f in ctx.db.fns(BWD, cpk=NP) if f.get("ctor") == "other"]
    plain_rev = bool(ctors) and all(any(isinstance(strip(i.get("e")), dict) and "cfg_rev" in (json_T(i.get("e")) or "") for i in f.get("inits", []))
                                    for f in ctors)
    for fn in fs:
        body = fn["body"]
        if not plain_rev:
            ctx.undecided("the backward iterator is no longer built over cfg_rev<CFG>(cfg): how blocks that cannot reach the exit are "
                          "covered has to be re-read", fn, body)
            continue
        g = paths.guards(body)
        okn = None
        for n in walk(body):
            # precond = top  /  precond.set_to_top()  /  precond |= invariant ...
            weak = False
            if n.get("k") == "call" and n.get("op") == "=" and is_param(n.get("o"), fn, 1) and \
                    any(is_call(x, name=("make_top", "top")) for x in walk(n.get("a", [None])[0])):
                weak = True
            if is_call(n, name="set_to_top") and is_param(n.get("o"), fn, 1):
                weak = True
            if not weak:
                continue
            gs = [(c, p) for c, p in g.get(id(n), ())]
            in_succ_loop = any(isinstance(c, tuple) and any(is_call(x, name="next_nodes") and is_field(obj(x), "m_cfg") for x in walk(c[1]))
                               for c, p in gs if isinstance(c, tuple)) or \
                any(l.get("k") == "rangefor" and any(is_call(x, name="next_nodes") and is_field(obj(x), "m_cfg") for x in walk(l.get("r"))) and
                    any(x is n for x in walk(l.get("b"))) for l in walk(body))
            error_mode = any((not isinstance(c, tuple)) and any(is_field(x, "m_good_states") for x in walk(c)) for c, p in gs)
            if in_succ_loop and error_mode:
                okn = n
        if okn is not None:
            ctx.ok("analyze: precond := top when a successor of the block (original CFG) is not among the blocks reaching the exit", fn, okn)
        else:
            ctx.bad("necessary_preconditions_fixpoint_iterator::analyze never looks at the successors of the block in the ORIGINAL cfg: a "
                    "successor that cannot reach the exit is not visited by the iteration over cfg_rev and contributes `bottom` (no "
                    "error) to its predecessors, so an assertion that can fail there is ignored and the precondition at the entry can be "
                    "empty", fn, body, sig="unvisited-successors-ignored")


def json_T(e):
    e = strip(e)
    return (e.get("T") or "") + " " + " ".join((x.get("T") or "") + ((callee(x) or {}).get("qn") or "") for x in walk(e) if isinstance(x, dict))


RULES += [r9_unvisited_successors]


def r10_backward_kill(ctx):
    ctx.rule("C11.r10", "backward domain operations: the variable defined by the statement is overwritten or forgotten on every non-bottom "
             "path (a constraint of the postcondition on x must not survive as a constraint on the OLD value of x)", floor=30)
    from . import _domains as dm
    dm.lhs_kill_rule(ctx, "C11.r10", backward=True)


RULES += [r10_backward_kill]


def r11_backward_array_copies(ctx):
    from . import C14
    C14.r4b_offset_map_copies(ctx, rid="C11.r11", backward_only=True)


RULES += [r11_backward_array_copies]


def r12_cast_type_guard(ctx):
    ctx.rule("C11.r12", "backward exec(int_cast): the NUMERICAL backward_assign(dst, src) is reached only where neither operand is a "
             "Boolean (the numerical operation does not reach the Boolean component, so a Boolean destination would keep the value "
             "the postcondition requires); otherwise the destination is forgotten", floor=1)
    infos = _stmts.statement_table(ctx.db)
    n = 0
    for fn in ctx.db.fns(ABS, cpk=NPT, name="exec"):
        info = _stmts.stmt_info_for(fn, infos)
        if info is None or info.name != "int_cast_stmt":
            continue
        body = fn["body"]
        g = paths.guards(body)
        for c in walk(body):
            if not (is_call(c, name="backward_assign") and is_field(obj(c), "m_pre")):
                continue
            n += 1

            def atom_for(acc):
                def atom(x):
                    x = strip(x)
                    if is_call(x, name="is_bool") and any(is_call(y, name=acc) for y in walk(x.get("o"))):
                        return 1
                    return 0
                return atom
            gs = g.get(id(c), ())
            ok = all(guard_truth(gs, atom_for(acc), body) is False for acc in ("dst", "src"))
            if ok:
                ctx.ok("exec(int_cast): numerical backward_assign only for non-Boolean operands", fn, c)
            else:
                ctx.bad("intra_necessary_preconditions_abs_transformer::exec(int_cast_stmt&) applies the numerical backward_assign(dst, "
                        "src) without having excluded a Boolean operand: for b := trunc(x) the Boolean value of b required by the "
                        "postcondition (b is false at a failing assert(b)) stays as a constraint on the OLD b", fn, c,
                        sig="cast-backward-assign-unguarded")
    if n == 0:
        # no numerical backward assignment at all: the destination must then be forgotten (decided by C11.r1)
        ctx.ok("exec(int_cast): no numerical backward_assign", None, None)


def r13_dominance_root(ctx):
    ctx.rule("C11.r13", "forward-backward analyzer: assertions are discharged with dominance relative to the block the FORWARD pass "
             "starts at - the root given to dominator_tree() and the block looked up by discharge_assertions() are the `entry` "
             "argument handed to the forward analyzer, never m_cfg.entry() (a block before `entry` is bottom for the forward pass, "
             "dominates everything and would discharge every assertion)", floor=2)
    FBA = "crab::analyzer::intra_forward_backward_analyzer"
    fns = ctx.db.fns(BWD, cpk=FBA)
    if not ctx.need(fns, "intra_forward_backward_analyzer methods", "C11.r13"):
        return
    n = 0
    for fn in fns:
        body = fn["body"]
        fruns = [c for c in walk(body) if is_call(c, name="run") and c.get("o") is not None and not is_this(deref(c.get("o"))) and
                 len(c.get("a", [])) == 3]
        doms = [c for c in walk(body) if is_call(c, name="dominator_tree")]
        if doms:
            for dcall in doms:
                n += 1
                root = strip(dcall["a"][1]) if len(dcall.get("a", [])) > 1 else None
                starts = [strip(c["a"][0]) for c in fruns]
                if root is not None and starts and all(same_expr(root, s0) for s0 in starts):
                    ctx.ok("dominator tree rooted at the forward entry", fn, dcall)
                else:
                    ctx.bad("intra_forward_backward_analyzer::%s roots the dominator tree at `%s` while the forward pass starts at `%s`" %
                            (fn["name"], src(root) if root is not None else "?", ", ".join(src(s0) for s0 in starts) or "?"), fn, dcall,
                            sig="dominance-root-not-forward-entry")
        if fn["name"] == "discharge_assertions":
            n += 1
            uses = [c for c, ps in nodes_not_in_log(body, lambda x: is_call(x, name="entry") and is_field(obj(x), "m_cfg"))]
            if uses:
                ctx.bad("intra_forward_backward_analyzer::discharge_assertions looks at m_cfg.entry() instead of the block the forward "
                        "pass started at", fn, uses[0], sig="discharge-uses-cfg-entry")
            else:
                ctx.ok("discharge_assertions does not consult m_cfg.entry()", fn, body)
    if n == 0:
        ctx.fail("rule C11.r13: dominator_tree call / discharge_assertions not found")


def r14_rerun(ctx):
    ctx.rule("C11.r14", "necessary_preconditions_fixpoint_iterator: the tables that process_post() / run_backward() fill by INSERTION "
             "(which never overwrites) are cleared on every path before a run starts, so a second run does not report the "
             "preconditions (or use the forward invariants) of the first", floor=2)
    NP = "crab::analyzer::necessary_preconditions_fixpoint_iterator"
    fns = ctx.db.fns(BWD, cpk=NP)
    if not ctx.need(fns, "necessary_preconditions_fixpoint_iterator methods", "C11.r14"):
        return
    # tables filled by insert() (not operator[] / insert_or_assign)
    filled = {}
    for fn in fns:
        for c in walk(fn["body"]):
            if is_call(c, name="insert") and is_field(obj(c)) and is_this(deref(obj(c)).get("b")):
                filled.setdefault(deref(obj(c))["n"], []).append(fn["name"])
    clearers = {}
    for fn in fns:
        cl = {deref(obj(c))["n"] for c in walk(fn["body"]) if is_call(c, name="clear") and is_field(obj(c)) and is_this(deref(obj(c)).get("b"))}
        if cl and not fn.get("params"):
            clearers[fn["name"]] = cl
    n = 0
    for fn in fns:
        if fn["name"] != "run_backward":
            continue
        body = fn["body"]

        def gen(x):
            out = []
            if x.get("k") == "call" and callee(x):
                nm = callee(x)["name"]
                if nm == "clear" and is_field(obj(x)) and is_this(deref(obj(x)).get("b")):
                    out.append("clear:" + deref(obj(x))["n"])
                if (x.get("o") is None or is_this(deref(x.get("o")))) and nm in clearers:
                    out.extend("clear:" + t for t in clearers[nm])
            return out
        try:
            fl = paths.MustEvents(gen)
            fl.run(body)
        except paths.Unstructured:
            ctx.skipped("C11.r14|%s" % fn["psig"], rid="C11.r14")
            continue
        # the run itself: the base class' run(), or delegation to another overload (which is checked on its own)
        starts = [c for c in walk(body) if is_call(c, name=("run", "run_backward")) and (c.get("o") is None or is_this(deref(c.get("o"))))]
        fills = [c for c in walk(body) if is_call(c, name="insert") and is_field(obj(c)) and is_this(deref(obj(c)).get("b"))]
        for c in starts + fills:
            n += 1
            st = fl.at.get(id(c)) or frozenset()
            if is_call(c, name="run_backward"):
                need = []            # the callee overload clears
            elif is_call(c, name="run"):
                need = sorted(filled)
            else:
                need = [deref(obj(c))["n"]]
            miss = [t for t in need if ("clear:" + t) not in st]
            if miss:
                ctx.bad("necessary_preconditions_fixpoint_iterator::run_backward reaches `%s` without having cleared %s: these tables "
                        "are filled with insert(), which keeps the entries of a previous run, so the second run_backward() on the "
                        "same object returns the first run's preconditions" % (src(c)[:50], ", ".join(miss)), fn, c,
                        sig="rerun-stale:%s" % ",".join(miss))
            else:
                ctx.ok("run_backward: tables reset before `%s`" % src(c)[:30], fn, c)
    if n == 0:
        ctx.fail("rule C11.r14: run_backward not found")


def r15_backward_array_stores(ctx):
    from . import C14
    C14.r9_backward_stores(ctx, rid="C11.r15")


RULES += [r12_cast_type_guard, r13_dominance_root, r14_rerun, r15_backward_array_stores]
