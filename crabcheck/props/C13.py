"""C13 - fixed-width integers and wrapped intervals follow modular arithmetic."""
from ..tree import (walk, walk_with_parents, strip, is_call, is_ref, is_this, is_field, deref, same_expr,
                    src, obj, args, callee)
from .. import paths
from ..match import (strip_move, is_param, rets, nodes_not_in_log, resolve_local, local_decls, writes_to, cmp_parts,
                     guard_truth, atom_truth)
from . import _lattice

LEVEL_TEXT = ("Clause-level static rules for the representation invariant of wrapint (0 <= _n < 2^width): a range-closure typing of "
              "every uint64_t expression that reaches the stored value - `_n`, x & y, IN|IN, IN^IN, IN>>k, IN/k, IN%k and e % _mod "
              "stay in range, + - * << and unary minus leave it unless the width is 64 - decides that every argument of the "
              "non-reducing private constructor and the value of _n at the exit of every mutating member is in range; every shift "
              "in wrapint.cpp has a 64-bit left operand; binary operators check the widths first and divisions test for zero; "
              "wrapped_interval arithmetic is applied to operands split at the poles, with divisors trimmed of zero; lattice "
              "operators answer the bottom/top cases correctly. The pole arithmetic itself (overflow tests, Trunc) is NOT decided."
              " The cached modulus of a wrapint is only passed on with the width of the same object; the inclusion test of wrapped intervals is interpreted over the full width-3 model; the wrapped-interval domain runs the linear solver on constraints without an overflow test of the residuals (known finding F92).")
ASSUMPTIONS = ["operands of binary wrapint operations have equal width (checked at run time by sanity_check_bitwidths)",
               "shift amounts are smaller than the width (as in LLVM, larger shifts are undefined)"]

WI = "lib/wrapint.cpp"
W = "crab::wrapint"

IN, OUT = "IN", "OUT"


class RangeTyper:
    """range-closure typing of uint64_t expressions inside one wrapint member"""

    def __init__(self, fn, w64=False):
        self.fn = fn
        self.body = fn["body"]
        self.decls = local_decls(self.body)
        self.w64 = w64
        self.n_state = IN            # current abstract value of this->_n

    def is_n(self, e):
        e = strip(e)
        return isinstance(e, dict) and e.get("k") == "mem" and e.get("n") == "_n" and "fn" not in e

    def width_test(self, c):
        """+1 if c means width==64, -1 if it means width<64, 0 otherwise"""
        p = cmp_parts(c)
        if not p:
            return 0
        op, l, r = p
        def isw(x):
            return isinstance(x, dict) and ((x.get("k") == "mem" and x.get("n") == "_width") or
                                            (x.get("k") == "ref" and x.get("n") in ("new_width", "w", "width")))
        def is64(x):
            return isinstance(x, dict) and x.get("k") == "lit" and x.get("v") == "64"
        if isw(l) and is64(r):
            return {"==": 1, ">=": 1, "<": -1, "!=": -1}.get(op, 0)
        if is64(l) and isw(r):
            return {"==": 1, "<=": 1, ">": -1, "!=": -1}.get(op, 0)
        return 0

    def is_one(self, e):
        e = strip(e)
        return isinstance(e, dict) and e.get("k") == "lit" and e.get("v") == "1"

    def is_width(self, e):
        e = strip(e)
        return isinstance(e, dict) and ((e.get("k") == "mem" and e.get("n") == "_width" and is_this(e.get("b"))))

    def ty(self, e, w64=None, depth=0):
        w64 = self.w64 if w64 is None else w64
        e = strip(e)
        if not isinstance(e, dict) or depth > 30:
            return OUT
        if w64:
            return IN            # wrap-around of uint64_t arithmetic IS reduction modulo 2^64
        k = e.get("k")
        if k == "mem":
            if e.get("n") == "_n":
                return self.n_state if is_this(e.get("b")) else IN
            return OUT
        if k == "lit":
            return IN if e.get("v") == "0" else OUT
        if k == "ref":
            if e.get("rk") == "local":
                d = self.decls.get(e.get("id"))
                if d is not None and "i" in d and not writes_to(self.body, e["id"]):
                    return self.ty(d["i"], w64, depth + 1)
            return OUT
        if k == "cond":
            wt = self.width_test(e.get("c"))
            if wt == 1:
                return self.ty(e.get("e"), w64, depth + 1)     # true branch is the 64-bit case
            if wt == -1:
                return self.ty(e.get("t"), w64, depth + 1)
            a, b = self.ty(e.get("t"), w64, depth + 1), self.ty(e.get("e"), w64, depth + 1)
            return IN if a == IN and b == IN else OUT
        if k == "bin":
            op = e.get("op")
            l, r = e.get("L"), e.get("R")
            if op == "-" and self.is_one(r):
                # (1 << width) - 1  and  _mod - 1 : the all-ones mask, the largest in-range value
                ll = strip(l)
                if isinstance(ll, dict) and ll.get("k") == "mem" and ll.get("n") == "_mod":
                    return IN
                if isinstance(ll, dict) and ll.get("k") == "bin" and ll.get("op") == "<<" and self.is_one(ll.get("L")) and self.is_width(ll.get("R")):
                    return IN
            if op == "%" and isinstance(strip(r), dict) and strip(r).get("k") == "mem" and strip(r).get("n") == "_mod":
                return IN
            tl = self.ty(l, w64, depth + 1)
            tr = self.ty(r, w64, depth + 1)
            if op == "&":
                return IN if (tl == IN or tr == IN) else OUT
            if op in ("|", "^"):
                return IN if (tl == IN and tr == IN) else OUT
            if op in (">>", "/", "%"):
                return tl
            return OUT
        if k == "un":
            return OUT
        return OUT


def r1_range_closure(ctx):
    ctx.rule("C13.r1", "wrapint: every value stored in _n is reduced modulo 2^width (range-closure typing)", floor=20)
    fs = ctx.db.fns(WI, cpk=W)
    if not ctx.need(fs, "wrapint members in lib/wrapint.cpp"):
        return
    priv = [f for f in fs if f.get("ctor") == "other" and len(f.get("params", [])) == 3]
    if not priv:
        ctx.fail("rule C13.r1: the non-reducing private constructor wrapint(n, width, mod) was not found")
    for fn in fs:
        body = fn["body"]
        t = RangeTyper(fn)
        g = paths.guards(body)
        # (a) arguments of the private non-reducing constructor
        for n, ps in nodes_not_in_log(body, lambda x: x.get("k") == "ctor" and callee(x) and callee(x).get("cpk") == W and
                                      callee(x).get("ctor") == "other" and len(x.get("a", [])) == 3):
            a0 = n["a"][0]
            # width refinement from enclosing guards
            w64 = False
            for cond, pol in g.get(id(n), ()):
                if isinstance(cond, tuple):
                    continue
                wt = t.width_test(cond)
                if (wt == 1 and pol) or (wt == -1 and not pol):
                    w64 = True
            ty = t.ty(a0, w64)
            if ty == IN:
                ctx.ok("%s: `%s` is in range" % (fn["name"], src(a0)[:60]), fn, n)
            else:
                ctx.bad("wrapint::%s passes `%s` to the non-reducing constructor wrapint(n, width, mod) although the expression can "
                        "exceed 2^width - 1 when width < 64 (it contains + - * << or an unreduced local): the stored value breaks "
                        "0 <= _n < 2^width, so ==, <, hashing and every later operation misbehave" % (fn["name"], src(resolve_local(body, a0))[:90]),
                        fn, n, sig="unreduced-ctor-arg:%s" % fn["name"])
        # (b) value of _n at the exit of mutating members / public constructors
        is_ctor = fn.get("ctor") == "other" and len(fn.get("params", [])) != 3
        if fn.get("const") or fn.get("static") or (fn.get("ctor") and not is_ctor) or fn.get("dtor"):
            continue
        writes = [n for n in walk(body) if (n.get("k") == "asg" and t.is_n(n.get("L"))) or
                  (n.get("k") == "un" and t.is_n(n.get("e")) and n.get("op", "")[-2:] in ("++", "--")) or
                  (n.get("k") == "call" and n.get("op") == ">>" and any(t.is_n(a) for a in n.get("a", [])))]
        if not writes and not is_ctor:
            continue

        class F(paths.Flow):
            def __init__(s):
                paths.Flow.__init__(s)

            def initial(s):
                init = IN
                if is_ctor:
                    init = OUT
                    for i in fn.get("inits", []):
                        if i.get("field") == "_n":
                            e = strip(i.get("e"))
                            init = IN if (isinstance(e, dict) and e.get("k") == "lit" and e.get("v") == "0") else OUT
                return (init, False)

            def join(s, a, b):
                # in the 64-bit world everything is in range
                sa = IN if (a[0] == IN or a[1]) else OUT
                sb = IN if (b[0] == IN or b[1]) else OUT
                return (IN if sa == IN and sb == IN else OUT, a[1] and b[1])

            def transfer(s, n, st):
                k = n.get("k")
                if k == "asg" and t.is_n(n.get("L")):
                    t.n_state = st[0]
                    if n.get("op") == "=":
                        ty = t.ty(n.get("R"), st[1])
                    else:
                        ty = IN if st[1] else OUT
                        if n.get("op") in ("&=", ">>=", "/=", "%="):
                            ty = st[0] if not st[1] else IN
                    return (ty, st[1])
                if k == "un" and t.is_n(n.get("e")) and n.get("op", "")[-2:] in ("++", "--"):
                    return (IN if st[1] else OUT, st[1])
                if k == "call" and n.get("op") == ">>" and any(t.is_n(a) for a in n.get("a", [])):
                    return (IN if st[1] else OUT, st[1])       # iss >> _n
                return st

            def refine(s, cond, st, pol):
                wt = t.width_test(cond)
                if wt == 0:
                    return st
                is64 = (wt == 1) == pol
                return (st[0], is64)
        f = F()
        try:
            f.run(body)
        except paths.Unstructured as e:
            ctx.undecided("wrapint::%s: %s" % (fn["name"], e), fn, body)
            continue
        bad_exit = [(r, st) for r, st in f.returns if not (st[0] == IN or st[1])]
        if not bad_exit:
            ctx.ok("wrapint::%s leaves _n reduced on every exit" % fn["name"], fn, None)
        else:
            r = bad_exit[0][0]
            ctx.bad("wrapint::%s can return with _n not reduced modulo 2^width (a write of _n through + - * << / input is not "
                    "followed by `_n = _n %% _mod` on the width < 64 path)" % fn["name"], fn, r if r is not None else body,
                    sig="unreduced-exit:%s(%s)" % (fn["name"], fn["psig"]))


def r2_shifts(ctx):
    ctx.rule("C13.r2", "every << in wrapint.cpp has a 64-bit left operand; public constructors check the width and compute the modulus first", floor=10)
    for fn in ctx.db.fns(WI, cpk=W):
        for n, ps in nodes_not_in_log(fn["body"], lambda x: x.get("k") == "bin" and x.get("op") == "<<"):
            lt = n.get("LTC") or n.get("LT") or ""
            if "long" in lt:
                ctx.ok("%s: `%s` shifts a 64-bit value" % (fn["name"], src(n)[:50]), fn, n)
            else:
                ctx.bad("wrapint::%s shifts a %s value (`%s`): for widths above 31 the shift overflows int before it is widened" %
                        (fn["name"], lt or "non-64-bit", src(n)[:60]), fn, n, sig="narrow-shift:%s" % fn["name"])
        if fn.get("ctor") == "other" and len(fn.get("params", [])) == 2:
            body = fn["body"]

            def gen(n):
                if is_call(n, name="sanity_check_bitwidth"):
                    return ("checked",)
                if is_call(n, name="compute_mod"):
                    return ("mod",)
                return ()
            f = paths.must_events(body, gen)
            uses = [n for n in walk(body) if n.get("k") == "mem" and n.get("n") == "_mod"]
            okk = all("mod" in f.at.get(id(u), ()) and "checked" in f.at.get(id(u), ()) for u in uses)
            if not uses:
                # 64-bit-only paths need no modulus but the width must still be checked
                okk = all("checked" in st for _, st in f.returns)
            if okk:
                ctx.ok("wrapint(%s): sanity_check_bitwidth(); compute_mod(); before _mod is used" % fn["psig"], fn, None)
            else:
                ctx.bad("constructor wrapint(%s) uses _mod before sanity_check_bitwidth()/compute_mod() ran" % fn["psig"], fn, body,
                        sig="ctor-mod-order:%s" % fn["psig"])


BINOPS = {"operator+", "operator-", "operator*", "sdiv", "udiv", "srem", "urem", "operator+=", "operator-=", "operator*=",
          "operator==", "operator!=", "operator<", "operator<=", "operator>", "operator>=", "operator&", "operator|", "operator^",
          "operator<<", "lshr", "ashr"}
DIVS = {"sdiv", "udiv", "srem", "urem"}


def r3_checks(ctx):
    ctx.rule("C13.r3", "binary wrapint operators compare widths first; divisions test the divisor for zero", floor=20)
    for fn in ctx.db.fns(WI, cpk=W):
        if fn["name"] not in BINOPS or len(fn.get("params", [])) != 1 or "wrapint" not in fn["params"][0]["T"]:
            continue
        body = fn["body"]

        def gen(n):
            if is_call(n, name="sanity_check_bitwidths") and n.get("a") and is_param(n["a"][0], fn, 0):
                return ("widths",)
            return ()
        f = paths.must_events(body, gen)
        uses = [n for n in walk(body) if n.get("k") == "mem" and n.get("n") == "_n" and is_param(n.get("b"), fn, 0)] + \
               [n for n in walk(body) if is_call(n, name=("get_signed_bignum", "get_unsigned_bignum")) and is_param(n.get("o"), fn, 0)]
        if uses and all("widths" in f.at.get(id(u), ()) for u in uses):
            ctx.ok("%s: sanity_check_bitwidths(x) before x is used" % fn["name"], fn, uses[0])
        elif uses:
            ctx.bad("wrapint::%s uses its operand before sanity_check_bitwidths(x): operands of different widths are combined silently"
                    % fn["name"], fn, uses[0], sig="no-width-check:%s" % fn["name"])
        if fn["name"] in DIVS:
            g = paths.guards(body)

            def zero(c):
                c = strip(c)
                if is_call(c, name="is_zero") and is_param(obj(c), fn, 0):
                    return 1
                return 0
            divs = [n for n in walk(body) if (n.get("k") == "bin" and n.get("op") in ("/", "%") and
                                              not (isinstance(strip(n.get("R")), dict) and strip(n["R"]).get("n") == "_mod")) or
                    (n.get("k") == "call" and n.get("op") in ("/", "%"))]
            if divs and all(guard_truth(g.get(id(d), ()), zero, body) is False for d in divs):
                ctx.ok("%s: divisor tested for zero" % fn["name"], fn, divs[0])
            else:
                ctx.bad("wrapint::%s divides without the x.is_zero() test" % fn["name"], fn, body, sig="no-zero-test:%s" % fn["name"])


def r5_prologues(ctx):
    ctx.rule("C13.r5", "wrapped_interval lattice operators answer the bottom/top cases correctly", floor=10)
    _lattice.prologue_rule(ctx, "C13.r5", files=["include/crab/domains/wrapped_interval_impl.hpp", "lib/wrapped_interval.cpp",
                                                  "include/crab/domains/wrapped_interval_domain.hpp"])


RULES = [r1_range_closure, r2_shifts, r3_checks, r5_prologues]


WII = "include/crab/domains/wrapped_interval_impl.hpp"
WIC = "crab::domains::wrapped_interval"
SPLITS = ("signed_split", "unsigned_split", "signed_and_unsigned_split")
KERNELS = {"operator*": ("reduced_signed_unsigned_mul", "signed_mul", "unsigned_mul"),
           "SDiv": ("signed_div",), "UDiv": ("unsigned_div",)}


def _pole_ok(kernel, split_kinds):
    """unsigned kernels need a cut at the unsigned wrap-around point, signed kernels at the signed one; the product kernel
    reduced_signed_unsigned_mul needs both"""
    if not split_kinds:
        return False
    cut_u = all(k in ("unsigned_split", "signed_and_unsigned_split") for k in split_kinds)
    cut_s = all(k in ("signed_split", "signed_and_unsigned_split") for k in split_kinds)
    if kernel.startswith("unsigned"):
        return cut_u
    if kernel.startswith("signed"):
        return cut_s
    return cut_u and cut_s


def _vec_of_index(e, body, decls):
    """v[i] -> id of v (through one local copy `T d = v[k];`)"""
    e = resolve_local(body, e, decls)
    e = strip(e)
    if isinstance(e, dict) and e.get("k") == "call" and e.get("op") == "[]" and is_ref(e.get("o")):
        return strip(e["o"]).get("id")
    if isinstance(e, dict) and e.get("k") == "idx" and is_ref(e.get("b")):
        return strip(e["b"]).get("id")
    return None


def r4_split_first(ctx):
    ctx.rule("C13.r4", "wrapped_interval *, SDiv, UDiv: pole-free kernels only on pieces split at the poles; divisors trimmed of zero; joined from bottom", floor=3)
    for name, kernels in KERNELS.items():
        fs = ctx.db.fns(WII, pk=WIC + "::" + name)
        if not ctx.need(fs, "wrapped_interval::" + name):
            continue
        for fn in fs:
            body = fn["body"]
            decls = local_decls(body)
            tags = {}
            kinds = {}
            for n in walk(body):
                if is_call(n, name=SPLITS) and n.get("a") and is_ref(n["a"][0]):
                    vid = strip(n["a"][0]).get("id")
                    kinds.setdefault(vid, set()).add(callee(n)["name"])
                    if is_this(n.get("o")):
                        tags[vid] = "this-split"
                    elif is_param(n.get("o"), fn, 0):
                        tags[vid] = "x-split"
            for n in walk(body):
                if is_call(n, name="trim_zero") and n.get("a") and is_ref(n["a"][0]):
                    src_vec = _vec_of_index(n.get("o"), body, decls)
                    if tags.get(src_vec) == "x-split":
                        tags[strip(n["a"][0]).get("id")] = "x-trim"
                        kinds[strip(n["a"][0]).get("id")] = kinds.get(src_vec, set())
            ks = [n for n, ps in nodes_not_in_log(body, lambda x: is_call(x, name=kernels))]
            if not ks:
                ctx.bad("wrapped_interval::%s no longer computes through %s" % (name, "/".join(kernels)), fn, body, sig="wi-no-kernel:%s" % name)
                continue
            good = True
            for k in ks:
                rv = tags.get(_vec_of_index(k.get("o"), body, decls))
                av = tags.get(_vec_of_index(k["a"][0], body, decls)) if k.get("a") else None
                need_arg = "x-trim" if name in ("SDiv", "UDiv") else "x-split"
                if rv != "this-split":
                    ctx.bad("wrapped_interval::%s applies %s to `%s`, which is not a piece of *this split at the poles: the kernel "
                            "assumes its operand does not cross the signed/unsigned wrap-around points" % (name, callee(k)["name"], src(k.get("o"))[:40]),
                            fn, k, sig="wi-unsplit-receiver:%s" % name)
                    good = False
                elif not _pole_ok(callee(k)["name"], kinds.get(_vec_of_index(k.get("o"), body, decls), set())) or \
                        (k.get("a") and not _pole_ok(callee(k)["name"], kinds.get(_vec_of_index(k["a"][0], body, decls), set()))):
                    which = "unsigned wrap-around point 1..1|0..0 (unsigned_split)" if callee(k)["name"].startswith("unsigned") else \
                        "signed wrap-around point 01..1|10..0 (signed_split)"
                    ctx.bad("wrapped_interval::%s applies %s to pieces produced by %s: this kernel is monotone only on operands that do not "
                            "cross the %s" % (name, callee(k)["name"],
                                              "/".join(sorted(kinds.get(_vec_of_index(k.get("o"), body, decls), set()) |
                                                              kinds.get(_vec_of_index(k["a"][0], body, decls) if k.get("a") else None, set()))),
                                              which), fn, k, sig="wi-wrong-pole:%s:%s" % (name, callee(k)["name"]))
                    good = False
                elif av != need_arg:
                    ctx.bad("wrapped_interval::%s passes `%s` to %s; expected a piece of the argument %s" %
                            (name, src(k["a"][0])[:40], callee(k)["name"],
                             "split at the poles and trimmed of zero" if need_arg == "x-trim" else "split at the poles"),
                            fn, k, sig="wi-unsplit-arg:%s" % name)
                    good = False
            # accumulation from bottom with |
            accs = [d for d in decls.values() if "i" in d and is_call(strip_move(d["i"]), name="bottom") and d.get("n") == "res"]
            joins = [n for n in walk(body) if n.get("k") == "call" and n.get("op") == "=" and is_ref(n.get("o")) and
                     accs and strip(n["o"]).get("id") == accs[0]["id"]]
            okj = accs and joins and all(is_call(strip_move(j["a"][0]), op="|") for j in joins)
            if not okj:
                ctx.bad("wrapped_interval::%s must accumulate the piecewise results with `res = res | piece` starting from bottom" % name,
                        fn, body, sig="wi-accumulate:%s" % name)
                good = False
            if good:
                ctx.ok("%s: %s on split pieces, joined from bottom" % (name, "/".join(kernels)), fn, ks[0])


RULES.append(r4_split_first)


# ------------------------------------------------------------------ Trunc case split
def _eval3(c, val):
    """three-valued evaluation of a condition; val(node) gives True/False for decided atoms, None otherwise"""
    c = strip(c)
    if not isinstance(c, dict):
        return None
    v = val(c)
    if v is not None:
        return v
    k = c.get("k")
    if (k == "un" and c.get("op") == "!"):
        r = _eval3(c.get("e"), val)
        return None if r is None else (not r)
    if k == "call" and c.get("op") == "!" and "o" in c and not c.get("a"):
        r = _eval3(c.get("o"), val)
        return None if r is None else (not r)
    if k == "bin" and c.get("op") in ("&&", "||"):
        a, b = _eval3(c.get("L"), val), _eval3(c.get("R"), val)
        if c["op"] == "&&":
            if a is False or b is False:
                return False
            return True if (a is True and b is True) else None
        if a is True or b is True:
            return True
        return False if (a is False and b is False) else None
    return None


REL = {"<": {"lt"}, "<=": {"lt", "eq"}, "==": {"eq"}, "!=": {"lt", "gt"}, ">": {"gt"}, ">=": {"gt", "eq"}}
FLIP = {"lt": "gt", "gt": "lt", "eq": "eq"}


def r6_trunc_cases(ctx):
    ctx.rule("C13.r6", "wrapped_interval::Trunc keeps [lo(start), lo(end)] only when it is the image of the interval: same upper bits "
             "needs lo(start) <= lo(end); upper bits differing by one needs lo(start) > lo(end) STRICTLY (with equality the interval has "
             "2^k+1 values and covers every residue); every other case answers top", floor=2)
    fs = ctx.db.fns(WII, pk=WIC + "::Trunc")
    if not ctx.need(fs, "wrapped_interval::Trunc"):
        return
    for fn in fs:
        body = fn["body"]
        d = local_decls(body)
        g = paths.guards(body)

        def lower_of(e):
            """'start' / 'end' when e is a local initialised with m_start.keep_lower(..) / m_end.keep_lower(..)"""
            r = resolve_local(body, e, d)
            if is_call(r, name="keep_lower"):
                o = deref(r.get("o"))
                if isinstance(o, dict) and o.get("k") == "mem" and is_this(o.get("b")):
                    return {"m_start": "start", "m_end": "end"}.get(o.get("n"))
            return None

        def upper_of(e):
            r = resolve_local(body, e, d)
            if is_call(r, name="ashr"):
                o = deref(r.get("o"))
                if isinstance(o, dict) and o.get("k") == "mem" and is_this(o.get("b")):
                    return {"m_start": "start", "m_end": "end"}.get(o.get("n"))
            return None

        def incremented(e):
            """local copy of upper(start) that is ++'ed"""
            e = strip(e)
            if isinstance(e, dict) and e.get("k") == "ref" and e.get("rk") == "local":
                dd = d.get(e.get("id")) or {}
                init_up = any(upper_of(x) == "start" for x in walk(dd.get("i")) if isinstance(x, dict))
                inc = [w for w in writes_to(body, e.get("id"))]
                inc2 = [n for n in walk(body) if n.get("k") == "call" and n.get("op") == "++" and is_ref(n.get("o") or (n.get("a") or [None])[0]) and
                        strip(n.get("o") or n["a"][0]).get("id") == e.get("id")]
                return init_up and (len(inc) + len(inc2)) == 1
            return False
        n_dec = 0
        for r in rets(body):
            v = strip_move(r.get("v"))
            while isinstance(v, dict) and v.get("k") == "ctor" and v.get("cp") and v.get("a"):
                v = strip_move(v["a"][0])
            if not (isinstance(v, dict) and v.get("k") == "ctor" and len(v.get("a", [])) == 2):
                continue
            if not (lower_of(v["a"][0]) == "start" and lower_of(v["a"][1]) == "end"):
                continue
            gs = [(c, p) for c, p in g.get(id(r), ()) if not isinstance(c, tuple)]
            # which case?
            case = None
            for c, p in gs:
                pp = cmp_parts(c)
                if pp and pp[0] == "==":
                    ia, ib = incremented(pp[1]), incremented(pp[2])
                    ua, ub = (None if ia else upper_of(pp[1])), (None if ib else upper_of(pp[2]))
                    if {ua, ub} == {"start", "end"} and p:
                        case = "same"
                    elif p and ((ia and ub == "end") or (ib and ua == "end")):
                        case = "carry"
            if case is None:
                ctx.undecided("Trunc returns [lo(start), lo(end)] under guards that are neither the same-upper-bits nor the carry case",
                              fn, r)
                continue
            allowed = {"same": {"lt", "eq"}, "carry": {"gt"}}[case]
            reach = set()
            for o in ("lt", "eq", "gt"):
                def val(c, o=o):
                    pp = cmp_parts(c)
                    if pp and pp[0] in REL:
                        a, b = lower_of(pp[1]), lower_of(pp[2])
                        if a == "start" and b == "end":
                            return o in REL[pp[0]]
                        if a == "end" and b == "start":
                            return FLIP[o] in REL[pp[0]]
                    return None
                if all(_eval3(c, val) is not (not p) for c, p in gs):
                    reach.add(o)
            n_dec += 1
            extra = reach - allowed
            if extra:
                ctx.bad("wrapped_interval::Trunc, %s case: [lo(start), lo(end)] is returned also when lo(start) %s lo(end); then the "
                        "truncated values are not all inside it (%s)" %
                        ("same-upper-bits" if case == "same" else "upper-bits-differ-by-one",
                         " / ".join({"lt": "<", "eq": "==", "gt": ">"}[x] for x in sorted(extra)),
                         "with equal lower bits the interval has 2^k+1 elements and covers every k-bit value: the answer must be top"
                         if case == "carry" else "the interval wraps around the whole ring"),
                        fn, r, sig="trunc-case:%s:%s" % (case, ",".join(sorted(extra))))
            else:
                ctx.ok("Trunc %s case guarded by lo(start) %s lo(end)" % (case, "/".join(sorted(reach))), fn, r)
        if n_dec == 0:
            ctx.fail("rule C13.r6: no [lo(start), lo(end)] result found in Trunc")


RULES += [r6_trunc_cases]


# ------------------------------------------------------------------ hemisphere typing of the signed kernels
def _bound_of(e, fn):
    """'a' / 'b' / 'c' / 'd' for m_start, m_end, x.m_start, x.m_end"""
    o = deref(e)
    if isinstance(o, dict) and o.get("k") == "mem" and o.get("n") in ("m_start", "m_end"):
        base = o.get("b")
        if is_this(base):
            return {"m_start": "a", "m_end": "b"}[o["n"]]
        if is_param(base, fn, 0):
            return {"m_start": "c", "m_end": "d"}[o["n"]]
    return None


def r7_signed_magnitudes(ctx):
    ctx.rule("C13.r7", "wrapped_interval::signed_mul: an overflow test reached with a bound in the negative hemisphere (msb set) measures "
             "that bound with get_signed_bignum, not with its unsigned magnitude (hemisphere typing over the 16 msb assignments)", floor=4)
    fs = ctx.db.fns(WII, pk=WIC + "::signed_mul")
    if not ctx.need(fs, "wrapped_interval::signed_mul"):
        return
    import itertools
    for fn in fs:
        body = fn["body"]
        d = local_decls(body)
        g = paths.guards(body)
        msb_local = {}
        for dd in d.values():
            i = dd.get("i")
            r = strip(i) if i is not None else None
            if is_call(r, name="msb") and _bound_of(r.get("o"), fn):
                if not writes_to(body, dd["id"]):
                    msb_local[dd["id"]] = _bound_of(r.get("o"), fn)
        sites = [n for n in walk(body) if is_call(n, name=("get_unsigned_bignum", "get_signed_bignum")) and _bound_of(n.get("o"), fn)]
        if not sites:
            ctx.fail("rule C13.r7: no magnitude extraction found in signed_mul")
            continue
        for n in sites:
            bnd = _bound_of(n.get("o"), fn)
            gs = [(c, p) for c, p in g.get(id(n), ()) if not isinstance(c, tuple)]
            reach_neg = None
            for vals in itertools.product((False, True), repeat=4):
                env = dict(zip("abcd", vals))

                def bval(e):
                    e = strip(e)
                    if isinstance(e, dict) and e.get("k") == "ref" and e.get("id") in msb_local:
                        return env[msb_local[e["id"]]]
                    if is_call(e, name="msb") and _bound_of(e.get("o"), fn):
                        return env[_bound_of(e.get("o"), fn)]
                    return None

                def val(c):
                    b = bval(c)
                    if b is not None:
                        return b
                    if c.get("k") == "bin" and c.get("op") in ("==", "!="):
                        l, r = _eval3(c.get("L"), val), _eval3(c.get("R"), val)
                        if l is not None and r is not None:
                            return (l == r) if c["op"] == "==" else (l != r)
                    return None
                if all(_eval3(c, val) is not (not p) for c, p in gs) and env[bnd]:
                    reach_neg = env
                    break
            nm = callee(n)["name"]
            if nm == "get_unsigned_bignum" and reach_neg is not None:
                ctx.bad("signed_mul takes the UNSIGNED magnitude of `%s` in an overflow test that is reached when that bound is negative "
                        "(msb set; e.g. msb(start,end,x.start,x.end) = %s): the difference of products is then meaningless (often negative), "
                        "the test passes, and a product range wider than 2^w is returned as if it did not wrap" %
                        (src(n.get("o")), tuple(int(reach_neg[k]) for k in "abcd")), fn, n,
                        sig="signed-mul-unsigned-magnitude:%s" % src(n.get("o")))
            else:
                ctx.ok("%s.%s() %s" % (src(n.get("o")), nm, "(bound may be negative)" if reach_neg else "(bound never negative here)"), fn, n)


RULES += [r7_signed_magnitudes]


def r8_shift_amounts(ctx):
    ctx.rule("C13.r8", "every C++ shift in wrapint.cpp has an amount that is provably below 64 (a shift of a 64-bit value by 64 or more "
             "is undefined and gives 1 << 64 == 1 on x86): a literal, W - k (k >= 1) or W under `W < 64` / a switch that handles 64 "
             "separately for a width W, a run-time amount A under `!(A >= width)`, `width - A` under `A != 0` as well, and a "
             "bits-to-keep count B under `!(B >= width)` (B + 1 can be 64)", floor=12)
    WIDTHS = {"_width", "w", "width", "new_width"}
    n = 0
    for fn in ctx.db.fns(WI, cpk=W):
        body = fn["body"]
        g = None
        for x, ps in walk_with_parents(body):
            if not (x.get("k") == "bin" and x.get("op") in ("<<", ">>")):
                continue
            lt = x.get("LTC") or x.get("LT") or ""
            if "long" not in lt and "int" not in lt:
                continue
            if g is None:
                g = paths.guards(body)
            amt = strip(x.get("R"))
            while isinstance(amt, dict) and amt.get("k") in ("cast", "paren") and "e" in amt:
                amt = strip(amt["e"])
            n += 1
            gs = [(strip(c), p) for c, p in g.get(id(x), ()) if not isinstance(c, tuple)]

            def has_guard(pred):
                return any(pred(c, p) for c, p in gs)

            def name_of(e):
                e = strip(e)
                if isinstance(e, dict) and e.get("k") == "ref":
                    return e.get("n")
                if isinstance(e, dict) and e.get("k") == "mem":
                    return src(e).replace("this->", "")
                return None

            def cmp_guard(lhs_name, ops_true, rhs_pred):
                def pred(c, p):
                    pp = cmp_parts(c)
                    if not pp:
                        return False
                    op, a, b = pp
                    if name_of(a) == lhs_name and rhs_pred(b):
                        return (op in ops_true and p) or (op in {"<": (">=",), "<=": (">",), "!=": ("==",), ">=": ("<",), ">": ("<=",),
                                                                "==": ("!=",)}.get(ops_true[0], ()) and not p)
                    return False
                return pred
            is64 = lambda b: isinstance(strip(b), dict) and strip(b).get("k") == "lit" and strip(b).get("v") == "64"
            iswidth = lambda b: name_of(b) in WIDTHS
            iszero = lambda b: isinstance(strip(b), dict) and strip(b).get("k") == "lit" and strip(b).get("v") == "0"
            ok, why = False, ""
            if isinstance(amt, dict) and amt.get("k") == "lit":
                ok = int(amt.get("v")) < 64
            elif name_of(amt) in WIDTHS:
                wn = name_of(amt)
                in_switch = any(p.get("k") == "switch" and name_of(p.get("c")) == wn and
                                any(y.get("k") == "case" and any(z.get("k") == "lit" and z.get("v") == "64" for z in walk(y.get("v") or y.get("c") or {}))
                                    for y in walk(p)) for p in ps)
                # a smaller width than one that is <= 64:  _width < new_width, new_width <= 64
                smaller = wn == "_width" and has_guard(cmp_guard("new_width", (">",), is64)) is False and \
                    any(is_call(y, name="sanity_check_bitwidth") for y in walk(body)) is False and False
                ok = has_guard(cmp_guard(wn, ("<",), is64)) or in_switch
                if not ok and wn == "_width":
                    # sext: shifting by the OLD width after `bits_to_add == 0` was excluded and new_width <= 64 was checked
                    ok = has_guard(lambda c, p: (cmp_parts(c) or (None,))[0] == "==" and name_of(cmp_parts(c)[1]) == "bits_to_add" and
                                   iszero(cmp_parts(c)[2]) and p is False) and \
                        has_guard(lambda c, p: (cmp_parts(c) or (None,))[0] == ">" and name_of(cmp_parts(c)[1]) == "new_width" and
                                  is64(cmp_parts(c)[2]) and p is False)
                why = "the width can be 64"
            elif isinstance(amt, dict) and amt.get("k") == "bin" and amt.get("op") == "-" and name_of(amt.get("L")) in WIDTHS:
                r = strip(amt.get("R"))
                if isinstance(r, dict) and r.get("k") == "lit" and int(r.get("v")) >= 1:
                    ok = True
                else:
                    an = name_of(r)
                    ok = an is not None and has_guard(cmp_guard(an, (">=",), iswidth)) is False and \
                        any((cmp_parts(c) or (None,))[0] == ">=" and name_of(cmp_parts(c)[1]) == an and iswidth(cmp_parts(c)[2]) and p is False
                            for c, p in gs) and \
                        any((cmp_parts(c) or (None,))[0] == "==" and name_of(cmp_parts(c)[1]) == an and iszero(cmp_parts(c)[2]) and p is False
                            for c, p in gs)
                    why = "the amount width - A is the whole width when A is 0"
            elif name_of(amt) is not None:
                an = name_of(amt)
                ok = any((cmp_parts(c) or (None,))[0] == ">=" and name_of(cmp_parts(c)[1]) == an and iswidth(cmp_parts(c)[2]) and p is False
                         for c, p in gs)
                why = "nothing excludes an amount of the width or more"
            elif isinstance(amt, dict) and amt.get("k") == "bin" and amt.get("op") == "+":
                ok = False
                why = "B + 1 is 64 for B = 63 (B < width <= 64 is all the guard gives)"
            if ok:
                ctx.ok("%s: shift amount `%s` is below 64" % (fn["name"], src(amt)[:30]), fn, x)
            else:
                ctx.bad("wrapint::%s shifts by `%s` and %s: a shift by 64 is undefined (x86 gives x << 64 == x), e.g. ashr by 0 at width "
                        "64 returned all ones and keep_lower(63) at width 64 returned 0" % (fn["name"], src(amt)[:40], why or "it is not bounded"),
                        fn, x, sig="shift-amount-unbounded:%s:%s" % (fn["name"], src(amt)[:30]))
    if n == 0:
        ctx.fail("rule C13.r8: no shift found in wrapint.cpp")


RULES += [r8_shift_amounts]


def r9_interval_to_wrapped(ctx):
    ctx.rule("C13.r9", "mk_winterval(lb, ub, w): the bounds of an integer interval are reduced modulo 2^w only under a test that the "
             "interval has fewer than 2^w elements (ub - lb compared with a quantity derived from the width); otherwise the result "
             "is top - [0,300] at width 8 is every bit pattern, not [0,44]", floor=1)
    fs = [f for f in ctx.db.fns(WII, name="mk_winterval") if len(f.get("params", [])) == 3]
    if not ctx.need(fs, "wrapped_interval::mk_winterval(lb, ub, width)", "C13.r9"):
        return
    seen = set()
    for fn in fs:
        if fn.get("cls") in seen:
            continue
        seen.add(fn.get("cls"))
        body = fn["body"]
        lb, ub, wd = [p["id"] for p in fn["params"]]
        g = paths.guards(body)
        for r in rets(body):
            v = r.get("v")
            wr = [c for c in walk(v) if c.get("k") == "ctor" and callee(c) and callee(c)["name"] == "wrapint"]
            uses = {y.get("id") for c in wr for y in walk(c) if y.get("k") == "ref"}
            if not (lb in uses and ub in uses):
                continue

            def span_test(c):
                c = strip(c)
                pp = cmp_parts(c)
                if not pp or pp[0] not in (">=", ">", "<", "<="):
                    return 0
                for a, b in ((pp[1], pp[2]), (pp[2], pp[1])):
                    a = strip(a)
                    is_span = isinstance(a, dict) and ((a.get("k") == "call" and a.get("op") == "-") or (a.get("k") == "bin" and a.get("op") == "-")) and \
                        {y.get("id") for y in walk(a) if y.get("k") == "ref"} >= {lb, ub}
                    if is_span and any(y.get("k") == "ref" and y.get("id") == wd for y in walk(b)):
                        return 1
                return 0
            has = any(span_test(c) for c, p in g.get(id(r), ()) if not isinstance(c, tuple))
            if has:
                ctx.ok("mk_winterval: bounds wrapped only after the size test", fn, r)
            else:
                ctx.bad("wrapped_interval::mk_winterval(lb, ub, width) wraps the two bounds independently without testing that ub - lb is "
                        "below 2^width: set(x:int8, [0,300]) stores [0,44]_8 although every bit pattern is possible", fn, r,
                        sig="interval-wrapped-without-size-test")


RULES += [r9_interval_to_wrapped]


def r10_total_conversion(ctx):
    ctx.rule("C13.r10", "wrapint(big integer / rational, width) is total: no error exit depends on the VALUE being converted (only on the "
             "width) - the unsigned value of a 64-bit wrapint and the quotient INT64_MIN / -1 = 2^63 do not fit in an int64_t yet are "
             "legitimate bit patterns", floor=2)
    n = 0
    for fn in ctx.db.fns(WI, cpk=W):
        if fn.get("ctor") != "other" or len(fn.get("params", [])) != 2:
            continue
        pt = (fn["params"][0].get("TC") or fn["params"][0].get("T") or "")
        if "z_number" not in pt and "q_number" not in pt:
            continue
        n += 1
        body = fn["body"]
        vid = fn["params"][0]["id"]
        d = local_decls(body)
        g = paths.guards(body)

        def depends_on_value(c, depth=0):
            for y in walk(c):
                if y.get("k") == "ref" and y.get("id") == vid:
                    return True
                if y.get("k") == "ref" and y.get("rk") == "local" and depth < 3:
                    dd = d.get(y.get("id")) or {}
                    if "i" in dd and depends_on_value(dd["i"], depth + 1):
                        return True
            return False
        errs = [x for x in walk(body) if x.get("k") == "do" and x.get("m") == "CRAB_ERROR"]
        bad = [e for e in errs if any(depends_on_value(c) for c, p in g.get(id(e), ()) if not isinstance(c, tuple))]
        if bad:
            ctx.bad("wrapint(%s, width) exits with an error under a test of the converted value (`%s`): values of 2^63 and above are "
                    "bit patterns of a 64-bit integer (INT64_MIN sdiv -1 aborts, get_unsigned_bignum() does not round-trip)" %
                    (pt.split("::")[-1], src([c for c, p in g.get(id(bad[0]), ()) if not isinstance(c, tuple)][-1])[:40]), fn, bad[0],
                    sig="conversion-rejects-value")
        else:
            ctx.ok("wrapint(%s, width): no value-dependent error exit" % pt.split("::")[-1], fn, body)
    if n == 0:
        ctx.fail("rule C13.r10: wrapint(z_number / q_number, width) constructors not found")


RULES += [r10_total_conversion]


def r11_shl_trunc_width(ctx):
    ctx.rule("C13.r11", "wrapped_interval::Shl(k): Trunc(b - k) is reached only where k < b was established (k == b asks for a wrapint of "
             "width 0, an error exit; k > b underflows)", floor=1)
    fs = [f for f in ctx.db.fns(WII, name="Shl") if len(f.get("params", [])) == 1 and "int" in (f["params"][0].get("T") or "") and
          "wrapped_interval" not in (f["params"][0].get("T") or "")]
    if not ctx.need(fs, "wrapped_interval::Shl(uint64_t)", "C13.r11"):
        return
    seen = set()
    for fn in fs:
        if fn.get("cls") in seen:
            continue
        seen.add(fn.get("cls"))
        body = fn["body"]
        kid = fn["params"][0]["id"]
        g = paths.guards(body)
        for c in walk(body):
            if not is_call(c, name="Trunc"):
                continue

            def atom(x):
                pp = cmp_parts(x)
                if pp and pp[0] in (">=", ">") and isinstance(strip(pp[1]), dict) and strip(pp[1]).get("id") == kid:
                    return 1
                if pp and pp[0] in ("<", "<=") and isinstance(strip(pp[1]), dict) and strip(pp[1]).get("id") == kid:
                    return -1
                return 0
            if guard_truth(g.get(id(c), ()), atom, body) is False:
                ctx.ok("Shl: Trunc(b - k) only for k < b", fn, c)
            else:
                ctx.bad("wrapped_interval::Shl(k) calls Trunc(b - k) without having excluded k >= b: x << b at width b exits with "
                        "`no bitwidth found for a wrapint`", fn, c, sig="shl-trunc-zero-bits")


RULES += [r11_shl_trunc_width]


def r12_cached_modulus_matches_width(ctx):
    ctx.rule("C13.r12", "wrapint caches _mod = 2^_width; the private constructor wrapint(n, width, mod) is only given the cached modulus of "
             "an object together with the width OF THE SAME OBJECT - a result of another width (sext / zext / trunc) must have its "
             "modulus recomputed, otherwise later arithmetic on it is done modulo the old width", floor=15)
    WF = "lib/wrapint.cpp"
    n = 0
    for fn in ctx.db.fns(WF):
        if not (fn.get("cpk") or "").endswith("wrapint") or not fn.get("body"):
            continue
        for c in walk(fn["body"]):
            if not (isinstance(c, dict) and c.get("k") in ("ctor", "construct") and len(c.get("a", [])) == 3):
                continue
            f = c.get("f") or {}
            if not (f.get("pk") or "").endswith("wrapint::(ctor)"):
                continue
            w, m = strip(c["a"][1]), strip(c["a"][2])
            if not (isinstance(m, dict) and m.get("k") == "mem" and m.get("n") == "_mod"):
                continue        # a freshly computed modulus
            n += 1
            same_obj = isinstance(w, dict) and w.get("k") == "mem" and w.get("n") == "_width" and \
                ((w.get("b") is None and m.get("b") is None) or (w.get("b") is not None and m.get("b") is not None and
                                                                 (same_expr(strip(w["b"]), strip(m["b"])) or (is_this(strip(w["b"])) and is_this(strip(m["b"]))))))
            if same_obj:
                ctx.ok("wrapint(n, _width, _mod) of one object", fn, c)
            else:
                ctx.bad("wrapint::%s builds a value of width `%s` with the cached modulus `%s` of another width: wrapint(100,8).sext(8) + "
                        "wrapint(200,16) is computed modulo 2^8 and gives 44 instead of 300" % (fn["name"], src(w)[:30], src(m)[:20]), fn, c,
                        sig="stale-modulus:%s" % fn["name"])
    if n == 0:
        ctx.fail("rule C13.r12: no wrapint(n, width, _mod) construction found")


RULES += [r12_cached_modulus_matches_width]


def r13_constraints_filtered_for_overflow(ctx):
    ctx.rule("C13.r13", "wrapped-interval domain: a linear constraint reaches the generic linear interval solver (which computes the "
             "residuals in wrapped arithmetic and refines the pivot by a signed comparison) only after a test that no residual can "
             "overflow - the test the sibling wrapped_numerical_domain applies (may_overflow) before it trusts a constraint", floor=1)
    WD = "include/crab/domains/wrapped_interval_domain.hpp"
    fs = [f for f in ctx.db.fns(WD, cpk="crab::domains::wrapped_interval_domain", name="operator+=")
          if f.get("body") and "linear_constraint_system" in (f.get("psig") or "")]
    if not ctx.need(fs, "wrapped_interval_domain::operator+=(linear_constraint_system_t)"):
        return
    seen = set()
    for fn in fs:
        if fn["line"] in seen:
            continue
        seen.add(fn["line"])
        body = fn["body"]
        adds = [c for c in walk(body) if is_call(c, name=("add", "run")) and ("o" not in c or is_this(strip(c.get("o"))) or True)]
        adds = [c for c in adds if callee(c) and callee(c)["name"] in ("add", "run")]
        if not adds:
            ctx.undecided("operator+=: the call that runs the solver was not found", fn, body)
            continue
        filt = [c for c in walk(body) if c.get("k") == "call" and callee(c) and "overflow" in callee(c)["name"].lower()]
        if filt:
            ctx.ok("constraints are filtered by %s before the solver runs" % callee(filt[0])["name"], fn, filt[0])
        else:
            ctx.bad("wrapped_interval_domain::operator+= gives every well-typed constraint to the linear interval solver without an overflow "
                    "test of its residuals: y = -128 (8 bits); assume(x + y <= 0) computes the residual -y = 128 as -128 and refines x to "
                    "[-128,-128], excluding x = 0 (0 + -128 <= 0)", fn, adds[0], sig="wrapped-constraints-unfiltered")


RULES += [r13_constraints_filtered_for_overflow]


def r14_wrapped_inclusion_exact(ctx):
    ctx.rule("C13.r14", "wrapped_interval::operator<= is interpreted over ALL pairs of circular intervals of width 3 (its decision tree over "
             "is_top / is_bottom / end-point equality / at(.) membership is evaluated on the finite model): whenever it answers yes the "
             "left interval is a subset of the right one. On a circle `both end points of s lie in t` is not enough - s and t can "
             "overlap at both ends and cover the circle together; join and the fixpoint test are built on this operator", floor=1)
    WI2 = "include/crab/domains/wrapped_interval_impl.hpp"
    fs = [f for f in ctx.db.fns(WI2, name="operator<=") if (f.get("cpk") or "").endswith("wrapped_interval") and f.get("body")]
    if not ctx.need(fs, "wrapped_interval::operator<="):
        return
    fn = fs[0]
    body = fn["body"]
    N = 8

    class Stuck(Exception):
        pass

    def members(iv):
        s, e = iv
        return {(s + k) % N for k in range(((e - s) % N) + 1)}

    def who(o):
        o = strip(o)
        if o is None or is_this(o):
            return "this"
        if is_param(o, fn, 0):
            return "x"
        raise Stuck(src(o)[:30])

    def val(e, env):
        e = strip(e)
        while isinstance(e, dict) and e.get("k") in ("ctor", "construct") and len(e.get("a", [])) == 1:
            e = strip(e["a"][0])
        if isinstance(e, dict) and e.get("k") == "mem" and e.get("n") in ("m_start", "m_end"):
            iv = env[who(e.get("b"))]
            return iv[0] if e["n"] == "m_start" else iv[1]
        raise Stuck(src(e)[:30])

    def ev(e, env):
        e = strip(e)
        if not isinstance(e, dict):
            raise Stuck("?")
        k = e.get("k")
        if k == "lit" and e.get("v") in ("true", "false"):
            return e["v"] == "true"
        if k == "un" and e.get("op") == "!":
            return not ev(e.get("e"), env)
        if k == "bin" and e.get("op") in ("&&", "||"):
            a = ev(e.get("L"), env)
            if e["op"] == "&&":
                return a and ev(e.get("R"), env)
            return a or ev(e.get("R"), env)
        if k == "call":
            nm = (callee(e) or {}).get("name")
            if nm in ("is_top", "is_bottom"):
                who(e.get("o"))
                return False                     # the model contains proper intervals only
            if nm == "at" and len(e.get("a", [])) == 1:
                return val(e["a"][0], env) in members(env[who(e.get("o"))])
            if e.get("op") in ("==", "!=") and "o" in e and e.get("a"):
                r = val(e["o"], env) == val(e["a"][0], env)
                return r if e["op"] == "==" else not r
        raise Stuck(src(e)[:40])

    def run(s, env):
        s = strip(s) if isinstance(s, dict) else s
        k = s.get("k")
        if k == "seq":
            for y in s.get("b", []):
                r = run(y, env)
                if r is not None:
                    return r
            return None
        if k == "if":
            if ev(s.get("c"), env):
                return run(s.get("t"), env)
            return run(s["e"], env) if "e" in s else None
        if k == "ret":
            return ev(s.get("v"), env)
        raise Stuck(k)
    wrong = None
    n = 0
    try:
        for s1 in range(N):
            for e1 in range(N):
                for s2 in range(N):
                    for e2 in range(N):
                        n += 1
                        ans = run(body, {"this": (s1, e1), "x": (s2, e2)})
                        if ans is None:
                            raise Stuck("no return")
                        if ans and not members((s1, e1)) <= members((s2, e2)):
                            wrong = wrong or ((s1, e1), (s2, e2))
    except Stuck as ex:
        ctx.undecided("wrapped_interval::operator<=: cannot interpret `%s`" % ex, fn, body)
        return
    if wrong:
        (a, b), (c, d) = wrong
        ctx.bad("wrapped_interval::operator<= answers yes for [%d,%d] <= [%d,%d] at width 3 although the left interval is not a subset of the "
                "right one (%d of 4096 pairs interpreted): the join `if (*this <= x) return x` then returns one operand instead of top and "
                "the fixpoint test declares a loop stable too early" % (a, b, c, d, n), fn, body, sig="wrapped-leq-unsound")
    else:
        ctx.ok("every yes among the 4096 pairs of width-3 intervals is an inclusion", fn, body)


RULES += [r14_wrapped_inclusion_exact]
