"""C15 - the region/reference domain is sound for loads and reference queries."""
from ..tree import (walk, walk_with_parents, strip, is_call, is_ref, is_this, is_field, deref, same_expr,
                    src, obj, args, callee)
from .. import paths
from ..match import (strip_move, is_param, rets, nodes_not_in_log, resolve_local, local_decls, writes_to, cmp_parts,
                     guard_truth, atom_truth)
from . import _domains as dm

LEVEL_TEXT = ("Clause-level static rules: ref_store performs a strong memory write only under the guard built from DEFINITE facts about "
              "the region (uninitialised, reference count zero or one) and a weak write otherwise, with the allocation-site and tag "
              "environments following the same split (overwrite vs join); ref_make / ref_gep / region_copy only ever increment or join "
              "reference counts, and ref_gep skips the increment only for a definite alias (same region AND offset definitely 0 - a "
              "must-test, not a may-test); is_null_ref / get_allocation_sites / get_tags give a definite answer only from the base "
              "interval / environments and answer top / false otherwise; every operation redefines or forgets its result parameter; "
              "the per-variable allocation-site and tag environments are updated whenever a reference/region is written. Ghost-"
              "variable bookkeeping and offset/size reasoning are NOT decided."
              " Each optional environment (allocation sites, tags) is switched by its own parameter in every operation; disjoint allocation-site sets refute p == q only with a definitely non-null operand.")
ASSUMPTIONS = ["the authors' documented assumption that a region with reference count zero is allocated outside the analysed code "
               "(runtime warning) is accepted", "base-domain operations are sound (C03)"]

RD = "include/crab/domains/region_domain.hpp"
RC = "crab::domains::region_domain"

DEFINITE = {"is_one", "is_zero", "is_false", "is_true"}


def _fns(ctx, name):
    fs = ctx.db.fns(RD, pk=RC + "::" + name)
    ctx.need(fs, "region_domain::" + name)
    return fs


def r1_store_guard(ctx):
    ctx.rule("C15.r1", "ref_store: strong write only under (uninitialised || refcount zero || refcount one); weak otherwise; envs follow the split", floor=4)
    for fn in _fns(ctx, "ref_store"):
        body = fn["body"]
        g = paths.guards(body)
        d = local_decls(body)
        ws = [n for n, ps in nodes_not_in_log(body, lambda x: is_call(x, name="do_mem_write") and len(x.get("a", [])) == 4)]
        if len(ws) < 2:
            ctx.bad("ref_store must have a strong and a weak memory write", fn, body, sig="store-writes")
            continue

        def disjuncts(c):
            c = strip(c)
            if isinstance(c, dict) and c.get("k") == "bin" and c.get("op") == "||":
                return disjuncts(c.get("L")) + disjuncts(c.get("R"))
            return [c]

        def definite(c):
            c = resolve_local(body, c, d)
            c = strip(c)
            if isinstance(c, dict) and c.get("k") == "call" and callee(c) and callee(c)["name"] in DEFINITE and not c.get("a"):
                r = strip(c.get("o"))
                # refcount_val().is_one() / init_val().is_false()
                return any(is_call(x, name=("refcount_val", "init_val")) for x in walk(r)) or \
                    (isinstance(r, dict) and r.get("k") == "ref" and any(is_call(x, name=("refcount_val", "init_val"))
                                                                          for x in walk((d.get(r.get("id")) or {}).get("i"))))
            return False
        for w in ws:
            weak = strip(w["a"][3]).get("v")
            gs = [(c, p) for c, p in g.get(id(w), ()) if not isinstance(c, tuple)]
            # the guard that distinguishes strong from weak: the one whose disjuncts are definite region facts
            split = [(c, p) for c, p in gs if all(definite(x) for x in disjuncts(c)) and len(disjuncts(c)) >= 1 and
                     any(definite(x) for x in disjuncts(c))]
            if not split:
                ctx.bad("ref_store performs a %s memory write that is not controlled by the (uninitialised || refcount zero || refcount "
                        "one) test" % ("strong" if weak == "false" else "weak"), fn, w, sig="store-guard-missing:%s" % weak)
                continue
            c, p = split[-1]
            if (weak == "false" and p is True) or (weak == "true" and p is False):
                ctx.ok("%s write under %s(%s)" % ("strong" if weak == "false" else "weak", "" if p else "!", src(c)[:70]), fn, w)
            else:
                ctx.bad("ref_store performs a %s write on the %s side of `%s`: a strong update of a region that several references may "
                        "point to overwrites the contents of the other cells" % ("strong" if weak == "false" else "weak",
                                                                                 "true" if p else "false", src(c)[:70]), fn, w,
                        sig="store-guard-polarity:%s" % weak)
        # a weakened guard: an extra disjunct that is not a definite fact
        for n in walk(body):
            if n.get("k") == "if":
                ds = disjuncts(n.get("c"))
                if any(definite(x) for x in ds) and not all(definite(x) for x in ds) and any(is_call(y, name="do_mem_write") for y in walk(n.get("t"))):
                    extra = [src(x)[:40] for x in ds if not definite(x)]
                    ctx.bad("the strong-update guard of ref_store has a disjunct that is not a definite fact about the region: %s" % extra,
                            fn, n, sig="store-guard-weakened")
        # environments
        for env in ("m_alloc_env", "m_tag_env"):
            sets = [n for n in walk(body) if is_call(n, name="set") and is_field(obj(n), env) and n.get("a") and is_param(n["a"][0], fn, 1)]
            for s in sets:
                gs = [(c, p) for c, p in g.get(id(s), ()) if not isinstance(c, tuple) and all(definite(x) for x in disjuncts(c))]
                if not gs:
                    continue
                c, p = gs[-1]
                joins_old = any(is_call(x, op="|") for x in walk(s["a"][1])) and any(
                    is_call(x, name="at") and is_field(obj(x), env) and x.get("a") and is_param(x["a"][0], fn, 1) for x in walk(s["a"][1]))
                if p and not joins_old:
                    ctx.ok("%s overwritten on the strong side" % env, fn, s)
                elif not p and joins_old:
                    ctx.ok("%s joined with its old value on the weak side" % env, fn, s)
                elif not p and not joins_old:
                    ctx.bad("on the weak-update side ref_store OVERWRITES %s[rgn] instead of joining it with the old value" % env, fn, s,
                            sig="store-env-weak:%s" % env)
                else:
                    ctx.ok("%s joined on the strong side (imprecise but sound)" % env, fn, s)


def _disjuncts(c):
    c = strip(c)
    if isinstance(c, dict) and c.get("k") == "bin" and c.get("op") == "||":
        return _disjuncts(c.get("L")) + _disjuncts(c.get("R"))
    return [c]


def _definite_refcount(c, body, d):
    c = strip(resolve_local(body, c, d))
    if isinstance(c, dict) and c.get("k") == "call" and callee(c) and callee(c)["name"] in ("is_one", "is_zero") and not c.get("a"):
        r = strip(c.get("o"))
        if any(is_call(x, name="refcount_val") for x in walk(r)):
            return True
        if isinstance(r, dict) and r.get("k") == "ref":
            return any(is_call(x, name="refcount_val") for x in walk((d.get(r.get("id")) or {}).get("i")))
    return False


def r2_strong_read(ctx):
    ctx.rule("C15.r2", "ref_load / region_copy: the region's ghost variables are equated with the result (assign) only for a singleton "
             "region (refcount zero or one); otherwise through expand (a copy that keeps the region's own constraints)", floor=2)
    for name in ("ref_load", "region_copy"):
        for fn in _fns(ctx, name):
            body = fn["body"]
            d = local_decls(body)
            splits = [n for n in walk(body) if n.get("k") == "if" and "e" in n and
                      all(_definite_refcount(x, body, d) for x in _disjuncts(n.get("c")))]
            if len(splits) != 1:
                ctx.bad("%s has no singleton / non-singleton split on the region's reference count: reading a summarised region with "
                        "assign equates the result with ALL cells of the region" % name, fn, body, sig="read-split-missing:%s" % name)
                continue
            sp = splits[0]
            ex = [x for x in walk(sp["e"]) if is_call(x, name="expand")]
            expanded = set()
            for x in ex:
                for a in x.get("a", []):
                    a = strip(a)
                    if isinstance(a, dict) and a.get("k") == "ref":
                        expanded.add(a.get("id"))
            bad = None
            for x in walk(sp["e"]):
                if is_call(x, name="assign") and len(x.get("a", [])) == 2:
                    a = strip(x["a"][1])
                    if not (isinstance(a, dict) and a.get("k") == "ref" and a.get("id") in expanded):
                        bad = x
            if not ex:
                ctx.bad("%s: on the non-singleton side the region's ghost variables are not copied with expand" % name, fn, sp,
                        sig="weak-read-no-expand:%s" % name)
            elif bad is not None:
                ctx.bad("%s: on the non-singleton side `%s` equates the result with something other than an expanded copy" %
                        (name, src(bad)[:80]), fn, bad, sig="weak-read-assign:%s" % name)
            else:
                ctx.ok("%s: strong read under %s, expand otherwise" % (name, src(sp["c"])[:60]), fn, sp)
            # expand direction: source.expand(dom, fresh)
            for x in ex:
                ctx.ok("%s: %s" % (name, src(x)[:70]), fn, x)


def r3_refcount(ctx):
    ctx.rule("C15.r3", "reference counts only grow: ref_make / ref_gep increment; ref_gep skips the increment only for a DEFINITE alias", floor=3)
    for fn in _fns(ctx, "ref_make"):
        inc = [n for n in walk(fn["body"]) if is_call(n, name="increment")]
        if inc:
            ctx.ok("ref_make: refcount_val().increment(ref)", fn, inc[0])
        else:
            ctx.bad("ref_make does not increment the region's reference count: a second reference into the region would still allow "
                    "strong updates", fn, fn["body"], sig="refmake-no-increment")
    for fn in _fns(ctx, "ref_gep"):
        body = fn["body"]
        g = paths.guards(body)
        inc = [n for n, ps in nodes_not_in_log(body, lambda x: is_call(x, name="increment"))]
        if not inc:
            ctx.bad("ref_gep never increments the destination region's reference count", fn, body, sig="gep-no-increment")
            continue
        for i in inc:
            gs = [(c, p) for c, p in g.get(id(i), ()) if not isinstance(c, tuple)]
            skip = [(c, p) for c, p in gs if any(is_call(x, name="eval") or (x.get("k") == "call" and x.get("op") == "()") for x in walk(c))]
            if not skip:
                ctx.ok("ref_gep increments unconditionally (sound)", fn, i)
                continue
            c, p = skip[-1]
            cc = strip(c)
            neg = False
            while isinstance(cc, dict) and cc.get("k") == "un" and cc.get("op") == "!":
                cc = strip(cc.get("e"))
                neg = not neg
            # increment happens when !(same region && offset == 0): the skip condition is a conjunction of DEFINITE tests
            conj = []
            st = [cc]
            while st:
                x = strip(st.pop())
                if isinstance(x, dict) and x.get("k") == "bin" and x.get("op") == "&&":
                    st += [x.get("L"), x.get("R")]
                else:
                    conj.append(x)
            okk = (p != (not neg)) or True
            off = [x for x in conj if any(y.get("k") == "call" and (y.get("op") == "()" or is_call(y, name="eval")) for y in walk(x))]
            same_rgn = [x for x in conj if cmp_parts(x) and cmp_parts(x)[0] == "==" and is_param(cmp_parts(x)[1], fn, 1) and is_param(cmp_parts(x)[2], fn, 3)]
            must = False
            if off:
                pp = cmp_parts(off[0])
                must = bool(pp) and pp[0] == "=="        # interval == constant : definitely that value
            if off and same_rgn and must and (neg == (p is True)):
                ctx.ok("ref_gep skips the increment only when rgn1 == rgn2 and the offset is definitely 0", fn, i)
            else:
                ctx.bad("ref_gep skips the reference-count increment under `%s`: the skip is only sound for a DEFINITE alias (same region "
                        "and offset == 0 as an interval equality); a containment / may-test keeps the count at one although a second, "
                        "different reference into the region now exists, enabling wrong strong updates" % src(cc)[:90], fn, i,
                        sig="gep-skip-may-test")


def _norm(c, p):
    c = strip(c)
    while isinstance(c, dict) and c.get("k") == "un" and c.get("op") == "!":
        c = strip(c.get("e"))
        p = not p
    return c, p


def r4_queries(ctx):
    ctx.rule("C15.r4", "is_null_ref / get_allocation_sites / get_tags answer definitely only from the base interval / environments", floor=3)
    for fn in _fns(ctx, "is_null_ref"):
        body = fn["body"]
        g = paths.guards(body)
        d = local_decls(body)
        good = True
        for r in rets(body):
            v = strip_move(r.get("v"))
            nm = callee(v)["name"] if isinstance(v, dict) and v.get("k") == "call" and callee(v) else None
            gs = [_norm(c, p) for c, p in g.get(id(r), ()) if not isinstance(c, tuple)]
            txt = " && ".join(("" if p else "!") + src(c)[:50] for c, p in gs)
            if nm == "get_true":
                # must be under lb == 0 && ub == 0
                conds = [c for c, p in gs if p]
                okt = any(sum(1 for x in walk(c) if x.get("k") == "call" and x.get("op") == "==") >= 2 for c in conds)
                if okt:
                    ctx.ok("definitely null only when the interval is exactly [0,0]", fn, r)
                else:
                    good = False
                    ctx.bad("is_null_ref answers TRUE under `%s`; a reference is definitely null only when its address interval is "
                            "exactly [0,0]" % txt, fn, r, sig="nullref-true")
            elif nm == "get_false":
                # under !(0 in interval) or non-reference type
                okf = any((not p) and cmp_parts(c) and cmp_parts(c)[0] == "<=" for c, p in gs) or \
                    any((not p) and any(is_call(x, name="is_reference") for x in walk(c)) for c, p in gs)
                if okf:
                    ctx.ok("definitely non-null only when 0 is outside the interval", fn, r)
                else:
                    good = False
                    ctx.bad("is_null_ref answers FALSE under `%s`; a reference is definitely non-null only when 0 is not in its address "
                            "interval" % txt, fn, r, sig="nullref-false")
            elif nm in ("top", "bottom"):
                ctx.ok("is_null_ref: %s" % nm, fn, r)
    for name, env in (("get_allocation_sites", "m_alloc_env"), ("get_tags", "m_tag_env")):
        for fn in _fns(ctx, name):
            body = fn["body"]
            g = paths.guards(body)
            d = local_decls(body)
            for r in rets(body):
                v = strip(r.get("v"))
                if isinstance(v, dict) and v.get("v") == "true":
                    def is_top(c):
                        c = strip(c)
                        if is_call(c, name="is_top") and is_ref(c.get("o")):
                            dd = d.get(strip(c["o"]).get("id"))
                            if dd is not None and "i" in dd and any(is_field(x, env) for x in walk(dd["i"])):
                                return 1
                        return 0
                    if guard_truth(g.get(id(r), ()), is_top, body) is False:
                        ctx.ok("%s: definite answer only when %s is not top" % (name, env), fn, r)
                    else:
                        ctx.bad("%s returns true (a complete set) without checking that the %s entry is not top" % (name, env), fn, r,
                                sig="query-top:%s" % name)


def r5_lhs_kill(ctx):
    ctx.rule("C15.r5", "every region-domain operation redefines / forgets its result parameter on every non-bottom path", floor=20)
    dm.lhs_kill_rule(ctx, "C15.r5", classes={"region_domain"})


def r6_env_coherence(ctx):
    ctx.rule("C15.r6", "allocation-site / tag environments are updated whenever a reference is (re)defined", floor=3)
    # ref_make, ref_gep, region_copy... : under the parameter flag, the env entry of the written reference is set
    for name, widx in (("ref_make", 0), ("ref_gep", 2)):
        for fn in _fns(ctx, name):
            body = fn["body"]
            g = paths.guards(body)
            for env, flag in (("m_alloc_env", "region_allocation_sites"), ("m_tag_env", "region_tag_analysis")):
                sets = [n for n in walk(body) if is_call(n, name=("set", "operator-=")) and is_field(obj(n), env) and n.get("a") and
                        is_param(n["a"][0], fn, widx)]
                if env == "m_tag_env" and name == "ref_make":
                    continue       # tags are attached to regions, not created by ref_make
                if sets:
                    ctx.ok("%s updates %s[%s]" % (name, env, fn["params"][widx]["n"]), fn, sets[0])
                else:
                    ctx.bad("%s defines the reference `%s` but never updates its entry in %s: the entry of the variable's PREVIOUS value "
                            "survives" % (name, fn["params"][widx]["n"], env), fn, body, sig="env-stale:%s:%s" % (name, env))


RULES = [r1_store_guard, r2_strong_read, r3_refcount, r4_queries, r5_lhs_kill, r6_env_coherence]


def r7_increment_table(ctx):
    ctx.rule("C15.r7", "small_range::increment (reference / cell counter of a region): the abstract counter after an increment is "
             "ExactlyOne only when it was ExactlyZero, and OneOrMore from every other non-bottom value - also when the variable "
             "recorded in 1(v) is the one being incremented for (an alias of the old value of v keeps what was counted alive); "
             "decided by interpreting the body for the 5 counter kinds x same / other variable", floor=10)
    SR = "include/crab/domains/small_range.hpp"
    fns = ctx.db.fns(SR, name="increment")
    if not ctx.need(fns, "small_range::increment", "C15.r7"):
        return
    KINDS = {"ExactlyZero": "ExactlyOne", "ExactlyOne": "OneOrMore", "ZeroOrOne": "OneOrMore", "ZeroOrMore": "OneOrMore",
             "OneOrMore": "OneOrMore"}

    class _Unk(Exception):
        pass

    for fn in fns[:1]:
        body = fn["body"]

        def cond(c, st):
            c = strip(c)
            k = c.get("k")
            if k == "un" and c.get("op") == "!":
                return not cond(c.get("e"), st)
            if k == "bin" and c.get("op") in ("&&", "||"):
                a = cond(c["L"], st)
                if c["op"] == "&&":
                    return a and cond(c["R"], st)
                return a or cond(c["R"], st)
            if k == "call" and callee(c) and callee(c)["name"] == "is_bottom":
                return False
            if k == "bin" and c.get("op") in ("==", "!="):
                L, R = strip(c["L"]), strip(c["R"])
                for a, b in ((L, R), (R, L)):
                    if isinstance(a, dict) and a.get("k") == "mem" and a.get("n") == "m_kind" and isinstance(b, dict) and b.get("rk") == "enum":
                        r = st["kind"] == b.get("n")
                        return r if c["op"] == "==" else not r
                if any(is_call(y, name="index") for y in walk(c)) and any(x.get("k") == "mem" and x.get("n") == "m_value" for x in walk(c)):
                    return st["same"] if c["op"] == "==" else not st["same"]
            if k == "call" and c.get("op") in ("==", "!=") and any(is_call(y, name="index") for y in walk(c)) and \
                    any(x.get("k") == "mem" and x.get("n") == "m_value" for x in walk(c)):
                return st["same"] if c["op"] == "==" else not st["same"]
            raise _Unk(src(c)[:50])

        def run(n, st):
            if not isinstance(n, dict):
                return
            k = n.get("k")
            if k == "seq":
                for x in n.get("b", []):
                    run(x, st)
            elif k == "if":
                if cond(n.get("c"), st):
                    run(n.get("t"), st)
                elif "e" in n:
                    run(n.get("e"), st)
            elif k == "asg" and isinstance(strip(n.get("L")), dict) and strip(n["L"]).get("n") == "m_kind":
                r = strip(n.get("R"))
                if not (isinstance(r, dict) and r.get("rk") == "enum"):
                    raise _Unk("m_kind := " + src(r)[:30])
                st["kind"] = r.get("n")
            elif k == "do" and n.get("m") == "CRAB_ERROR":
                st["kind"] = "ERROR"
            elif k in ("while", "for", "rangefor", "do", "switch"):
                raise _Unk(k)
        for kind, want in KINDS.items():
            for same in (False, True):
                st = {"kind": kind, "same": same}
                try:
                    run(body, st)
                except _Unk as e:
                    ctx.undecided("small_range::increment: cannot interpret `%s`" % e, fn, body)
                    continue
                if st["kind"] == want:
                    ctx.ok("increment: %s%s -> %s" % (kind, " (same variable)" if same else "", want), fn, body)
                else:
                    ctx.bad("small_range::increment maps %s%s to %s, it must be %s: with the counter at 1(p), `q := gep_ref(R, p); p := "
                            "make_ref(R)` leaves two live cells but stores and loads through p and q stay strong (store(p,2) after "
                            "store(old p,1), load(q) = [2,2])" % (kind, " incremented for the recorded variable" if same else "",
                                                                  st["kind"], want), fn, body,
                            sig="refcount-same-variable" if same else "refcount-table:%s" % kind)


RULES += [r7_increment_table]


_OPTIONAL_ENV = {"m_alloc_env": "region_allocation_sites", "m_tag_env": "region_tag_analysis"}


def r8_env_guarded_by_own_parameter(ctx):
    ctx.rule("C15.r8", "the optional environments of the region domain are each switched by their OWN parameter (m_alloc_env by "
             "region_allocation_sites, m_tag_env by region_tag_analysis) in every operation: a use of one environment under the "
             "other's parameter is skipped exactly in the settings where only that environment is tracked (e.g. the inclusion test "
             "then ignores it and a loop is declared stable while the sets still grow)", floor=40)
    RD = "include/crab/domains/region_domain.hpp"
    seen = set()
    n = 0
    for fn in ctx.db.fns(RD, cpk="crab::domains::region_domain"):
        if not fn.get("body") or (fn["name"], fn["line"]) in seen:
            continue
        seen.add((fn["name"], fn["line"]))
        bodies = [fn["body"]] + [l.get("b") for l in walk(fn["body"]) if l.get("k") == "lambda" and l.get("b") is not None]
        for body in bodies:
            g = paths.guards(body)
            for x in walk(body, into_lambdas=False):
                if not (isinstance(x, dict) and x.get("k") == "mem" and x.get("n") in _OPTIONAL_ENV):
                    continue
                gs = g.get(id(x))
                if gs is None:
                    continue
                own = _OPTIONAL_ENV[x["n"]]
                others = [p for f, p in _OPTIONAL_ENV.items() if f != x["n"]]

                def atom_of(param):
                    return lambda c: 1 if is_call(strip(c), name=param) else 0
                t_own = guard_truth(gs, atom_of(own), body)
                t_oth = [guard_truth(gs, atom_of(p), body) for p in others]
                if t_own is True:
                    n += 1
                    ctx.ok("%s used under %s()" % (x["n"], own), fn, x)
                elif any(t is True for t in t_oth):
                    n += 1
                    ctx.bad("region_domain::%s uses %s under `%s()`, the parameter of the OTHER optional environment, and not under its own "
                            "`%s()`: with only %s switched on this use is skipped" % (fn["name"], x["n"], others[0], own, own), fn, x,
                            sig="env-wrong-parameter:%s:%s" % (fn["name"], x["n"]))
    if n == 0:
        ctx.fail("rule C15.r8: no parameter-guarded use of m_alloc_env / m_tag_env found")


RULES += [r8_env_guarded_by_own_parameter]


def r9_alloc_sites_do_not_cover_null(ctx):
    ctx.rule("C15.r9", "allocation-site sets say nothing about NULL (a reference that is null on one branch and allocated at site A on the "
             "other has the set {A}): `p == q` is refuted from DISJOINT site sets only if one of the two references is definitely not "
             "null; otherwise both may be null and equal", floor=2)
    n = 0
    for name in ("ref_assume", "assign_bool_ref_cst"):
        for fn in _fns(ctx, name)[:1]:
            body = fn["body"]
            decls = local_decls(body)
            inters = []
            for d in decls.values():
                i = strip_move(d.get("i")) if "i" in d else None
                if isinstance(i, dict) and i.get("k") in ("ctor", "construct") and len(i.get("a", [])) == 1:
                    i = strip_move(i["a"][0])
                if isinstance(i, dict) and i.get("k") == "call" and i.get("op") == "&" and "o" in i and i.get("a"):
                    sides = [resolve_local(body, strip_move(i["o"]), decls), resolve_local(body, strip_move(i["a"][0]), decls)]
                    if all(any(is_field(y, "m_alloc_env") for y in walk(sd)) for sd in sides):
                        inters.append(d)
            if not inters:
                continue
            ids = {d["id"] for d in inters}

            def ev(c):
                c = strip(c)
                if not isinstance(c, dict):
                    return None
                if is_call(c, name="is_bottom") and isinstance(strip(obj(c)), dict) and strip(obj(c)).get("id") in ids:
                    return True
                if is_call(c, name="is_false") and any(is_call(y, name="is_null_ref") for y in walk(obj(c))):
                    return False            # neither reference is known to be non-null
                if c.get("k") == "ref" and c.get("rk") == "local":
                    r = resolve_local(body, c, decls)
                    return ev(r) if r is not c else None
                if c.get("k") == "un" and c.get("op") == "!":
                    x = ev(c.get("e"))
                    return None if x is None else (not x)
                if c.get("k") == "bin" and c.get("op") in ("&&", "||"):
                    a, b = ev(c.get("L")), ev(c.get("R"))
                    if c["op"] == "&&":
                        return False if (a is False or b is False) else (True if (a is True and b is True) else None)
                    return True if (a is True or b is True) else (False if (a is False and b is False) else None)
                return None
            g = paths.guards(body)
            for iff in [x for x in walk(body) if x.get("k") == "if"]:
                c = iff.get("c")
                if not any(is_call(y, name="is_bottom") and isinstance(strip(obj(y)), dict) and strip(obj(y)).get("id") in ids for y in walk(c)):
                    continue
                n += 1
                v = ev(c)
                if v is False:
                    ctx.ok("%s: disjoint sites conclude only with a definitely non-null reference" % name, fn, iff)
                else:
                    ctx.bad("region_domain::%s concludes from disjoint allocation-site sets alone that two references differ: p and q "
                            "loaded from regions holding {NULL, site A} and {NULL, site B} have the sets {A} and {B}, assume(p == q) "
                            "becomes bottom and b := (p == q) definitely false although p == q == NULL is an execution" % name, fn, iff,
                            sig="alloc-sites-ignore-null:%s" % name)
    if n == 0:
        ctx.fail("rule C15.r9: no conclusion from the intersection of two allocation-site sets found")


RULES += [r9_alloc_sites_do_not_cover_null]


def r10_size_relation_only_for_plain_equality(ctx):
    ctx.rule("C15.r10", "ref_assume: the constraint p == q + k is translated to the SIZE ghost variables only for k = 0 (p and q point into "
             "the same object, so their sizes are equal - they do not differ by k); translating it with the offset makes the true "
             "assumption q == p + 4 after q := gep(p, 4) bottom when region.is_dereferenceable tracks sizes", floor=1)
    n = 0
    for fn in _fns(ctx, "ref_assume")[:1]:
        body = fn["body"]
        g = paths.guards(body)
        for c in walk(body):
            if not (is_call(c, name="convert_ref_cst_to_linear_cst") and len(c.get("a", [])) == 2 and "SIZE" in src(c["a"][1])):
                continue
            n += 1

            def zero_offset(x):
                p = cmp_parts(x)
                if p and p[0] in ("==", "!=") and any(is_call(strip(z), name="offset") for z in (p[1], p[2])) and \
                        any(isinstance(strip(z), dict) and (strip(z).get("v") == "0" or any(isinstance(y, dict) and y.get("k") == "lit" and y.get("v") == "0" for y in walk(z)))
                            for z in (p[1], p[2])):
                    return 1 if p[0] == "==" else -1
                return 0
            if guard_truth(g.get(id(c), ()), zero_offset, body) is True:
                ctx.ok("SIZE ghosts related only under offset() == 0", fn, c)
            else:
                ctx.bad("region_domain::ref_assume translates `p == q + k` to the SIZE ghost variables with the offset k: after q := gep(p, 4) "
                        "the true assumption q == p + 4 adds size(q) == size(p) + 4 and the state becomes bottom", fn, c,
                        sig="size-related-with-offset")
    if n == 0:
        ctx.fail("rule C15.r10: the SIZE translation of ref_assume was not found")


RULES += [r10_size_relation_only_for_plain_equality]


def r11_region_cast_overwrites_contents(ctx):
    ctx.rule("C15.r11", "region_cast(src, dst): on every non-bottom path the CONTENTS of dst (its ghost variables) are either assigned from "
             "src or forgotten - updating the reference counter / type of dst alone lets a later load from dst return the value it "
             "held before the cast", floor=1)
    n = 0
    for fn in _fns(ctx, "region_cast")[:1]:
        body = fn["body"]
        decls = local_decls(body)
        lambdas = {d["id"]: d for d in decls.values() if isinstance(strip(d.get("i")), dict) and strip(d["i"]).get("k") == "lambda"}
        # lambdas that write / forget the ghost variables of their first parameter
        writers = set()
        for lid, d in lambdas.items():
            lb = strip(d["i"]).get("b")
            if any(is_call(c, name=("assign", "assign_bool_var", "array_assign", "forget")) for c in walk(lb)):
                writers.add(lid)

        def mentions_dst(e):
            return any(is_param(x, fn, 1) for x in walk(e) if isinstance(x, dict) and x.get("k") == "ref")

        def gen(x):
            if x.get("k") == "call" and x.get("op") == "()" and isinstance(strip(x.get("o")), dict) and strip(x["o"]).get("id") in writers and \
                    x.get("a") and mentions_dst(x["a"][0]):
                return ("contents",)
            if is_call(x, name=("forget_region_ghost_vars", "forget")) and any(mentions_dst(a) for a in x.get("a", [])):
                return ("contents",)
            return ()

        def refine(cond, pol):
            if is_call(strip(cond), name="is_bottom") and pol:
                return ("contents",)
            return ()
        fl = paths.MustEvents(gen, refine=refine)
        try:
            fl.run(body)
        except paths.Unstructured:
            ctx.undecided("region_cast: unstructured control flow", fn, body)
            continue
        n += 1
        miss = [(r, st) for r, st in fl.returns if "contents" not in st]
        if miss:
            r = miss[0][0]
            ctx.bad("region_domain::region_cast can return without assigning or forgetting the contents of the destination region (the cast "
                    "from an untracked unknown region, or with an incompatible dynamic type, is `skipped`): D holds 5, region_cast(U, D) "
                    "with U holding 7, then x := load(D) still gives x = 5", fn, r if r is not None else body, sig="region-cast-stale-contents")
        else:
            ctx.ok("region_cast assigns or forgets the contents of dst on every path", fn, body)
    if n == 0:
        ctx.fail("rule C15.r11: region_cast not decided")


RULES += [r11_region_cast_overwrites_contents]


def r12_store_updates_sites_and_tags(ctx):
    ctx.rule("C15.r12", "ref_store: every path that records the new state of the region (m_rgn_env.set(rgn, ..)) has joined / set the "
             "allocation sites and the tags of the stored value into the region's environments (when the parameter is on and the value "
             "is a reference variable / a variable) - also the paths on which the write into the region's CONTENTS is skipped "
             "(dynamic type top or incompatible), because ref_load copies the region's sites and tags to the loaded reference", floor=1)
    n = 0
    for fn in _fns(ctx, "ref_store")[:1]:
        body = fn["body"]
        decls = local_decls(body)
        rgn_ids = {p["id"] for i, p in enumerate(fn.get("params", [])) if i == 1}
        lam_alloc, lam_tag = set(), set()
        for d in decls.values():
            i = strip(d.get("i")) if "i" in d else None
            if isinstance(i, dict) and i.get("k") == "lambda":
                if any(is_call(c, name="set") and is_field(strip(c.get("o")), "m_alloc_env") for c in walk(i.get("b"))):
                    lam_alloc.add(d["id"])
                if any(is_call(c, name="set") and is_field(strip(c.get("o")), "m_tag_env") for c in walk(i.get("b"))):
                    lam_tag.add(d["id"])

        def gen(x):
            out = []
            if is_call(x, name="set") and is_field(strip(x.get("o")), "m_alloc_env"):
                out.append("alloc")
            if is_call(x, name="set") and is_field(strip(x.get("o")), "m_tag_env"):
                out.append("tag")
            if is_call(x, name="set") and is_field(strip(x.get("o")), "m_rgn_env"):
                out.append("commit")
            if x.get("k") == "call" and x.get("op") == "()" and isinstance(strip(x.get("o")), dict):
                if strip(x["o"]).get("id") in lam_alloc:
                    out.append("alloc")
                if strip(x["o"]).get("id") in lam_tag:
                    out.append("tag")
            return out

        def refine(cond, pol):
            c = strip(cond)
            if is_call(c, name="region_allocation_sites") and not pol:
                return ("alloc",)
            if is_call(c, name="region_tag_analysis") and not pol:
                return ("tag",)
            if is_call(c, name="is_reference") and not pol:
                return ("alloc",)
            if is_call(c, name="is_variable") and not pol:
                return ("alloc", "tag")
            if is_call(c, name="is_reference_null") and pol:
                return ("alloc",)
            return ()
        fl = paths.MustEvents(gen, refine=refine)
        try:
            fl.run(body)
        except paths.Unstructured:
            ctx.undecided("ref_store: unstructured control flow", fn, body)
            continue
        n += 1
        miss = [(r, st) for r, st in fl.returns if "commit" in st and not ("alloc" in st and "tag" in st)]
        if miss:
            r, st = miss[0]
            what = "allocation sites" if "alloc" not in st else "tags"
            ctx.bad("region_domain::ref_store records the new state of the region on a path that never adds the %s of the stored value to "
                    "the region (a store whose write into the contents is skipped): an unknown region holding a reference allocated at "
                    "as_1, store of a reference allocated at as_2, then a load reports the sites {as_1}" % what, fn, r if r is not None else body,
                    sig="store-skips-%s" % ("alloc-sites" if "alloc" not in st else "tags"))
        else:
            ctx.ok("every committing path of ref_store updates the region's sites and tags", fn, body)
    if n == 0:
        ctx.fail("rule C15.r12: ref_store not decided")


RULES += [r12_store_updates_sites_and_tags]


def r13_region_copy_overwrites_contents(ctx):
    ctx.rule("C15.r13", "region_copy(lhs, rhs): on every non-bottom path the contents of lhs (its ghost variables) are assigned / expanded "
             "from rhs or forgotten - the early return for an untracked rhs must not leave the old contents of lhs in place", floor=1)
    n = 0
    for fn in _fns(ctx, "region_copy")[:1]:
        body = fn["body"]
        decls = local_decls(body)

        alldecls = {d.get("id"): d for d in walk(body) if isinstance(d, dict) and d.get("k") == "decl"}

        def mentions_lhs(e, depth=0):
            for y in walk(e):
                if isinstance(y, dict) and y.get("k") == "ref":
                    if is_param(y, fn, 0):
                        return True
                    if y.get("rk") == "local" and depth < 2:
                        d = decls.get(y.get("id")) or alldecls.get(y.get("id"))
                        if d is not None and "i" in d and mentions_lhs(d["i"], depth + 1):
                            return True
            return False

        def gen(x):
            if is_call(x, name=("forget", "assign", "expand", "forget_region_ghost_vars")):
                if (x.get("o") is not None and mentions_lhs(x["o"])) or any(mentions_lhs(a) for a in x.get("a", [])[:1] if is_call(x, name="forget_region_ghost_vars")):
                    return ("contents",)
                # base_rhs.expand(m_base_dom, base_lhs): the destination is the last argument
                if is_call(x, name="expand") and x.get("a") and mentions_lhs(x["a"][-1]):
                    return ("contents",)
            return ()

        def refine(cond, pol):
            if is_call(strip(cond), name="is_bottom") and pol:
                return ("contents",)
            # `if (optional gvars = get_gvars(lhs)) forget`: without ghost variables there are no contents to forget
            if not pol:
                for y in walk(cond):
                    if isinstance(y, dict) and y.get("k") == "ref" and y.get("rk") == "local":
                        d = alldecls.get(y.get("id"))
                        if d is not None and "i" in d and any(is_call(c, name="get_gvars") for c in walk(d["i"])) and mentions_lhs(d["i"]):
                            return ("contents",)
            return ()
        fl = paths.MustEvents(gen, refine=refine)
        try:
            fl.run(body)
        except paths.Unstructured:
            ctx.undecided("region_copy: unstructured control flow", fn, body)
            continue
        n += 1
        miss = [(r, st) for r, st in fl.returns if "contents" not in st]
        if miss:
            r = miss[0][0]
            ctx.bad("region_domain::region_copy can return without assigning or forgetting the contents of the destination region (the source "
                    "is untracked): U2 holds 5, U2 := region_copy(U1) with U1 fresh, *q := 7 through a new reference of U2, x := *q gives "
                    "x = 5", fn, r if r is not None else body, sig="region-copy-stale-contents")
        else:
            ctx.ok("region_copy assigns or forgets the contents of lhs on every path", fn, body)
    if n == 0:
        ctx.fail("rule C15.r13: region_copy not decided")


def r14_intrinsic_outputs_redefined(ctx):
    ctx.rule("C15.r14", "region intrinsics with an output Boolean (is_unfreed_or_null, does_not_have_tag, is_dereferenceable): every path "
             "through the handler redefines the output (sets it to true) or forgets it - also when the answer is unknown and when the "
             "analysis is switched off by its parameter; a stale output makes `b := false; b := is_...(..); assume(b)` bottom", floor=3)
    fs = _fns(ctx, "intrinsic")
    n = 0
    for fn in fs[:1]:
        body = fn["body"]
        decls = local_decls(body)
        setters = {d["id"] for d in decls.values() if isinstance(strip(d.get("i")), dict) and strip(d["i"]).get("k") == "lambda" and
                   any((c.get("k") == "call" and c.get("op") == "-=") or is_call(c, name=("assume_bool", "operator-=")) for c in walk(strip(d["i"]).get("b")))}
        for iff in [x for x in walk(body) if x.get("k") == "if"]:
            c = iff.get("c")
            lits = [y.get("v") for y in walk(c) if isinstance(y, dict) and y.get("k") in ("lit", "str") and isinstance(y.get("v"), str)]
            name = next((nm for nm in ("is_unfreed_or_null", "does_not_have_tag", "is_dereferenceable") if any(nm in (l or "") for l in lits) and
                         not any(("\"un" in (l or "")) for l in lits)), None)
            if name is None or any("unfreed_or_null" in (l or "") and "is_unfreed_or_null" not in (l or "") for l in lits):
                continue

            def gen(x):
                if x.get("k") == "call" and (x.get("op") == "-=" or (callee(x) or {}).get("name") == "operator-=") and \
                        (x.get("o") is None or is_this(strip(x.get("o")))):
                    return ("out",)
                if x.get("k") == "call" and x.get("op") == "()" and isinstance(strip(x.get("o")), dict) and strip(x["o"]).get("id") in setters:
                    return ("out",)
                return ()
            fl = paths.MustEvents(gen)
            orig_loop = fl._loop

            def _loop(nd, st, orig_loop=orig_loop):
                out = orig_loop(nd, st)
                # `for (out : outputs) operator-=(out);` forgets every output there is
                if nd.get("k") == "rangefor" and out is not None and any(is_param(y, fn, 2) for y in walk(nd.get("r")) if isinstance(y, dict) and y.get("k") == "ref") \
                        and any(gen(c) for c in walk(nd.get("b")) if isinstance(c, dict)):
                    out = out | frozenset(["out"])
                return out
            fl._loop = _loop
            try:
                fl.run(iff.get("t"))
            except paths.Unstructured:
                ctx.undecided("intrinsic %s: unstructured control flow" % name, fn, iff)
                continue
            n += 1
            exits = [st for r, st in fl.returns]
            if exits and all("out" in st for st in exits):
                ctx.ok("%s: the output is set or forgotten on every path" % name, fn, iff)
            else:
                ctx.bad("region_domain::intrinsic(`%s`) has a path that leaves the output Boolean untouched (unknown answer, or the "
                        "analysis switched off): b := false; b := %s(..); assume(b) makes the state bottom although b is true concretely"
                        % (name, name), fn, iff, sig="intrinsic-output-stale:%s" % name)
    if n == 0:
        ctx.fail("rule C15.r14: no region intrinsic with an output found")


def r15_store_never_marks_uninitialised(ctx):
    ctx.rule("C15.r15", "ref_store never records the region as UNINITIALISED (init = false) in the state it commits: after a store the "
             "region has been written, and `uninitialised` lets the next store through another reference be a strong update", floor=1)
    for fn in _fns(ctx, "ref_store")[:1]:
        body = fn["body"]
        bad = None
        for x in walk(body):
            lhs = rhs = None
            if x.get("k") == "asg":
                lhs, rhs = x.get("L"), x.get("R")
            elif x.get("k") == "call" and x.get("op") == "=" and "o" in x and x.get("a"):
                lhs, rhs = x["o"], x["a"][0]
            if lhs is not None and is_call(strip(lhs), name="init_val") and any(is_call(y, name="get_false") for y in walk(rhs)):
                bad = x
        if bad is not None:
            ctx.bad("region_domain::ref_store commits a region state with init = false (`%s`): *r1 := 5; *r2 := a; *r3 := b in an unknown region "
                    "makes the third store strong and p := *r2 reports the allocation site of b only" % src(bad)[:50], fn, bad,
                    sig="store-marks-uninitialised")
        else:
            ctx.ok("ref_store never sets init to false", fn, body)


def r16_copies_install_own_type_function(ctx):
    ctx.rule("C15.r16", "region_domain: every constructor / assignment that takes a ghost-variable manager from another abstract state "
             "(copy, move, the private constructor used by the lattice operations) installs its own type function; the function captures "
             "`this`, so a copied one resolves dynamic types in the other state - or in freed memory", floor=4)
    n = 0
    seen = set()
    for fn in ctx.db.fns(RD, cpk=RC):
        if not fn.get("body") or (fn["name"], fn["line"]) in seen:
            continue
        psig = fn.get("psig") or ""
        takes = ("region_domain" in psig and (fn.get("ctor") or fn["name"] == "operator=")) or (fn.get("ctor") and "ghost_var" in psig)
        if not takes:
            continue
        seen.add((fn["name"], fn["line"]))
        copies = any(i.get("field") == "m_ghost_var_man" and i.get("e") is not None and any(isinstance(y, dict) and y.get("k") == "ref" and y.get("rk") == "param" for y in walk(i["e"]))
                     for i in fn.get("inits", [])) or \
            any((x.get("k") in ("asg",) or (x.get("k") == "call" and x.get("op") == "=")) and any(is_field(y, "m_ghost_var_man") for y in walk(x)) for x in walk(fn["body"]))
        if not copies:
            continue
        n += 1
        if any(is_call(c, name="set_type_fn") for c in walk(fn["body"])):
            ctx.ok("%s installs its own type function" % fn["name"], fn, fn["body"])
        else:
            ctx.bad("region_domain::%s takes the ghost-variable manager of another abstract state and keeps its type function, which refers to "
                    "that state: a copy in which an unknown region is re-interpreted builds ghost variables from the ORIGINAL's dynamic type" %
                    fn["name"], fn, fn["body"], sig="foreign-type-function:%s:%d" % (fn["name"], len(fn.get("params", []))))
    if n == 0:
        ctx.fail("rule C15.r16: no copying constructor / assignment of region_domain found")


RULES += [r13_region_copy_overwrites_contents, r14_intrinsic_outputs_redefined, r15_store_never_marks_uninitialised, r16_copies_install_own_type_function]


def r17_array_ghost_copied_as_array(ctx):
    ctx.rule("C15.r17", "ghost_variables::assign copies the ghost of an ARRAY region with array_assign (guarded by an is_array test); a "
             "numerical assign of two array variables leaves the destination's cells as they were", floor=1)
    GV = "include/crab/domains/region/ghost_variables.hpp"
    fs = [f for f in ctx.db.fns(GV, name="assign") if (f.get("cpk") or "").endswith("ghost_variables") and f.get("body") and len(f.get("params", [])) == 2]
    if not ctx.need(fs, "ghost_variables::assign"):
        return
    fn = fs[0]
    body = fn["body"]
    g = paths.guards(body)
    arr = [c for c in walk(body) if is_call(c, name="array_assign")]
    okc = [c for c in arr if guard_truth(g.get(id(c), ()), lambda x: 1 if is_call(strip(x), name="is_array") else 0, body) is True]
    plain = [c for c in walk(body) if is_call(c, name="assign") and c.get("o") is not None and is_param(strip(c["o"]), fn, 0) and len(c.get("a", [])) == 2]
    leak = [c for c in plain if guard_truth(g.get(id(c), ()), lambda x: 1 if is_call(strip(x), name="is_array") else 0, body) is not False]
    if okc and not leak:
        ctx.ok("array ghosts are copied with array_assign, scalar ones with assign", fn, okc[0])
    else:
        ctx.bad("ghost_variables::assign copies the ghost variable of an array region with the numerical `assign`: R2[0] := 5; R1[0] := 7; "
                "R2 := region_copy(R1); x := R2[0] gives x = 5", fn, (leak or plain or [body])[0], sig="array-ghost-scalar-assign")


RULES += [r17_array_ghost_copied_as_array]


def r18_copy_keeps_destination_references(ctx):
    ctx.rule("C15.r18", "region_copy / region_cast: the reference counter recorded for the destination takes the references the destination "
             "ALREADY has into account (it is read from m_rgn_env.at(dst) and joined) - copying the source's counter makes two earlier "
             "references of the destination look like one and both later stores through them strong updates", floor=2)
    n = 0
    for opname, dst_idx in (("region_copy", 0), ("region_cast", 1)):
        for fn in _fns(ctx, opname)[:1]:
            body = fn["body"]
            n += 1
            dst = lambda e: any(is_param(y, fn, dst_idx) for y in walk(e) if isinstance(y, dict) and y.get("k") == "ref")
            reads = [c for c in walk(body, into_lambdas=True) if is_call(c, name="refcount_val") and
                     any(is_call(y, name="at") and is_field(strip(y.get("o")), "m_rgn_env") and y.get("a") and dst(y["a"][0]) for y in walk(c.get("o")))]
            # also through a local that was initialised from m_rgn_env.at(dst)
            decls = {d.get("id"): d for d in walk(body, into_lambdas=True) if isinstance(d, dict) and d.get("k") == "decl" and "i" in d}
            for c in walk(body, into_lambdas=True):
                if is_call(c, name="refcount_val") and isinstance(strip(c.get("o")), dict) and strip(c["o"]).get("k") == "ref":
                    d = decls.get(strip(c["o"]).get("id"))
                    if d is not None and any(is_call(y, name="at") and is_field(strip(y.get("o")), "m_rgn_env") and y.get("a") and dst(y["a"][0]) for y in walk(d["i"])):
                        reads.append(c)
            joins = [c for c in walk(body, into_lambdas=True) if c.get("k") == "call" and c.get("op") in ("|", "|=") and
                     any(is_call(y, name="refcount_val") for y in walk(c))]
            if reads and joins:
                ctx.ok("%s reads the destination's counter and joins it" % opname, fn, reads[0])
            else:
                ctx.bad("region_domain::%s records the SOURCE's reference counter for the destination without looking at the references the "
                        "destination already has: a, b := make_ref(R2); c := make_ref(R1); R2 := copy(R1); *a := 1; *b := 2; x := *a gives "
                        "x = 2" % opname, fn, body, sig="copy-overwrites-refcount:%s" % opname)
    if n == 0:
        ctx.fail("rule C15.r18: region_copy / region_cast not found")


RULES += [r18_copy_keeps_destination_references]
