"""Rules over basic_block / cfg edge bookkeeping (C17.r6, C17.r7) and the
reversed views (C11.r8)."""
from ..tree import (walk, strip, is_call, is_ref, is_this, is_field, deref, src, obj, args, callee)
from .. import paths
from ..match import (strip_move, is_param, rets, nodes_not_in_log, resolve_local, local_decls, cmp_parts, guard_truth)
from ._containers import field_writes

VEC_MUTATORS = {"push_back", "emplace_back", "pop_back", "erase", "insert", "emplace", "clear", "resize", "assign", "swap",
                "operator=", "reserve_and_assign"}
CFG = "include/crab/cfg/cfg.hpp"
BB = "crab::cfg::basic_block"
CFGC = "crab::cfg::cfg"


def edge_symmetry_rule(ctx, rid):
    """m_next / m_prev of a block are written only through insert_adjacent /
    remove_adjacent (and by clone); add_succ and operator-= update both
    directions with mirrored arguments"""
    n_w = 0
    for fn in ctx.db.fns(CFG):
        if "ikos::z_number" not in (fn.get("cls") or fn.get("qn") or ""):
            pass
        for n in walk(fn["body"]):
            # a write = non-const member call on the field, assignment, or passing it by reference to insert/remove_adjacent
            if n.get("k") == "call" and "o" in n and is_field(n["o"]) and deref(n["o"]).get("n") in ("m_next", "m_prev") \
                    and deref(n["o"]).get("cls") == BB and callee(n) and callee(n)["name"] in VEC_MUTATORS:
                n_w += 1
                if fn.get("cpk") == BB and fn["name"] in ("clone",):
                    ctx.ok("%s written by basic_block::clone" % deref(n["o"])["n"], fn, n, rid=rid)
                else:
                    ctx.bad("`%s` writes an adjacency list directly in %s (edges must be changed through add_succ / operator-= so "
                            "that successor and predecessor lists stay symmetric)" % (src(n), fn["pk"]), fn, n,
                            sig="edge-direct-write:%s" % fn["pk"], rid=rid)
            if n.get("k") == "asg" and is_field(n.get("L")) and deref(n["L"]).get("n") in ("m_next", "m_prev") and deref(n["L"]).get("cls") == BB:
                n_w += 1
                ctx.bad("`%s` overwrites an adjacency list in %s" % (src(n), fn["pk"]), fn, n, sig="edge-direct-asg:%s" % fn["pk"], rid=rid)
    for name, helper in (("add_succ", "insert_adjacent"), ("operator-=", "remove_adjacent")):
        fs = [f for f in ctx.db.fns(CFG, pk=BB + "::" + name) if len(f.get("params", [])) == 1 and "basic_block" in f["params"][0]["T"]]
        if not ctx.need(fs, "basic_block::" + name, rid):
            continue
        for fn in fs:
            calls = [n for n in walk(fn["body"]) if is_call(n, name=helper)]
            sides = set()
            for c in calls:
                a = c.get("a", [])
                if len(a) != 2:
                    continue
                lst, lab = deref(a[0]), deref(a[1])
                if not (isinstance(lst, dict) and lst.get("k") == "mem" and isinstance(lab, dict) and lab.get("k") == "mem"):
                    continue
                lst_this = is_this(lst.get("b"))
                lab_this = is_this(lab.get("b"))
                if lst.get("n") == "m_next" and lst_this and lab.get("n") == "m_bb_id" and not lab_this:
                    sides.add("next")
                elif lst.get("n") == "m_prev" and not lst_this and lab.get("n") == "m_bb_id" and lab_this:
                    sides.add("prev")
                else:
                    sides.add("bad:" + src(c))
            if sides == {"next", "prev"}:
                ctx.ok("%s: %s(m_next, b.id) and %s(b.m_prev, id)" % (name, helper, helper), fn, None, rid=rid)
            else:
                ctx.bad("basic_block::%s must update both directions of the edge (this.m_next with b's label, b.m_prev with this "
                        "label); found %s" % (name, sorted(sides)), fn, fn["body"], sig="edge-asym:%s" % name, rid=rid)
    if n_w == 0:
        ctx.fail("rule %s: no writer of m_next/m_prev found" % rid)


def entry_exit_rule(ctx, rid):
    """cfg::remove refuses entry and exit; remove() disconnects every incident
    edge through operator-= before erasing; merge redirects exit first;
    unreachable / useless removal skip exit / entry"""
    fs = [f for f in ctx.db.fns(CFG, pk=CFGC + "::remove") if len(f.get("params", [])) == 1]
    ctx.need(fs, "cfg::remove", rid)
    for fn in fs:
        body = fn["body"]

        def gen(n):
            out = []
            if n.get("k") == "do" and paths.terminates(n):
                return ()
            return out
        g = paths.guards(body)
        # error exits guarded by bb_id == m_entry and *m_exit == bb_id
        errs = [n for n in walk(body) if n.get("k") == "do" and paths.terminates(n)]
        conds = []
        for e in errs:
            for cond, pol in g.get(id(e), ()):
                if not isinstance(cond, tuple):
                    conds.append(src(cond))
        has_entry = any("m_entry" in c for c in conds)
        has_exit = any("m_exit" in c for c in conds)
        if has_entry and has_exit:
            ctx.ok("cfg::remove refuses the entry and the exit block", fn, errs[0], rid=rid)
        else:
            ctx.bad("cfg::remove no longer refuses to remove the %s block" % ("entry" if not has_entry else "exit"), fn, body,
                    sig="remove-guards", rid=rid)
        # edges: both prev and next loops feed operator-=
        loops = [l for l in walk(body) if l.get("k") == "rangefor"]
        dirs = set()
        for l in loops:
            r = l.get("r")
            if any(is_call(x, name="prev_blocks") for x in walk(r)):
                dirs.add("prev")
            if any(is_call(x, name="next_blocks") for x in walk(r)):
                dirs.add("next")
        cuts = [n for n in walk(body) if n.get("k") == "call" and n.get("op") == "-="]
        er = [n for n in walk(body) if is_call(n, name="erase") and is_field(obj(n), "m_blocks")]
        if dirs == {"prev", "next"} and cuts and er:
            order = [x for x in walk(body) if x is cuts[0] or x is er[0]]
            if order[0] is cuts[0]:
                ctx.ok("remove: incoming and outgoing edges cut with operator-= before the block is erased", fn, cuts[0], rid=rid)
            else:
                ctx.bad("cfg::remove erases the block before cutting its edges", fn, er[0], sig="remove-order", rid=rid)
        else:
            ctx.bad("cfg::remove must cut both the incoming and the outgoing edges of the block (found %s)" % sorted(dirs), fn, body,
                    sig="remove-edges", rid=rid)
    for fn in ctx.db.fns(CFG, pk=CFGC + "::merge_blocks_rec"):
        body = fn["body"]

        def gen(n):
            if is_call(n, name="set_exit"):
                return ("set_exit",)
            return ()
        f = paths.must_events(body, gen)
        rms = [n for n in walk(body) if is_call(n, name="remove") and is_this(n.get("o"))]
        g = paths.guards(body)
        for r in rms:
            # on the path where exit()==curId, set_exit precedes: check that an `if (has_exit() && exit()==curId) set_exit(...)`
            # statement precedes the remove in the same block
            se = [n for n in walk(body) if is_call(n, name="set_exit")]
            order = [x for x in walk(body) if (se and x is se[0]) or x is r]
            if se and order[0] is se[0]:
                cg = " ".join(src(c) for c, p in g.get(id(se[0]), ()) if not isinstance(c, tuple))
                if "exit()" in cg:
                    ctx.ok("merge: exit redirected to the parent before the merged block is removed", fn, se[0], rid=rid)
                else:
                    ctx.bad("set_exit in merge_blocks_rec is not guarded by exit() == curId", fn, se[0], sig="merge-exit-guard", rid=rid)
            else:
                ctx.bad("merge_blocks_rec removes a block without first redirecting the CFG exit when the block is the exit",
                        fn, r, sig="merge-exit-order", rid=rid)
    for name, keep in (("remove_unreachable_blocks", "exit"), ("remove_useless_blocks", "entry")):
        for fn in ctx.db.fns(CFG, pk=CFGC + "::" + name):
            body = fn["body"]
            g = paths.guards(body)
            rms = [n for n in walk(body) if is_call(n, name="remove") and is_this(n.get("o"))]
            for r in rms:
                cg = [(src(c), p) for c, p in g.get(id(r), ()) if not isinstance(c, tuple)]
                if any((keep + "()") in c and p is False for c, p in cg):
                    ctx.ok("%s never removes the %s block" % (name, keep), fn, r, rid=rid)
                else:
                    ctx.bad("%s can pass the %s block to remove()" % (name, keep), fn, r, sig="%s-keeps-%s" % (name, keep), rid=rid)


# ------------------------------------------------------------------ C11.r8
MIRROR = {
    "crab::cfg::cfg_rev": {"next_nodes": "prev_nodes", "prev_nodes": "next_nodes", "entry": "exit", "exit": "entry"},
    "crab::cfg::basic_block_rev": {"begin": "rbegin", "end": "rend", "rbegin": "begin", "rend": "end",
                                   "next_blocks": "prev_blocks", "prev_blocks": "next_blocks"},
}


def mirror_rule(ctx, rid):
    for cpk, table in MIRROR.items():
        for name, target in table.items():
            fs = ctx.db.fns(CFG, pk=cpk + "::" + name)
            if not fs:
                continue
            for fn in fs:
                calls = [callee(n)["name"] for n in walk(fn["body"]) if n.get("k") == "call" and callee(n) and "o" in n and
                         (is_field(n["o"]) or is_call(strip(n["o"]), name=("get", "get_node")))]
                calls = [c for c in calls if c in table or c in table.values()]
                if calls and all(c == target for c in calls):
                    ctx.ok("%s::%s -> %s" % (cpk.split("::")[-1], name, target), fn, None, rid=rid)
                elif not calls:
                    ctx.undecided("%s::%s does not call a mirrored operation" % (cpk, name), fn, fn["body"], rid=rid, reference_decided=False)
                else:
                    ctx.bad("%s::%s forwards to %s; the reversed view must forward to %s" % (cpk, name, sorted(set(calls)), target),
                            fn, fn["body"], sig="mirror:%s::%s" % (cpk, name), rid=rid)
