"""Rules over the environment containers (separate_domains.hpp,
patricia_trees.hpp) and over copy operations of domain classes."""
import os

from ..tree import (walk, walk_with_parents, strip, is_call, is_ref, is_this, is_field, deref, same_expr,
                    src, obj, args, callee)
from .. import paths
from ..match import (strip_move, is_param, rets, nodes_not_in_log, resolve_local, guard_truth, cmp_parts,
                     local_decls, writes_to, ASSIGN_OPS)

SEP = "include/crab/domains/separate_domains.hpp"
PAT = "include/crab/domains/patricia_trees.hpp"


# ---------------------------------------------------------------- C19.r1
def _is_top_atom(val):
    def atom(c):
        c = strip(c)
        if is_call(c, name="is_top") and same_expr(obj(c), val):
            return 1
        return 0
    return atom


def top_never_stored(ctx, rid):
    """every _tree.insert(k, v) in the environment maps is guarded by
    !v.is_top() on the same value; join-like binary_op::apply return the empty
    optional under z.is_top()"""
    n_sites = 0
    for fn in ctx.db.fns(SEP):
        cpk = fn.get("cpk") or ""
        if not (cpk.startswith("ikos::separate_domain") or cpk.startswith("ikos::separate_discrete_domain")):
            continue
        body = fn["body"]
        ins = [n for n, ps in nodes_not_in_log(body, lambda x: is_call(x, name="insert") and len(x.get("a", [])) == 2 and
                                               is_field(obj(x)) and deref(obj(x)).get("n") in ("_tree", "m_tree"))]
        if not ins:
            continue
        g = paths.guards(body)
        for i in ins:
            n_sites += 1
            val = strip_move(i["a"][1])
            simple = isinstance(val, dict) and (val.get("k") == "ref" or
                                                (val.get("k") == "call" and val.get("op") == "*" and not val.get("a")) or
                                                (val.get("k") == "un" and val.get("op") == "*"))
            if not simple:
                ctx.bad("%s::%s stores the computed value `%s` in the map without testing it for top: a top binding breaks "
                        "is_top(), iteration and the inclusion test (top <= d answers false)" %
                        (cpk.split("::")[-1], fn["name"], src(val)), fn, i, sig="insert-unchecked:%s" % fn["name"], rid=rid)
                continue
            t = guard_truth(g.get(id(i), ()), _is_top_atom(val), body)
            if t is False:
                ctx.ok("%s::%s inserts `%s` only under !is_top()" % (cpk.split("::")[-1], fn["name"], src(val)), fn, i, rid=rid)
            else:
                ctx.bad("%s::%s inserts `%s` without a preceding `%s.is_top()` test" %
                        (cpk.split("::")[-1], fn["name"], src(val), src(val)), fn, i, sig="insert-unguarded:%s" % fn["name"], rid=rid)
    # binary_op::apply of join-like operators
    for fn in ctx.db.fns(SEP, name="apply"):
        cpk = fn.get("cpk") or ""
        opname = cpk.split("::")[-1]
        if not opname.endswith("_op"):
            continue
        if not ("join" in opname or "widening" in opname):
            continue
        body = fn["body"]
        g = paths.guards(body)
        for r in rets(body):
            n_sites += 1
            v = strip(r.get("v"))
            # {flag, optional<Value>(z)} : find a non-empty optional construction
            payload = None
            for x in walk(v):
                if x.get("k") == "ctor" and "optional" in (callee(x) or {}).get("cpk", "") and x.get("a"):
                    a0 = strip_move(x["a"][0])
                    if isinstance(a0, dict) and a0.get("k") == "ref":
                        payload = a0
            if payload is None:
                ctx.ok("%s::apply returns the empty optional (binding dropped)" % opname, fn, r, rid=rid)
                continue
            t = guard_truth(g.get(id(r), ()), _is_top_atom(payload), body)
            if t is False:
                ctx.ok("%s::apply returns `%s` only under !is_top()" % (opname, src(payload)), fn, r, rid=rid)
            else:
                ctx.bad("%s::apply hands `%s` back to the tree without the `is_top()` test: joins that reach top would be stored"
                        % (opname, src(payload)), fn, r, sig="apply-unguarded:%s" % opname, rid=rid)
    if n_sites == 0:
        ctx.fail("rule %s: no insert site found in separate_domains.hpp" % rid)


# ---------------------------------------------------------------- C19.r2
def default_flags(ctx, rid):
    """default_is_absorbing() agrees with the operator used in apply and with
    the container default (top): join-like => absorbing, meet-like => not."""
    fs = ctx.db.fns([SEP, PAT, "include/crab/domains/discrete_domains.hpp"], name="default_is_absorbing")
    ctx.need(fs, "default_is_absorbing overrides", rid)
    seen = set()
    for fn in fs:
        cpk = fn.get("cpk") or ""
        key = (cpk, fn.get("targs"))
        rs = rets(fn["body"])
        if len(rs) != 1 or strip(rs[0].get("v")).get("k") != "lit":
            ctx.undecided("default_is_absorbing is not a literal", fn, fn["body"], rid=rid)
            continue
        flag = strip(rs[0]["v"])["v"] == "true"
        # sibling apply in the same class instantiation
        ap = [a for a in ctx.db.fns(fn["file"], name="apply") if a.get("cls") == fn.get("cls")]
        if not ap:
            ctx.undecided("no sibling apply for %s" % cpk, fn, fn["body"], rid=rid, reference_decided=False)
            continue
        ops = set()
        for a in ap:
            for n in walk(a["body"]):
                if n.get("k") == "call" and callee(n):
                    nm = callee(n)["name"]
                    if nm in ("operator|", "operator||", "widening_thresholds"):
                        ops.add("join")
                    elif nm in ("operator&", "operator&&"):
                        ops.add("meet")
        opname = cpk.split("::")[-1]
        if opname == "insert_op":
            continue    # replaces the binding; never used by merge_with, the flag is irrelevant
        if not ops:
            # set-like containers (union_op / intersection_op) decided by name table
            if "union" in opname or "join" in opname:
                ops.add("join")
            elif "intersection" in opname or "meet" in opname:
                ops.add("meet")
        if len(ops) != 1:
            ctx.undecided("cannot classify %s::apply as join-like or meet-like" % cpk, fn, fn["body"], rid=rid, reference_decided=False)
            continue
        kind = ops.pop()
        # container default: read from the sibling partial order of the enclosing class
        outer = "::".join(cpk.split("::")[:-1])
        po = [p for p in ctx.db.fns(fn["file"], name="default_is_top") if (p.get("cpk") or "").startswith(outer + "::")]
        default_top = True
        for p in po:
            prs = rets(p["body"])
            if len(prs) == 1 and strip(prs[0].get("v")).get("k") == "lit":
                default_top = strip(prs[0]["v"])["v"] == "true"
        want = (kind == "join") if default_top else (kind == "meet")
        if flag == want:
            ctx.ok("%s: %s-like, default %s => default_is_absorbing() = %s" % (opname, kind, "top" if default_top else "bottom", flag), fn, rs[0], rid=rid)
        else:
            ctx.bad("%s::default_is_absorbing() returns %s but the operator is %s-like over a map whose missing bindings are %s: "
                    "bindings present on one side only would be %s" %
                    (cpk, str(flag).lower(), kind, "top" if default_top else "bottom",
                     "kept although the other side is top" if kind == "join" else "dropped although top is neutral for meet"),
                    fn, rs[0], sig="absorbing-flag:%s" % cpk, rid=rid)
        seen.add(key)


# ---------------------------------------------------------------- C19.r4
def set_shape(ctx, rid):
    """separate_domain::set: bottom guard first; v bottom -> set_to_bottom,
    v top -> remove, else insert.  operator-= only removes.  rename inserts the
    new key before removing the old one."""
    fs = [f for f in ctx.db.fns(SEP, pk="ikos::separate_domain::set")]
    ctx.need(fs, "separate_domain::set", rid)
    for fn in fs:
        body = fn["body"]
        g = paths.guards(body)
        val = {"k": "ref", "id": fn["params"][1]["id"], "n": fn["params"][1]["n"], "rk": "param"}

        def bot_atom(c):
            c = strip(c)
            if is_call(c, name="is_bottom") and same_expr(obj(c), val):
                return 1
            return 0

        def this_bot(c):
            c = strip(c)
            if is_call(c, name="is_bottom") and is_this(c.get("o")):
                return 1
            return 0
        good = True
        muts = [n for n, ps in nodes_not_in_log(body, lambda x: is_call(x, name=("insert", "remove", "set_to_bottom")))]
        for m in muts:
            gs = g.get(id(m), ())
            if guard_truth(gs, this_bot, body) is not False:
                ctx.bad("separate_domain::set mutates a bottom environment (`%s` not under !is_bottom())" % src(m), fn, m,
                        sig="set-bottom-guard", rid=rid)
                good = False
            nm = callee(m)["name"]
            tb = guard_truth(gs, bot_atom, body)
            tt = guard_truth(gs, _is_top_atom(val), body)
            want = {"set_to_bottom": (True, None), "remove": (False, True), "insert": (False, False)}[nm]
            if nm == "set_to_bottom" and tb is not True:
                ctx.bad("set(): set_to_bottom() outside the `v.is_bottom()` case", fn, m, sig="set-shape-bottom", rid=rid)
                good = False
            if nm == "remove" and not (tt is True):
                ctx.bad("set(): the binding is removed outside the `v.is_top()` case", fn, m, sig="set-shape-remove", rid=rid)
                good = False
            if nm == "insert" and not (tb is False):
                ctx.bad("set(): a bottom value is stored instead of making the environment bottom", fn, m, sig="set-shape-insert", rid=rid)
                good = False
        names = set(callee(m)["name"] for m in muts)
        if not {"insert", "remove", "set_to_bottom"} <= names:
            ctx.bad("set() lost one of its three cases (bottom -> set_to_bottom, top -> remove, else insert): has %s" % sorted(names),
                    fn, body, sig="set-shape-cases", rid=rid)
            good = False
        if good:
            ctx.ok("set(): !is_bottom() ? (v bottom -> set_to_bottom | v top -> remove | insert)", fn, body, rid=rid)
    for pk in ("ikos::separate_domain::rename", "ikos::separate_discrete_domain::rename"):
        for fn in ctx.db.fns(SEP, pk=pk):
            body = fn["body"]

            def gen(n):
                if is_call(n, name="insert") and len(n.get("a", [])) == 2 and is_field(obj(n)):
                    return ("inserted",)
                return ()
            f = paths.must_events(body, gen)
            rm = [n for n, ps in nodes_not_in_log(body, lambda x: is_call(x, name="remove") and is_field(obj(x)))]
            ins = [n for n, ps in nodes_not_in_log(body, lambda x: is_call(x, name="insert") and len(x.get("a", [])) == 2 and is_field(obj(x)))]
            if not rm or not ins:
                ctx.bad("%s must insert the value under the new key and remove the old key" % pk, fn, body, sig="rename-shape:%s" % pk, rid=rid)
                continue
            # the removed key is the `from` element, the inserted key the `to` element
            d = local_decls(body)
            def origin(e):
                e = resolve_local(body, e, d)
                for x in walk(e):
                    if x.get("k") == "ref" and x.get("rk") == "param":
                        for i, p in enumerate(fn["params"]):
                            if p["id"] == x.get("id"):
                                return i
                return None
            ok_ = origin(rm[0]["a"][0]) == 0 and origin(ins[0]["a"][0]) == 1
            if ok_:
                ctx.ok("%s: insert(to[i], value(from[i])); remove(from[i])" % pk.split("::")[-2], fn, ins[0], rid=rid)
            else:
                ctx.bad("%s: inserted key comes from parameter %s and removed key from parameter %s; expected insert(to[i]) / remove(from[i])"
                        % (pk, origin(ins[0]["a"][0]), origin(rm[0]["a"][0])), fn, ins[0], sig="rename-keys:%s" % pk, rid=rid)
    for pk in ("ikos::separate_domain::operator-=", "ikos::separate_discrete_domain::operator-="):
        for fn in ctx.db.fns(SEP, pk=pk):
            body = fn["body"]
            rm = [n for n, ps in nodes_not_in_log(body, lambda x: is_call(x, name="remove") and is_field(obj(x)))]
            if len(rm) == 1 and is_param(rm[0]["a"][0], fn, 0):
                ctx.ok("operator-=: remove(k)", fn, rm[0], rid=rid)
            else:
                ctx.bad("%s does not remove exactly the given key" % pk, fn, body, sig="forget-shape:%s" % pk, rid=rid)


# ---------------------------------------------------------------- C16.r3 / C19.r3
NODE_CLASSES = ("ikos::patricia_trees_impl::tree", "ikos::patricia_trees_impl::node", "ikos::patricia_trees_impl::leaf")


def field_writes(fn, cls_pks):
    """nodes in fn that write a data member of one of the classes: assignment,
    compound assignment, ++/--, or a call of a non-const member function on
    the field"""
    out = []
    for n in walk(fn["body"]):
        k = n.get("k")
        tgt = None
        if k == "asg":
            tgt = n.get("L")
        elif k == "un" and n.get("op", "")[-2:] in ("++", "--"):
            tgt = n.get("e")
        elif k == "call" and "o" in n and callee(n) and not callee(n).get("const") and not callee(n).get("static"):
            tgt = n.get("o")
        if tgt is None:
            continue
        t = strip(tgt)
        if isinstance(t, dict) and t.get("k") == "mem" and "fn" not in t and t.get("cls") in cls_pks:
            out.append((n, t))
    return out


def tree_node_immutability(ctx, rid):
    classes = [c for c in ctx.db.classes(PAT) if c["pk"] in NODE_CLASSES]
    ctx.need(classes, "patricia tree node classes", rid)
    # (a) every method of tree/node/leaf is const (or a constructor / destructor)
    seen = set()
    for c in classes:
        for m in c["methods"]:
            key = (c["pk"], m["name"], m["psig"])
            if key in seen:
                continue
            seen.add(key)
            if m.get("ctor") or m["name"].startswith("~") or m.get("static") or m.get("deleted") or m.get("implicit"):
                continue
            if m["name"] == "operator=" and not m.get("hasbody"):
                ctx.ok("%s: copy assignment declared private and never defined" % c["pk"].split("::")[-1], rid=rid)
                continue
            if m.get("const"):
                ctx.ok("%s::%s is const" % (c["pk"].split("::")[-1], m["name"]), rid=rid)
            else:
                ctx.bad("%s::%s is a non-const member of a shared tree node: a mutator on nodes that several maps share breaks "
                        "persistence (copies of an environment would change together)" % (c["pk"], m["name"]),
                        {"pk": c["pk"], "qn": c["qn"], "file": c["file"], "line": m["l"]}, None,
                        sig="node-nonconst:%s::%s" % (c["pk"], m["name"]), rid=rid)
    # (b) fields of node/leaf written only in their constructors
    for fn in ctx.db.fns(PAT):
        ws = field_writes(fn, set(NODE_CLASSES))
        for n, t in ws:
            if fn.get("ctor") and fn.get("cpk") == t.get("cls"):
                ctx.ok("%s::%s written in its constructor" % (t["cls"].split("::")[-1], t["n"]), fn, n, rid=rid)
            else:
                ctx.bad("field %s::%s of a shared tree node is written outside its constructor by `%s`" %
                        (t["cls"], t["n"], src(n)), fn, n, sig="node-write:%s::%s" % (t["cls"], t["n"]), rid=rid)


# ---------------------------------------------------------------- C16.r5
COPY_EXEMPT = {
}


def copy_completeness(ctx, rid):
    """every user-provided copy/move constructor or assignment of a class under
    include/crab/domains transfers each non-static data member"""
    files = [f for f in ctx.db.files() if f.startswith("include/crab/domains/") or f.startswith("include/crab/types/")
             or f.startswith("include/crab/numbers/")]
    n = 0
    for f in files:
        classes = {}
        for c in ctx.db.classes(f, dependent=False):
            classes[c["qn"]] = c
        for fn in ctx.db.fns(f):
            kind = fn.get("ctor") if fn.get("ctor") in ("copy", "move") else None
            akind = fn.get("assignop")
            if not kind and not akind:
                continue
            if fn.get("defaulted") or fn.get("implicit"):
                continue
            c = classes.get(fn.get("cls"))
            if c is None:
                continue
            fields = [x for x in c["fields"] if not x.get("static")]
            if not fields:
                continue
            src_id = fn["params"][0]["id"] if fn.get("params") else None
            copied = {}
            if kind:
                for i in fn.get("inits", []):
                    if i.get("delegating"):
                        for x in fields:
                            copied[x["n"]] = True
                    fld = i.get("field")
                    if fld is None:
                        continue
                    e = i.get("e")
                    uses_src = any(x.get("k") == "mem" and x.get("n") == fld and isinstance(strip(x.get("b")), dict) and
                                   strip_move(x.get("b")).get("id") == src_id for x in walk(e))
                    if i.get("written") and uses_src:
                        copied[fld] = True
                    elif i.get("written"):
                        copied.setdefault(fld, "init-other:" + src(e))
            body = fn["body"]
            whole = False
            for x in walk(body):
                # this->f = o.f  /  f = std::move(o.f)  / f(o.f) via operator= call
                if x.get("k") == "asg" or (x.get("k") == "call" and x.get("op") in ASSIGN_OPS and "o" in x):
                    l = strip(x.get("L") if x.get("k") == "asg" else x.get("o"))
                    r = x.get("R") if x.get("k") == "asg" else (x["a"][0] if x.get("a") else None)
                    if isinstance(l, dict) and l.get("k") == "mem" and is_this(l.get("b")):
                        fld = l.get("n")
                        uses_src = any(y.get("k") == "mem" and y.get("n") == fld and isinstance(strip_move(y.get("b")), dict) and
                                       strip_move(y.get("b")).get("id") == src_id for y in walk(r))
                        if uses_src:
                            copied[fld] = True
                        else:
                            copied.setdefault(fld, "assigned-other:" + src(r))
                # swap(*this, o) / std::swap(f, o.f) idioms
                if x.get("k") == "call" and callee(x) and callee(x)["name"] == "swap":
                    aa = [strip_move(a) for a in x.get("a", [])] + ([strip(x["o"])] if "o" in x else [])
                    if any(is_this(a) for a in aa):
                        whole = True
                    for a in aa:
                        if isinstance(a, dict) and a.get("k") == "mem" and is_this(a.get("b")):
                            copied[a.get("n")] = True
                if x.get("k") == "call" and callee(x) and callee(x)["name"] in ("set_to_bottom", "set_to_top") and is_this(x.get("o")):
                    pass
            if whole:
                continue
            # a member also counts as transferred when the SOURCE's member is read anywhere in the operation
            # (deep copies through loops, `if (o._is_bottom) set_to_bottom(); else ...` idioms): what the rule
            # decides is the necessary condition "the copy depends on every member of the original"
            read_src = set()
            allnodes = list(walk(body)) + [y for i in fn.get("inits", []) for y in walk(i.get("e"))]
            for y in allnodes:
                if y.get("k") == "mem" and "fn" not in y:
                    b = strip_move(y.get("b"))
                    if isinstance(b, dict) and b.get("k") == "ref" and b.get("id") == src_id:
                        read_src.add(y.get("n"))
            calls_on_src = any(y.get("k") == "call" and "o" in y and isinstance(strip_move(y["o"]), dict) and
                               strip_move(y["o"]).get("id") == src_id for y in allnodes)
            for x in fields:
                n += 1
                st = copied.get(x["n"])
                if x["n"] in read_src:
                    st = True
                if st is not True and calls_on_src:
                    # the source is also accessed through its own member functions: which members those read is
                    # outside the fragment
                    ctx.skipped("%s|%s|%s|%s" % (rid, c["pk"], kind or akind, x["n"]), rid=rid)
                    continue
                what = "%s %s of %s" % ("copy" if (kind == "copy" or akind == "copy") else "move",
                                        "constructor" if kind else "assignment", c["pk"])
                key = "%s::%s" % (c["pk"], x["n"])
                if st is True:
                    ctx.ok("%s reads %s of the source" % (what, x["n"]), fn, None, rid=rid)
                elif key in COPY_EXEMPT:
                    ctx.exempt(key, COPY_EXEMPT[key], rid=rid)
                else:
                    ctx.bad("the %s never reads data member `%s` of the source%s: the copy cannot describe the same value as the original"
                            % (what, x["n"], "" if st is None else " (it is set from `%s`)" % st.split(":", 1)[1][:60]),
                            fn, fn["body"], sig="copy-missing:%s:%s:%s" % (c["pk"], kind or ("asg-" + akind), x["n"]), rid=rid)
    if n == 0:
        ctx.fail("rule %s: no user-provided copy operation found" % rid)


# ---------------------------------------------------------------- operator / merge-functor agreement
OP_KIND = {"operator|": "join", "operator|=": "join", "operator||": "join", "widening_thresholds": "join", "join": "join",
           "operator&": "meet", "operator&=": "meet", "operator&&": "meet", "meet": "meet"}
FUNCTOR_KIND = (("join", "join"), ("union", "join"), ("widening", "join"), ("meet", "meet"), ("intersection", "meet"), ("narrowing", "meet"))


def operator_functor_rule(ctx, rid, files):
    """`operator|` merges the two trees with a join-like functor (join_op / union_op / widening_op), `operator&` with a meet-like
    one: the functor classes differ only in default_is_absorbing(), so a swapped functor silently drops or keeps one-sided keys"""
    n = 0
    for f in files:
        if not ctx.db.has_file(f):
            continue
        for fn in ctx.db.fns(f):
            want = OP_KIND.get(fn["name"])
            if want is None:
                continue
            body = fn["body"]
            for dd in local_decls(body).values():
                t = (dd.get("TC") or dd.get("T") or "")
                tn = t.split("::")[-1].replace("const ", "").strip()
                if not tn.endswith("_op"):
                    continue
                kinds = [k for w, k in FUNCTOR_KIND if w in tn]
                if not kinds:
                    continue
                n += 1
                if kinds[0] == want:
                    ctx.ok("%s::%s merges with %s" % ((fn.get("cpk") or "").split("::")[-1], fn["name"], tn), fn, dd, rid=rid)
                else:
                    ctx.bad("%s::%s merges the two maps with `%s`, a %s-like functor, although the operator is a %s: bindings present in "
                            "only one operand are %s" % ((fn.get("cpk") or "").split("::")[-1], fn["name"], tn, kinds[0], want,
                                                         "dropped" if kinds[0] == "meet" else "kept"), fn, dd,
                            sig="operator-functor:%s:%s" % (fn["name"], tn), rid=rid)
    if n == 0:
        ctx.fail("rule %s: no merge functor found" % rid)
