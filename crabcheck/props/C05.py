"""C05 - widening stabilises every chain; analyses terminate (structural half)."""
from . import _iterator as it

LEVEL_TEXT = ("Clause-level static rules for the structural half of the termination argument: after the widening delay the "
              "iterator returns old.widening(new) (never a join, never swapped); the ascending loop re-extrapolates the "
              "stored iterate; the descending loop is bounded by descending_iterations with a counter only the loop header "
              "advances. Stabilisation of each domain's widening operator on arbitrary chains is a numeric/graph question "
              "and is NOT decided, except for the shape clauses listed per rule (interval bounds drawn from own bound / infinity / threshold; "
              "dis_interval widening never copies an interval of its right argument verbatim; product widenings are componentwise)."
              " The Patricia merge keeps (old, new) in order in every recursive call; the term-domain widening must hand the base widening an untransformed left argument (known finding F96).")
ASSUMPTIONS = ["each domain's widening operator stabilises when applied as old.widening(new) (only shape clauses checked)",
               "the CFG / call graph is finite"]


def r1_widen(ctx):
    ctx.rule("C05.r1", "after the delay extrapolate = old || new / old.widening_thresholds(new); caller passes (pre, new_pre)", floor=6)
    it.extrapolate_rule(ctx, None, "C05.r1")
    it.ascending_rule(ctx, None, "C05.r1")


def r2_descending(ctx):
    ctx.rule("C05.r2", "descending loop bounded by get_descending_iterations(); counter advanced only by the header", floor=4)
    it.descending_rule(ctx, "C05.r2")


RULES = [r1_widen, r2_descending]


# ----------------------------------------------------------------------------
from ..tree import walk, walk_with_parents, strip, is_call, is_ref, is_this, is_field, deref, src, obj, callee
from .. import paths
from ..match import strip_move, is_param, rets, nodes_not_in_log, resolve_local, local_decls, cmp_parts, guard_truth
from . import C08
from . import _lattice

TD = "include/crab/analysis/inter/top_down_inter_analyzer.hpp"
TH = "include/crab/fixpoint/thresholds.hpp"


def r3_recursion(ctx):
    ctx.rule("C05.r3", "recursive functions are re-analysed only while !(new_entry <= old_entry && new_exit <= old_exit); entry and exit are widened old || new", floor=3)
    fs = [f for f in ctx.db.fns(TD, name="analyze_function") if "top_down_inter_impl" in f["pk"]]
    if not ctx.need(fs, "top_down_inter_impl::analyze_function"):
        return
    for fn in fs:
        body = fn["body"]
        d = local_decls(body)
        g = paths.guards(body)
        rec = [n for n, ps in nodes_not_in_log(body, lambda x: is_call(x, name="analyze_function"))]
        if not rec:
            ctx.bad("analyze_function no longer iterates recursive functions", fn, body, sig="rec-no-iteration")
            continue

        def fix_atom(c):
            c = resolve_local(body, c, d)
            c = strip(c)
            if isinstance(c, dict) and c.get("k") == "bin" and c.get("op") == "&&":
                ps = [cmp_parts(c.get("L")), cmp_parts(c.get("R"))]
                names = []
                for p in ps:
                    if p and p[0] == "<=" and is_ref(p[1]) and is_ref(p[2]):
                        names.append((p[1].get("n"), p[2].get("n")))
                if sorted(names) == [("new_entry", "old_entry"), ("new_exit", "old_exit")]:
                    return 1
                if names:
                    return 0
            return 0
        for r in rec:
            t = guard_truth(g.get(id(r), ()), fix_atom, body)
            if t is False:
                ctx.ok("re-analysis only while the (entry, exit) pair still grows", fn, r)
            else:
                ctx.bad("the recursive re-analysis is not guarded by !(new_entry <= old_entry && new_exit <= old_exit): the iteration "
                        "either stops before a post-fixpoint or never stops", fn, r, sig="rec-fixpoint-test")
        wid = [n for n, ps in nodes_not_in_log(body, lambda x: x.get("k") == "call" and x.get("op") == "=" and is_ref(x.get("o")) and
                                                 strip(x["o"]).get("n") in ("new_entry", "new_exit") and is_call(strip_move(x["a"][0]), op="||"))]
        seen = set()
        for w in wid:
            v = strip_move(w["a"][0])
            tgt = strip(w["o"]).get("n")
            old = "old_" + tgt[4:]
            if is_ref(v.get("o"), name=old) and is_ref(v["a"][0], name=tgt):
                ctx.ok("%s = %s || %s (old iterate on the left)" % (tgt, old, tgt), fn, w)
                seen.add(tgt)
            else:
                ctx.bad("recursive fixpoint widens `%s`; the OLD iterate must be the left operand (%s || %s)" % (src(v), old, tgt), fn, w,
                        sig="rec-widen-order:%s" % tgt)
        for tgt in ("new_entry", "new_exit"):
            if tgt not in seen and not any(strip(w["o"]).get("n") == tgt for w in wid):
                ctx.bad("recursive fixpoint never widens %s" % tgt, fn, body, sig="rec-no-widen:%s" % tgt)


def r4_interval_widening(ctx):
    ctx.rule("C05.r4", "interval widening draws each bound from {own bound, infinity, threshold}; narrowing keeps lower bounds with lower bounds", floor=3)
    # reuse the bound-polarity terms of C08
    for fn in ctx.db.fns([C08.II, C08.IH], cpk=C08.ITV):
        if fn["name"] in ("operator||", "widening_thresholds"):
            rb = C08._result_bounds(fn)
            if len(rb) != 1:
                ctx.undecided("interval::%s: no single result construction" % fn["name"], fn, fn["body"])
                continue
            r, lo, hi = rb[0]
            if lo in C08.WIDEN_LO and hi in C08.WIDEN_HI:
                ctx.ok("interval::%s = [%s, %s]" % (fn["name"], lo, hi), fn, r)
            elif "?" in lo or "?" in hi:
                ctx.undecided("interval::%s: bound outside the grammar" % fn["name"], fn, r)
            else:
                ctx.bad("interval::%s returns [%s, %s]: a bound of the ARGUMENT reaches the result (the chain need not stabilise) or the "
                        "comparison is reversed (the result does not contain the argument)" % (fn["name"], lo, hi), fn, r,
                        sig="widening-bounds:%s" % fn["name"])
        if fn["name"] == "operator&&":
            rb = C08._result_bounds(fn)
            if len(rb) != 1:
                ctx.undecided("interval::operator&&: no single result construction", fn, fn["body"])
                continue
            r, lo, hi = rb[0]
            import re
            def values(term):
                # atoms in value position of ite(c, a, b) terms (the condition is dropped)
                t = term
                while True:
                    m = re.search(r"ite\(([^()]*|[^()]*\([^()]*\)[^()]*)?,([^,()]+),([^,()]+)\)", t)
                    if not m:
                        break
                    t = t[:m.start()] + m.group(2) + "|" + m.group(3) + t[m.end():]
                return set(t.split("|"))
            vlo, vhi = values(lo), values(hi)
            if vlo <= {"tl", "xl"} and vhi <= {"tu", "xu"}:
                ctx.ok("interval narrowing: lower bound from %s, upper bound from %s" % (sorted(vlo), sorted(vhi)), fn, r)
            elif "?" in lo + hi and not (vlo | vhi) & {"tl", "tu", "xl", "xu"}:
                ctx.undecided("interval::operator&&: bounds outside the grammar", fn, r)
            else:
                ctx.bad("interval narrowing builds [%s, %s]: the lower bound of the result must come from the lower bounds of the operands "
                        "and the upper bound from their upper bounds (otherwise the result can exclude states of the second argument)" %
                        (lo, hi), fn, r, sig="narrowing-polarity")


GRAPH_DOMS = {"include/crab/domains/split_dbm.hpp": "crab::domains::split_dbm_domain",
              "include/crab/domains/sparse_dbm.hpp": "crab::domains::sparse_dbm_domain",
              "include/crab/domains/split_oct.hpp": "crab::domains::split_oct_domain"}


def r5_left_not_closed(ctx):
    ctx.rule("C05.r5", "graph domains never normalise / close the LEFT operand of a widening", floor=4)
    for f, cpk in GRAPH_DOMS.items():
        for fn in ctx.db.fns(f, cpk=cpk):
            if fn["name"] not in ("operator||", "widening_thresholds"):
                continue
            body = fn["body"]
            cname = cpk.split("::")[-1]
            d = local_decls(body)
            bad = []
            okn = []
            for n, ps in walk_with_parents(body):
                if n.get("k") == "call" and callee(n) and callee(n)["name"] in ("normalize", "close_over_edge", "close_after_widen", "close_after_assign", "normalize_impl"):
                    recv = n.get("o")
                    lam = [p for p in ps if p.get("k") == "lambda"]
                    # receiver this (outside a lambda) = left operand; inside the widen lambda the first parameter is the left operand
                    if recv is None or is_this(recv):
                        if not lam:
                            bad.append(n)
                        else:
                            bad.append(n)
                    elif is_ref(recv):
                        r = strip(recv)
                        if lam and lam[-1].get("params") and r.get("id") == lam[-1]["params"][0]["id"]:
                            bad.append(n)
                        elif r.get("rk") == "local":
                            dd = d.get(r.get("id"))
                            src_ = dd.get("i") if dd else None
                            from_this = src_ is not None and any(is_this(x) for x in walk(src_))
                            if from_this:
                                bad.append(n)
                            else:
                                okn.append(n)
                        else:
                            okn.append(n)
            if bad:
                ctx.bad("%s::%s normalises/closes its LEFT operand (`%s`): closing the previous iterate re-introduces the constraints the "
                        "widening just dropped, so the chain need not stabilise" % (cname, fn["name"], src(bad[0])[:50]), fn, bad[0],
                        sig="widen-closes-left:%s::%s" % (cname, fn["name"]))
            else:
                ctx.ok("%s::%s closes only (a copy of) the right operand%s" % (cname, fn["name"], "" if okn else " - nothing closed"), fn, None)


def r6_product_widening(ctx):
    ctx.rule("C05.r6", "product widening does not apply the reduction to its result", floor=1)
    CD = "include/crab/domains/combined_domains.hpp"
    for fn in ctx.db.fns(CD, cpk="crab::domains::basic_domain_product2"):
        if fn["name"] not in ("operator||", "widening_thresholds"):
            continue
        cs = [n for n in walk(fn["body"]) if n.get("k") == "ctor" and (callee(n) or {}).get("cpk") == "crab::domains::basic_domain_product2" and len(n.get("a", [])) >= 2]
        for c in cs:
            a = c.get("a", [])
            flag = strip(a[2]) if len(a) > 2 else None
            if flag is not None and flag.get("k") == "dflt":
                flag = strip(flag.get("e"))
            if isinstance(flag, dict) and flag.get("v") == "false":
                ctx.ok("%s builds its result with apply_reduction=false" % fn["name"], fn, c)
            elif isinstance(flag, dict) and flag.get("v") == "true":
                ctx.bad("basic_domain_product2::%s builds the widened product WITH reduction: reducing a widened value can undo the "
                        "extrapolation and the chain need not stabilise" % fn["name"], fn, c, sig="product-widen-reduces:%s" % fn["name"])
            else:
                ctx.undecided("cannot read the reduction flag of the widened product", fn, c)


def r7_thresholds(ctx):
    ctx.rule("C05.r7", "threshold sets are finite, contain both infinities and are only written by the constructor and add()", floor=4)
    cpk = "crab::thresholds"
    fs = ctx.db.fns(TH, cpk=cpk)
    if not ctx.need(fs, "crab::thresholds members"):
        return
    from ._containers import field_writes
    for fn in fs:
        for n in walk(fn["body"]):
            if n.get("k") == "call" and "o" in n and is_field(n["o"], "m_thresholds") and callee(n) and \
                    callee(n)["name"] in ("push_back", "insert", "erase", "clear", "emplace_back", "pop_back", "resize", "operator="):
                if fn.get("ctor") or fn["name"] == "add":
                    ctx.ok("m_thresholds written by %s" % ("the constructor" if fn.get("ctor") else "add()"), fn, n)
                else:
                    ctx.bad("thresholds::%s modifies the threshold vector" % fn["name"], fn, n, sig="thresholds-writer:%s" % fn["name"])
        if fn.get("ctor") == "other" or fn.get("ctor") == "default":
            names = [callee(x)["name"] for x in walk(fn["body"]) if x.get("k") == "call" and callee(x) and callee(x)["name"] in ("minus_infinity", "plus_infinity")]
            if "minus_infinity" in names and "plus_infinity" in names:
                ctx.ok("constructor inserts -oo and +oo", fn, None)
            else:
                ctx.bad("the thresholds constructor must insert both -oo and +oo (get_prev/get_next fall back on them)", fn, fn["body"], sig="thresholds-sentinels")
        if fn["name"] == "add":
            g = paths.guards(fn["body"])
            ins = [x for x in walk(fn["body"]) if is_call(x, name="insert") and is_field(obj(x), "m_thresholds")]

            def bounded(c):
                p = cmp_parts(c)
                if p and is_call(p[1], name="size") and is_field(p[2], "m_size") and p[0] == "<":
                    return 1
                return 0
            if ins and all(guard_truth(g.get(id(i), ()), bounded, fn["body"]) is True for i in ins):
                ctx.ok("add() inserts only while size() < m_size", fn, ins[0])
            else:
                ctx.bad("thresholds::add can grow the set beyond m_size", fn, fn["body"], sig="thresholds-unbounded")


def r8_widening_prologues(ctx):
    ctx.rule("C05.r8", "widening operators return at least both arguments in the bottom cases", floor=50)
    from . import C04
    _lattice.prologue_rule(ctx, "C05.r8", files=C04.domain_files(ctx), min_classes=20,
                           class_filter=lambda fn: fn["name"] in ("operator||", "widening_thresholds", "operator&&"))


RULES += [r3_recursion, r4_interval_widening, r5_left_not_closed, r6_product_widening, r7_thresholds, r8_widening_prologues]


def r9_componentwise_widening(ctx):
    ctx.rule("C05.r9", "product and lifting domains widen / narrow every component with the SAME operator (a component combined with "
             "narrowing or meet inside a widening keeps facts of one argument only, so the iterate no longer covers the new state and "
             "the loop is declared stable too early)", floor=20)
    from . import _componentwise as cw
    cw.componentwise_rule(ctx, "C05.r9", only={"operator||", "widening_thresholds", "operator&&"})


RULES += [r9_componentwise_widening]


def r10_dis_interval_widening(ctx):
    ctx.rule("C05.r10", "dis_interval widening: an interval of the RIGHT argument enters the result only through the interval widening "
             "(widen_op.apply / approx of the whole list), never verbatim - a disjunct of the new iterate copied as it is grows by an "
             "arbitrary amount at every step, so chains that grow in the middle never become stationary", floor=2)
    n = 0
    for f, lst in C08.DI_FILES:
        if not ctx.db.has_file(f):
            continue
        for fn in ctx.db.fns(f, name="widening"):
            if not (fn.get("cpk") or "").endswith("::dis_interval") or not fn.get("params"):
                continue
            oid = fn["params"][0]["id"]
            body = fn["body"]
            d = local_decls(body)
            # result lists: locals of the list type that receive push_back / insert
            sinks = []
            for c, ps in walk_with_parents(body):
                if c.get("k") == "call" and callee(c) and callee(c)["name"] in ("push_back", "insert", "emplace_back") and "o" in c:
                    r = strip(c.get("o"))
                    if isinstance(r, dict) and r.get("k") == "ref" and r.get("rk") == "local":
                        sinks.append(c)
            if not sinks:
                ctx.skipped("C05.r10|%s|no result list" % f, rid="C05.r10")
                continue

            def verbatim_o(e):
                """sub-expressions of e that read the right argument's list outside an extrapolating call"""
                out = []

                def rec(x, shielded):
                    if not isinstance(x, dict):
                        return
                    if x.get("k") == "call" and callee(x) and callee(x)["name"] in ("apply", "operator||", "widening_thresholds", "approx"):
                        shielded = True
                    if x.get("k") == "mem" and x.get("n") == lst:
                        b = deref(x.get("b"))
                        if isinstance(b, dict) and b.get("k") == "ref" and b.get("id") == oid and not shielded:
                            out.append(x)
                    if x.get("k") == "ref" and x.get("rk") == "local" and not shielded:
                        dd = d.get(x.get("id")) or {}
                        if "i" in dd:
                            rec(dd["i"], shielded)
                    for key, v in x.items():
                        if key in ("f",):
                            continue
                        if isinstance(v, dict):
                            rec(v, shielded)
                        elif isinstance(v, list):
                            for y in v:
                                rec(y, shielded)
                for a in e.get("a", []):
                    rec(a, False)
                return out
            for c in sinks:
                n += 1
                v = verbatim_o(c)
                if v:
                    ctx.bad("dis_interval::widening copies intervals of the right argument into the result as they are (`%s`): only the "
                            "extreme intervals are extrapolated, so {0} | [5,5+k] | {10^6}, k = 1,2,... is an ascending chain that never "
                            "becomes stationary" % src(c)[:70], fn, c, sig="widening-copies-right-argument")
                else:
                    ctx.ok("widening: result element drawn from the left argument or from an interval widening", fn, c)
    if n == 0:
        ctx.fail("rule C05.r10: dis_interval::widening not found")


RULES += [r10_dis_interval_widening]


def r11_lookahead_promotion(ctx):
    ctx.rule("C05.r11", "lookahead_widening_domain: both components of every widening result are built from a value of THIS (this->second, "
             "or a join / widening whose left operand is a component of this) - a result built from `other` alone does not describe "
             "the left argument, whose `first` need not be below other's `second`", floor=4)
    LW = "include/crab/domains/lookahead_widening_domain.hpp"
    fs = [f for f in ctx.db.fns(LW) if f["name"] in ("operator||", "widening_thresholds") and (f.get("cpk") or "").endswith("lookahead_widening_domain")]
    if not ctx.need(fs, "lookahead_widening_domain widenings", "C05.r11"):
        return
    seen = set()
    for fn in fs:
        if (fn["name"],) in seen:
            continue
        seen.add((fn["name"],))
        body = fn["body"]
        for dd in local_decls(body).values():
            if dd.get("n") not in ("first", "second") or "i" not in dd:
                continue
            own = [x for x in walk(dd["i"]) if x.get("k") == "mem" and x.get("n") == "m_product" and is_this(deref(x.get("b")))]
            if own:
                ctx.ok("%s: component `%s` built from a value of this" % (fn["name"], dd["n"]), fn, dd)
            else:
                ctx.bad("lookahead_widening_domain::%s builds the component `%s` of its result from `%s` alone: this->first need not be "
                        "below it, so the result does not describe the left argument (((a=0) || (a=1)) || (a=5) gives a = 5)" %
                        (fn["name"], dd["n"], src(dd["i"])[:40]), fn, dd, sig="lookahead-result-from-other-only:%s" % dd["n"])


RULES += [r11_lookahead_promotion]


def r12_wrapped_widening(ctx):
    ctx.rule("C05.r12", "wrapped_interval widenings: every non-special result is *this, top, or a join whose operand is the local `join` "
             "(= *this | x) - never a join built from x alone: x can contain both end points of *this without containing *this "
             "(the two intervals overlap at both ends)", floor=6)
    WI = "include/crab/domains/wrapped_interval_impl.hpp"
    fs = [f for f in ctx.db.fns(WI) if f["name"] in ("operator||", "widening_thresholds") and (f.get("cpk") or "").endswith("wrapped_interval")]
    if not ctx.need(fs, "wrapped_interval widenings", "C05.r12"):
        return
    seen = set()
    for fn in fs:
        if fn["name"] in seen:
            continue
        seen.add(fn["name"])
        body = fn["body"]
        if not fn.get("params"):
            continue
        xid = fn["params"][0]["id"]
        d = local_decls(body)
        joins = {dd["id"] for dd in d.values() if "i" in dd and any(is_call(c, op="|") and is_this(deref(strip(c.get("o")))) if False else
                                                              (c.get("k") == "call" and c.get("op") == "|" and any(y.get("k") == "this" for y in walk(c.get("o"))))
                                                              for c in walk(dd["i"]))}
        g = paths.guards(body)
        for r in rets(body):
            v = strip_move(r.get("v"))
            for _ in range(3):
                if isinstance(v, dict) and v.get("k") == "ctor" and len(v.get("a", [])) == 1:
                    v = strip_move(v["a"][0])
            if not (isinstance(v, dict) and v.get("k") == "call" and v.get("op") == "|"):
                continue
            left = strip(v.get("o"))
            if isinstance(left, dict) and left.get("k") == "ref" and left.get("id") in joins:
                ctx.ok("%s: result joins onto `join` (= *this | x)" % fn["name"], fn, r)
            elif isinstance(left, dict) and left.get("k") == "un" and left.get("op") == "*" and is_this(strip(left.get("e"))):
                ctx.ok("%s: result joins onto *this" % fn["name"], fn, r)
            else:
                ctx.bad("wrapped_interval::%s returns `%s`: the join starts from `%s`, which need not contain *this - "
                        "[0,10]_8 || [5,2]_8 = [5,2]_8 misses 3 and 4" % (fn["name"], src(v)[:60], src(left)[:20]), fn, r,
                        sig="wrapped-widening-from-right-argument")


RULES += [r12_wrapped_widening]


def r13_term_widening_left_operand(ctx):
    ctx.rule("C05.r13", "term domain widening: the value of the base domain handed to the base widening as its LEFT argument is the "
             "previous iterate as it is - it has not gone through a transformer that normalises (closes) it (assign / apply / "
             "constraint addition); with zones as base domain a closed left argument defeats termination (Mine's example)", floor=1)
    TE = "include/crab/domains/term_equiv.hpp"
    fs = [f for f in ctx.db.fns(TE, cpk="crab::domains::term_domain", name="widening") if f.get("body")]
    if not ctx.need(fs, "term_domain::widening"):
        return
    seen = set()
    for fn in fs:
        if fn["line"] in seen:
            continue
        seen.add(fn["line"])
        body = fn["body"]
        apps = [c for c in walk(body) if is_call(c, name="apply") and len(c.get("a", [])) == 2 and isinstance(strip(c.get("o")), dict)
                and strip(c["o"]).get("k") == "ref" and strip(c["o"]).get("rk") in ("param", "local")]
        apps = [c for c in apps if isinstance(strip(c["a"][0]), dict) and strip(c["a"][0]).get("k") == "ref"]
        if not apps:
            ctx.undecided("term_domain::widening: the call of the base widening was not found", fn, body)
            continue
        left = strip(apps[0]["a"][0])
        closing = [c for c in walk(body) if c.get("k") == "call" and callee(c) and callee(c)["name"] in ("assign", "apply", "operator+=", "normalize")
                   and isinstance(strip(c.get("o")), dict) and strip(c["o"]).get("id") == left.get("id")]
        if closing:
            ctx.bad("term_domain::widening renames the terms of its LEFT operand with `%s` before the base widening: with split_dbm as base "
                    "domain the assignment closes the left argument and the chain x_{k+1} = x_k widen {|v1-v2|<=1, v1<=k+1, v2<=k+1} is not "
                    "stationary after 300 steps (2 steps for split_dbm itself)" % src(closing[0])[:40], fn, closing[0],
                    sig="widening-left-operand-transformed")
        else:
            ctx.ok("the left argument of the base widening is not transformed", fn, apps[0])


RULES += [r13_term_widening_left_operand]


def r14_environment_widening_operand_order(ctx):
    ctx.rule("C05.r14", "the environment domains widen pointwise through the Patricia-tree merge: every recursive call of the merge keeps "
             "(old, new) in order, otherwise a subtree computes `new widen old` (a join) and a bound growing there is never "
             "extrapolated (same rule instance as C19.r12)", floor=6)
    from . import C19
    C19.r12_merge_operand_order(ctx)
    r = ctx.rules.pop("C19.r12", None)
    if r is not None:
        tgt = ctx.rules["C05.r14"]
        for k in ("ok", "bad", "undecided"):
            tgt[k] += r[k]
        tgt["samples"] += r["samples"]
        for v in ctx.violations:
            if v["rule"] == "C19.r12":
                v["rule"] = "C05.r14"
                v["rule_desc"] = tgt["desc"]


RULES += [r14_environment_widening_operand_order]
