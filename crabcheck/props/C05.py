"""C05 - widening stabilises every chain; analyses terminate (structural half)."""
from . import _iterator as it

LEVEL_TEXT = ("Clause-level static rules for the structural half of the termination argument: after the widening delay the "
              "iterator returns old.widening(new) (never a join, never swapped); the ascending loop re-extrapolates the "
              "stored iterate; the descending loop is bounded by descending_iterations with a counter only the loop header "
              "advances. Stabilisation of each domain's widening operator on arbitrary chains is a numeric/graph question "
              "and is NOT decided, except for the shape clauses listed per rule.")
ASSUMPTIONS = ["each domain's widening operator stabilises when applied as old.widening(new) (only shape clauses checked)",
               "the CFG / call graph is finite"]


def r1_widen(ctx):
    ctx.rule("C05.r1", "after the delay extrapolate = old || new / old.widening_thresholds(new); caller passes (pre, new_pre)", floor=6)
    it.extrapolate_rule(ctx, None, "C05.r1")
    it.ascending_rule(ctx, None, "C05.r1")


def r2_descending(ctx):
    ctx.rule("C05.r2", "descending loop bounded by get_descending_iterations(); counter advanced only by the header", floor=4)
    it.descending_rule(ctx, "C05.r2")


RULES = [r1_widen, r2_descending]
