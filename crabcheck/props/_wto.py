"""Rules over include/crab/fixpoint/wto.hpp (nesting table), used by C06/C07."""
from ..tree import (walk, strip, is_call, is_ref, is_this, is_field, src, obj, args, callee)
from .. import paths
from ..match import (local_decls, writes_to, nodes_not_in_log, is_param, strip_move, rets)

FILE = "include/crab/fixpoint/wto.hpp"
NB = "ikos::wto::nesting_builder"

MUTATORS = {"insert", "emplace", "erase", "clear", "operator[]", "swap", "emplace_hint", "at",
            "operator=", "reset", "rehash", "reserve", "merge", "extract", "insert_or_assign", "try_emplace"}


def _is_nesting_field(n):
    return is_field(n, "_nesting", of_this=True)


def _pair_parts(e):
    """std::make_pair(a, b) / pair{a,b} / {a, b} -> (a, b)"""
    e = strip_move(e)
    if isinstance(e, dict) and e.get("k") == "call" and (callee(e) or {}).get("name") == "make_pair" and len(e.get("a", [])) == 2:
        return strip_move(e["a"][0]), strip_move(e["a"][1])
    if isinstance(e, dict) and e.get("k") in ("ctor", "ilist") and len(e.get("a", [])) == 2:
        return strip_move(e["a"][0]), strip_move(e["a"][1])
    if isinstance(e, dict) and e.get("k") == "ctor" and len(e.get("a", [])) == 1:
        return _pair_parts(e["a"][0])
    return None


def nesting_rule(ctx, rid, vertex_rid=None):
    """the value recorded for a cycle head is the nesting BEFORE the head is
    appended; children are visited after the append; the nesting is restored"""
    fs = ctx.db.fns(FILE, pk=NB + "::visit")
    cyc = [f for f in fs if "wto_cycle" in f["psig"]]
    ver = [f for f in fs if "wto_vertex" in f["psig"]]
    ctx.need(cyc, "nesting_builder::visit(wto_cycle_t&)", rid)
    for fn in cyc:
        body = fn["body"]
        decls = local_decls(body)
        head = [d["id"] for d in decls.values() if "i" in d and is_call(strip(d["i"]), name="head")]
        ishead = lambda x: (isinstance(x, dict) and ((x.get("k") == "ref" and x.get("id") in head) or is_call(x, name="head")))

        def kill(n):
            # any mutation of this->_nesting other than the restore
            if is_call(n, op="+=") and _is_nesting_field(obj(n)):
                return ("clean",)
            return ()

        def gen(n):
            if is_call(n, op="+=") and _is_nesting_field(obj(n)):
                a = args(n)
                if a and ishead(a[0]):
                    return ("appended",)
            return ()
        f = paths.MustEvents(gen, kill, init=("clean",))
        try:
            f.run(body)
        except paths.Unstructured as e:
            ctx.undecided("unstructured: %s" % e, fn, body, rid=rid)
            continue
        # copies of _nesting taken while clean
        clean_copies = set()
        for d in decls.values():
            if "i" in d and _is_nesting_field(strip(d["i"])) and "clean" in f.at.get(id(d), ()) and not writes_to(body, d["id"]):
                clean_copies.add(d["id"])
        ins = [n for n, ps in nodes_not_in_log(body, lambda x: is_call(x, name=("insert", "emplace")) and is_field(obj(x), "_nesting_table"))]
        if not ins:
            ctx.bad("visit(cycle) records no nesting for the head", fn, body, sig="nesting-no-insert", rid=rid)
            continue
        for i in ins:
            a = i.get("a", [])
            pp = _pair_parts(a[0]) if len(a) == 1 else ((strip_move(a[0]), strip_move(a[1])) if len(a) == 2 else None)
            if pp is None:
                ctx.undecided("cannot read the inserted pair `%s`" % src(a), fn, i, rid=rid)
                continue
            key, val = pp
            if not ishead(key):
                ctx.undecided("inserted key `%s` is not the head" % src(key), fn, i, rid=rid)
                continue
            st = f.at.get(id(i), frozenset())
            if _is_nesting_field(val) and "clean" in st:
                ctx.ok("head nesting = _nesting before `_nesting += head`", fn, i, rid=rid)
            elif isinstance(val, dict) and val.get("k") == "ref" and val.get("id") in clean_copies:
                ctx.ok("head nesting = copy of _nesting taken before `_nesting += head`", fn, i, rid=rid)
            else:
                ctx.bad("the nesting recorded for a cycle head is `%s` evaluated after `_nesting += head` "
                        "(a head must not be part of its own nesting)" % src(val), fn, i, sig="nesting-head-included", rid=rid)
        # children visited after the append
        acc = [n for n, ps in nodes_not_in_log(body, lambda x: is_call(x, name="accept"))]
        for a in acc:
            if "appended" in f.at.get(id(a), ()):
                ctx.ok("children visited after `_nesting += head`", fn, a, rid=rid)
            else:
                ctx.bad("the components of a cycle are visited before `_nesting += head`: their nesting misses the head",
                        fn, a, sig="nesting-children-before-append", rid=rid)
        # restore
        restores = []
        for n, ps in nodes_not_in_log(body, lambda x: (x.get("k") == "asg" and _is_nesting_field(x.get("L"))) or
                                      (is_call(x, op="=") and _is_nesting_field(obj(x)))):
            rhs = strip_move(n.get("R") if n.get("k") == "asg" else n["a"][0])
            restores.append((n, isinstance(rhs, dict) and rhs.get("k") == "ref" and rhs.get("id") in clean_copies))
        if not restores or not all(ok for _, ok in restores):
            ctx.bad("the nesting is not restored to its value before the cycle after the components were visited "
                    "(siblings of the cycle would inherit its head)", fn, body, sig="nesting-not-restored", rid=rid)
        else:
            # must be reached on every normal exit and after the children loop
            rn = restores[-1][0]

            def gen2(n):
                if n is rn:
                    return ("restored",)
                if is_call(n, name="accept"):
                    return ("visited",)
                return ()

            def kill2(n):
                if is_call(n, name="accept"):
                    return ("restored",)
                return ()
            f2 = paths.MustEvents(gen2, kill2)
            f2.run(body)
            if all("restored" in st for _, st in f2.returns):
                ctx.ok("nesting restored on every exit", fn, rn, rid=rid)
            else:
                ctx.bad("some exit of visit(cycle) leaves the nesting extended with the head", fn, rn,
                        sig="nesting-restore-path", rid=rid)
    if vertex_rid:
        ctx.need(ver, "nesting_builder::visit(wto_vertex_t&)", vertex_rid)
        for fn in ver:
            body = fn["body"]
            ins = [n for n, ps in nodes_not_in_log(body, lambda x: is_call(x, name=("insert", "emplace")) and is_field(obj(x), "_nesting_table"))]
            if not ins:
                ctx.bad("visit(vertex) records no nesting", fn, body, sig="nesting-vertex-missing", rid=vertex_rid)
            for i in ins:
                a = i.get("a", [])
                pp = _pair_parts(a[0]) if len(a) == 1 else ((strip_move(a[0]), strip_move(a[1])) if len(a) == 2 else None)
                if pp and is_call(pp[0], name="node") and is_param(obj(pp[0]), fn, 0) and _is_nesting_field(pp[1]):
                    ctx.ok("vertex nesting = current _nesting", fn, i, rid=vertex_rid)
                else:
                    ctx.bad("vertex nesting recorded as `%s`, expected (vertex.node(), _nesting)" % src(a), fn, i,
                            sig="nesting-vertex-value", rid=vertex_rid)


def append_rule(ctx, rid):
    """wto_nesting::operator+= appends at the END (outermost head first)"""
    fs = ctx.db.fns(FILE, pk="ikos::wto_nesting::operator+=")
    ctx.need(fs, "wto_nesting::operator+=", rid)
    for fn in fs:
        body = fn["body"]
        muts = [n for n in walk(body) if n.get("k") == "call" and is_field(obj(n), "_nodes") and
                (callee(n) or {}).get("name") in ("push_back", "push_front", "insert", "emplace_back", "emplace_front", "emplace")]
        if len(muts) == 1 and callee(muts[0])["name"] in ("push_back", "emplace_back") and is_param(args(muts[0])[0], fn, 0):
            ctx.ok("operator+= appends the head at the end", fn, muts[0], rid=rid)
        else:
            ctx.bad("wto_nesting::operator+= must append the new head at the end of the list (outermost first); found %s"
                    % [src(m) for m in muts], fn, body, sig="nesting-append", rid=rid)


def table_writers_rule(ctx, rid):
    """K4: _nesting_table is mutated only by nesting_builder"""
    n_sites = 0
    for fn in ctx.db.fns(FILE):
        if not (fn.get("cpk") or "").startswith("ikos::wto"):
            continue
        for n in walk(fn["body"]):
            if n.get("k") == "call" and is_field(obj(n), "_nesting_table"):
                nm = (callee(n) or {}).get("name")
                const = (callee(n) or {}).get("const")
                if nm in ("operator->", "operator*", "get", "operator bool", "use_count"):
                    continue
                n_sites += 1
                if nm in MUTATORS and not const:
                    if fn.get("cpk") == NB:
                        ctx.ok("nesting table written by nesting_builder: %s" % nm, fn, n, rid=rid)
                    else:
                        ctx.bad("`%s` mutates the nesting table outside nesting_builder" % src(n), fn, n,
                                sig="nesting-writer:%s" % fn["pk"], rid=rid)
                else:
                    ctx.ok("read-only access %s" % nm, fn, n, rid=rid)
            if n.get("k") == "asg" and is_field(n.get("L"), "_nesting_table") and fn["name"] not in ("operator=",):
                ctx.bad("`%s` replaces the nesting table" % src(n), fn, n, sig="nesting-writer-asg:%s" % fn["pk"], rid=rid)
    if n_sites == 0:
        ctx.fail("rule %s: no access to _nesting_table found" % rid)
