"""C17 - CFG transformations preserve behaviour."""
from ..tree import (walk, walk_with_parents, strip, is_call, is_ref, is_this, is_field, deref, same_expr,
                    src, obj, args, callee)
from .. import paths
from ..match import (strip_move, is_param, rets, nodes_not_in_log, resolve_local, local_decls, writes_to, cmp_parts,
                     guard_truth, atom_truth)
from . import _stmts
from . import _cfgedges

LEVEL_TEXT = ("Clause-level static rules: dead-code elimination queues a statement only when it is not conservatively kept AND no "
              "variable it defines is live (quantifier shape of the removal guard, helper loops summarised as forall/exists); the "
              "conservatively-kept kinds include every kind with an effect not captured by its defs; the live set is updated "
              "defs-then-uses while scanning backwards and statements are removed only after the scan; lowering replaces exactly the "
              "proven assertions by the assume of the same condition with the same polarity; clone() copies every member of every "
              "statement class; successor/predecessor lists are written pairwise; entry/exit are never removed. That block merging "
              "preserves statement order for every graph shape is NOT decided."
              " simplify folds a block into its predecessor only if the block is not the entry and the predecessor is not the exit.")
ASSUMPTIONS = ["liveness facts are sound (C18)", "graph walks of simplify() visit blocks in an order that preserves sequencing (not decided)"]

DCE = "include/crab/transforms/dce.hpp"
LSA = "include/crab/transforms/lower_safe_assertions.hpp"
DCEC = "crab::transforms::dead_code_elimination"


def _summarise_def_predicate(fn):
    """bool H(live, vars): single loop over defs_begin..defs_end with
         if (C(*it)) return B1;   ...   return B2;
    -> (c_is_live, b1, b2) with c_is_live True when C(d) == `d is in vars`
       (varset(d) <= vars), False when C is its negation; b1 literal bool,
       b2 literal bool or 'flag' (a local bool).  None if outside the idiom."""
    body = fn["body"]
    loops = [l for l in walk(body) if l.get("k") in ("for", "rangefor", "while")]
    if len(loops) != 1:
        return None
    loop = loops[0]
    if not any(is_call(x, name="defs_begin") for x in walk(body)):
        return None
    inner = [r for r in walk(loop.get("b")) if r.get("k") == "ret"]
    outer = [r for r in rets(body) if not any(r is x for x in inner)]
    if len(inner) != 1 or len(outer) != 1:
        return None
    g = paths.guards(loop.get("b"))
    gs = g.get(id(inner[0]), ())
    if len(gs) != 1:
        return None
    cond, pol = gs[0]

    def live_atom(c):
        p = cmp_parts(c)
        if p and p[0] == "<=" and is_param(p[2], fn, 1):
            return 1
        if is_call(strip(c), name=("count", "contains", "at")) and is_param(obj(strip(c)), fn, 1):
            return 1
        return 0
    t = atom_truth(cond, pol, live_atom, body)
    if t is None:
        return None
    b1 = strip(inner[0].get("v"))
    b2 = strip(outer[0].get("v"))
    if not (isinstance(b1, dict) and b1.get("k") == "lit"):
        return None
    b1v = b1["v"] == "true"
    if isinstance(b2, dict) and b2.get("k") == "lit":
        b2v = b2["v"] == "true"
    elif isinstance(b2, dict) and b2.get("k") == "ref" and b2.get("rk") == "local":
        b2v = "flag"
    else:
        return None
    return (t, b1v, b2v)


def r1_dce_guard(ctx):
    ctx.rule("C17.r1", "DCE removes a statement only if it is not kept conservatively and NO def of it is live", floor=1)
    runs = ctx.db.fns(DCE, pk=DCEC + "::run")
    ctx.need(runs, "dead_code_elimination::run")
    for fn in runs:
        body = fn["body"]
        g = paths.guards(body)
        pushes = [n for n, ps in nodes_not_in_log(body, lambda x: is_call(x, name="push_back") and is_ref(obj(x)) and
                                                  strip(obj(x)).get("n") == "to_remove")]
        if not ctx.need(pushes, "to_remove.push_back in DCE run"):
            continue
        for p in pushes:
            gs = g.get(id(p), ())

            def keep_atom(c):
                c = strip(c)
                return 1 if is_call(c, name="keep_conservatively") else 0
            tk = None
            helper_call = None
            helper_pol = None
            for cond, pol in gs:
                if isinstance(cond, tuple):
                    continue
                r = atom_truth(cond, pol, keep_atom, body)
                if r is not None:
                    tk = r
                # find the def predicate helper (also behind `const bool removable = ...; if (removable)`)
                cexp = resolve_local(body, cond)
                for x in walk(cexp):
                    if x.get("k") == "call" and is_this(x.get("o")) and callee(x) and callee(x)["name"] != "keep_conservatively" \
                            and callee(x).get("cpk") == DCEC:
                        hc = x

                        def h_atom(c, _hc=hc):
                            return 1 if strip(c) is _hc else 0
                        rr = atom_truth(cond, pol, h_atom, body)
                        if rr is not None:
                            helper_call, helper_pol = hc, rr
            if tk is not False:
                ctx.bad("a statement is queued for removal without the `!keep_conservatively(s)` test", fn, p, sig="dce-no-keep-test")
                continue
            if helper_call is None:
                ctx.undecided("cannot find the def-liveness predicate guarding the removal", fn, p)
                continue
            hname = callee(helper_call)["name"]
            hfn = [h for h in ctx.db.fns(DCE, pk=DCEC + "::" + hname) if h.get("cls") == fn.get("cls")]
            summ = _summarise_def_predicate(hfn[0]) if hfn else None
            if summ is None:
                ctx.undecided("helper %s is outside the forall/exists loop idiom" % hname, fn, helper_call)
                continue
            c_is_live, b1, b2 = summ
            want = helper_pol          # removal happens when H == want
            # H == (exists d. C(d)) ? b1 : b2.   removal => forall d. not live(d)  requires:
            #   b1 != want  and  C == live  and  b2 in (want, flag)
            okq = (b1 != want) and c_is_live and (b2 == "flag" or b2 == want)
            if want is False and b2 == "flag":
                okq = False
            if okq:
                ctx.ok("removal guard: !keep_conservatively(s) && no def of s is live (helper %s)" % hname, fn, p)
            else:
                q = ("some def is dead" if (not c_is_live and b1 == want) or (c_is_live and b1 != want and False) else
                     "not (every def dead)")
                ctx.bad("DCE queues a statement for removal when `%s%s(defs, live)` holds, where %s returns %s as soon as a def is %s "
                        "and %s otherwise: the statement is removed although one of the variables it defines may still be live "
                        "(required: no def is live)" % ("" if want else "!", hname, hname, str(b1).lower(),
                                                       "live" if c_is_live else "not live", str(b2).lower()),
                        fn, p, sig="dce-guard-quantifier")


KEEP_REQUIRED = {
    "is_callsite": "the callee may contain assertions / side effects",
    "is_arr_init": "array contents are not tracked by liveness",
    "is_arr_write": "array store is a (weak) update of the whole array variable",
    "is_ref_store": "store through a reference updates memory",
    "is_region_init": "initialises a region other statements refer to implicitly",
    "is_ref_remove": "deallocation has an effect not captured by defs",
    "is_assert": "an assertion must not disappear", "is_ref_assert": "an assertion must not disappear",
    "is_bool_assert": "an assertion must not disappear",
}


def r2_keep(ctx):
    ctx.rule("C17.r2", "keep_conservatively covers every statement kind with an effect not captured by its defs", floor=9)
    fs = ctx.db.fns(DCE, pk=DCEC + "::keep_conservatively")
    ctx.need(fs, "keep_conservatively")
    for fn in fs:
        body = fn["body"]
        g = paths.guards(body)
        kept = set()
        for r in rets(body):
            v = strip(r.get("v"))
            if isinstance(v, dict) and v.get("k") == "lit" and v.get("v") == "true":
                for cond, pol in g.get(id(r), ()):
                    if pol and not isinstance(cond, tuple):
                        for x in walk(cond):
                            if x.get("k") == "call" and is_param(x.get("o"), fn, 0) and callee(x)["name"].startswith("is_"):
                                # the predicate must occur positively (disjunct of a true condition)
                                kept.add(callee(x)["name"])
            elif isinstance(v, dict) and v.get("k") != "lit":
                for x in walk(v):
                    if x.get("k") == "call" and is_param(x.get("o"), fn, 0) and callee(x)["name"].startswith("is_"):
                        kept.add(callee(x)["name"])
        for k, why in sorted(KEEP_REQUIRED.items()):
            if k in kept:
                ctx.ok("kept: %s (%s)" % (k, why), fn, None)
            else:
                ctx.bad("keep_conservatively no longer keeps statements with s.%s(): %s" % (k, why), fn, body, sig="dce-keep-missing:%s" % k)


def r3_live_update(ctx):
    ctx.rule("C17.r3", "DCE scans backwards, updates out_live -= defs then += uses, removes after the scan, then update_uses_and_defs()", floor=4)
    for fn in ctx.db.fns(DCE, pk=DCEC + "::run"):
        body = fn["body"]
        loops = [l for l in walk(body) if l.get("k") == "for" and any(is_call(x, name="rbegin") for x in walk(l.get("i")))]
        if len(loops) != 1:
            fwd = [l for l in walk(body) if l.get("k") == "for" and any(is_call(x, name="get_live") for x in walk(l.get("b")))
                   and any(is_call(x, name="begin") for x in walk(l.get("i")))]
            if fwd:
                ctx.bad("DCE scans the statements of a block forwards: liveness after each statement is wrong", fn, fwd[0], sig="dce-forward-scan")
            else:
                ctx.undecided("cannot find the backward statement scan", fn, body)
            continue
        sl = loops[0]
        ctx.ok("statements scanned rbegin..rend", fn, sl)
        ups = []
        for l in walk(sl.get("b")):
            if l.get("k") in ("for", "rangefor"):
                kind = "defs" if any(is_call(x, name="defs_begin") for x in walk(l)) else ("uses" if any(is_call(x, name="uses_begin") for x in walk(l)) else None)
                if kind is None:
                    continue
                for n in walk(l.get("b")):
                    if n.get("k") == "call" and n.get("op") in ("+=", "-=") and is_ref(n.get("o")):
                        ups.append((kind, n["op"], n))
        seq = [(k, op) for k, op, n in ups]
        if seq == [("defs", "-="), ("uses", "+=")]:
            ctx.ok("out_live -= defs; out_live += uses", fn, ups[0][2])
        else:
            ctx.bad("live set update after a statement is %s; expected out_live -= defs followed by out_live += uses "
                    "(x = x + 1 must leave x live)" % seq, fn, sl, sig="dce-live-update")
        # decision precedes the update
        pushes = [n for n in walk(sl.get("b")) if is_call(n, name="push_back")]
        order = [x for x in walk(sl.get("b")) if (pushes and x is pushes[0]) or (ups and x is ups[0][2])]
        if pushes and ups and order[0] is pushes[0]:
            ctx.ok("removal decided against the live set AFTER the statement, before it is updated", fn, pushes[0])
        elif pushes and ups:
            ctx.bad("the removal decision is taken after the live set was updated with the statement's own defs/uses", fn, pushes[0], sig="dce-decision-order")
        # removal after the scan, update_uses_and_defs after removal
        def gen(n):
            if n is sl:
                return ()
            if is_call(n, name="remove") and is_ref(obj(n)):
                return ("removed",)
            return ()
        rm = [n for n in walk(body) if is_call(n, name="remove") and len(n.get("a", [])) == 2]
        inside = [n for n in rm if any(n is x for x in walk(sl))]
        if inside:
            ctx.bad("statements are removed while the block is still being scanned (iterator invalidation / wrong liveness)", fn, inside[0], sig="dce-remove-in-scan")
        upd = [n for n in walk(body) if is_call(n, name="update_uses_and_defs")]
        if rm and upd:
            order = [x for x in walk(body) if x is rm[0] or x is upd[0]]
            if order[0] is rm[0]:
                ctx.ok("bb.update_uses_and_defs() after the removals", fn, upd[0])
            else:
                ctx.bad("update_uses_and_defs() runs before the dead statements are removed", fn, upd[0], sig="dce-update-order")
        else:
            ctx.bad("DCE no longer refreshes the block's use/def sets after removing statements", fn, body, sig="dce-no-update")


def r4_lowering(ctx):
    ctx.rule("C17.r4", "lowering: only proven assertions; assert(c)->assume(c), ref_assert(c)->ref_assume(c), bool_assert(b)->bool_assume(b,false); in place", floor=5)
    LS = "crab::transforms::lower_safe_assertions"
    for fn in ctx.db.fns(LSA, pk=LS + "::run"):
        body = fn["body"]
        g = paths.guards(body)
        pushes = [n for n, ps in nodes_not_in_log(body, lambda x: is_call(x, name="push_back"))]
        for p in pushes:
            def safe_atom(c):
                pp = cmp_parts(c)
                if pp and is_call(pp[1], name="count") and is_field(obj(pp[1]), "m_safe_checks") and isinstance(pp[2], dict) and pp[2].get("v") == "0":
                    return {">": 1, "!=": 1, "==": -1, "<=": -1}.get(pp[0], 0)
                if is_call(strip(c), name="count") and is_field(obj(strip(c)), "m_safe_checks"):
                    return 1
                return 0
            if guard_truth(g.get(id(p), ()), safe_atom, body) is True:
                ctx.ok("only statements in m_safe_checks are queued for lowering", fn, p)
            else:
                ctx.bad("an assertion is queued for lowering without being in the set of proven assertions", fn, p, sig="lsa-unproven")
        news = [n for n in walk(body) if n.get("k") == "new"]
        want = {"assume_stmt": ("is_assert", "constraint", None), "assume_ref_stmt": ("is_ref_assert", "constraint", None),
                "bool_assume_stmt": ("is_bool_assert", "cond", "false")}
        seen = set()
        for n in news:
            ctor = strip(n.get("e"))
            cn = (callee(ctor) or {}).get("cpk", "").split("::")[-1] if isinstance(ctor, dict) else ""
            if cn not in want:
                ctx.bad("lowering creates a `%s` statement" % cn, fn, n, sig="lsa-kind:%s" % cn)
                continue
            kind_pred, acc, lit = want[cn]
            seen.add(cn)

            def kp(c, _k=kind_pred):
                return 1 if is_call(strip(c), name=_k) else 0
            tk = guard_truth(g.get(id(n), ()), kp, body)
            a = ctor.get("a", [])
            a0 = strip(a[0]) if a else None
            okacc = is_call(a0, name=acc)
            oklit = True
            if lit is not None:
                oklit = len(a) > 1 and isinstance(strip(a[1]), dict) and strip(a[1]).get("v") == lit
            if tk is True and okacc and oklit:
                ctx.ok("%s -> %s(%s%s)" % (kind_pred, cn, acc, "" if lit is None else ", " + lit), fn, n)
            else:
                ctx.bad("lowering of %s builds %s(%s): expected the assume of the SAME condition%s under s->%s()" %
                        (kind_pred, cn, src(a[:2]), "" if lit is None else " with is_negated=false", kind_pred), fn, n,
                        sig="lsa-shape:%s" % cn)
        for cn in want:
            if cn not in seen:
                ctx.bad("lowering no longer handles %s" % want[cn][0], fn, body, sig="lsa-missing:%s" % cn)
        reps = [n for n in walk(body) if is_call(n, name="replace")]
        if reps and all(len(r.get("a", [])) == 2 for r in reps):
            ctx.ok("replaced in place with parent->replace(s, new_s)", fn, reps[0])
        else:
            ctx.bad("lowered assertions are not replaced in place", fn, body, sig="lsa-replace")


def r5_clone(ctx):
    ctx.rule("C17.r5", "clone() of every statement class copies every data member", floor=30)
    _stmts.clone_rule(ctx, "C17.r5")


def r6_edges(ctx):
    ctx.rule("C17.r6", "successor/predecessor lists are written pairwise (edge symmetry)", floor=4)
    _cfgedges.edge_symmetry_rule(ctx, "C17.r6")


def r7_entry_exit(ctx):
    ctx.rule("C17.r7", "entry and exit blocks are never removed; exit is redirected before its block is merged away", floor=3)
    _cfgedges.entry_exit_rule(ctx, "C17.r7")


def r8_registration(ctx):
    ctx.rule("C17.r8", "the def/use sets DCE consumes are complete: every operand of every statement is registered", floor=70)
    _stmts.registration_rule(ctx, "C17.r8")


RULES = [r8_registration, r1_dce_guard, r2_keep, r3_live_update, r4_lowering, r5_clone, r6_edges, r7_entry_exit]


def r9_merge_appends(ctx):
    ctx.rule("C17.r9", "simplify merges a block into its predecessor by APPENDING its statements (basic_block::copy_back): the "
             "position does not depend on the block's mutable insertion-point state, and the live sets are merged", floor=1)
    CFG = "include/crab/cfg/cfg.hpp"
    BB = "crab::cfg::basic_block"
    allf = ctx.db.fns(CFG, cpk=BB)
    # methods whose insertion position depends on m_insert_point_at_front
    pos_dep = {f["name"] for f in allf if any(is_field(x, "m_insert_point_at_front") for x in walk(f["body"])) and not f.get("ctor")}
    fs = [f for f in allf if f["name"] == "copy_back"]        # move_back has no caller in the tree
    if not ctx.need(fs, "basic_block::copy_back"):
        return
    for fn in fs:
        body = fn["body"]
        calls = [x for x in walk(body) if x.get("k") == "call" and callee(x) and callee(x).get("cpk") == BB and callee(x)["name"] in pos_dep and
                 ("o" not in x or is_this(x.get("o")))]
        if calls:
            ctx.bad("basic_block::%s adds the statements through `%s`, whose position depends on the pending front-insertion flag "
                    "(m_insert_point_at_front): with the flag set the first merged statement is placed BEFORE the statements of the "
                    "receiving block" % (fn["name"], callee(calls[0])["name"]), fn, calls[0], sig="merge-position-dependent:%s" % fn["name"])
            continue
        app = [x for x in walk(body) if is_call(x, name=("insert", "push_back")) and is_field(obj(x), "m_stmts")]
        at_end = [x for x in app if callee(x)["name"] == "push_back" or (x.get("a") and any(is_call(y, name="end") for y in walk(x["a"][0])))]
        live = [x for x in walk(body) if (x.get("k") == "call" and x.get("op") in ("=", "|=") and is_field(x.get("o"), "m_live")) or
                is_call(x, name=("update_uses_and_defs",))]
        if app and len(at_end) == len(app) and live:
            ctx.ok("%s appends at m_stmts.end() and merges m_live" % fn["name"], fn, app[0])
        elif not app:
            ctx.undecided("%s: the append to m_stmts was not found" % fn["name"], fn, body)
        elif len(at_end) != len(app):
            ctx.bad("basic_block::%s does not insert at m_stmts.end()" % fn["name"], fn, app[0], sig="merge-not-at-end:%s" % fn["name"])
        else:
            ctx.bad("basic_block::%s does not merge the live (use/def) sets of the appended statements" % fn["name"], fn, body,
                    sig="merge-live-dropped:%s" % fn["name"])


RULES += [r9_merge_appends]


def r10_fold_guards(ctx):
    ctx.rule("C17.r10", "simplify folds a block C into its predecessor P (P.copy_back(C); remove(C)) only if C is not the entry block "
             "(which cannot be removed: a cycle through the entry gives it a single predecessor) and P is not the exit block "
             "(the executions that end at the exit must not run the statements of its successors)", floor=2)
    CFG = "include/crab/cfg/cfg.hpp"
    CFGC = "crab::cfg::cfg"
    from ..match import guard_truth
    n = 0
    for fn in ctx.db.fns(CFG, cpk=CFGC):
        body = fn.get("body")
        if not body:
            continue
        folds = [c for c in walk(body) if is_call(c, name="copy_back") and "o" in c and c.get("a")]
        if not folds:
            continue
        decls = local_decls(body)
        gs = paths.guards(body)

        def label_forms(blk):
            """expressions that denote the label of the block `blk`"""
            out = []
            b = strip(blk)
            r = resolve_local(body, b, decls)
            if is_call(r, name=("get_node",)) and r.get("a"):
                out.append(strip(r["a"][0]))
            return b, out

        def is_label_of(e, blk):
            b, forms = label_forms(blk)
            e = strip(e)
            if is_call(e, name="label") and "o" in e and same_expr(strip(e["o"]), b):
                return True
            return any(same_expr(e, f) for f in forms)

        def is_sel(e, names, field):
            e = strip(e)
            if is_call(e, name=names) and (("o" not in e) or is_this(e.get("o"))):
                return True
            e = deref(e) if isinstance(e, dict) else e
            return is_field(e, field)

        for c in folds:
            n += 1
            P, C = c["o"], c["a"][0]

            def atom_entry(x):
                cp = cmp_parts(x)
                if not cp or cp[0] not in ("==", "!="):
                    return 0
                for a, b in ((cp[1], cp[2]), (cp[2], cp[1])):
                    if is_sel(a, ("entry",), "m_entry") and is_label_of(b, C):
                        return 1 if cp[0] == "==" else -1
                return 0

            def atom_exit(x):
                x = strip(x)
                cp = cmp_parts(x)
                if cp and cp[0] in ("==", "!="):
                    for a, b in ((cp[1], cp[2]), (cp[2], cp[1])):
                        if is_sel(a, ("exit",), "m_exit") and is_label_of(b, P):
                            return 1 if cp[0] == "==" else -1
                    return 0
                if isinstance(x, dict) and x.get("k") == "bin" and x.get("op") == "&&":
                    l, r = strip(x.get("L")), strip(x.get("R"))
                    for a, b in ((l, r), (r, l)):
                        if is_call(a, name="has_exit") and atom_exit(b) == 1:
                            return 1        # `has_exit() && exit() == P` IS the predicate "P is the exit block"
                return 0
            g = gs.get(id(c), ())
            te = guard_truth(g, atom_entry, body)
            tx = guard_truth(g, atom_exit, body)
            if te is False:
                ctx.ok("%s: the folded block is not the entry block" % fn["name"], fn, c)
            else:
                ctx.bad("cfg::%s folds a block into its predecessor without excluding the entry block: on `entry -> b -> entry` (or "
                        "`entry -> entry`) the entry has one predecessor whose only successor it is, and remove(entry) ends the process "
                        "with CRAB_ERROR(\"Cannot remove entry block\")" % fn["name"], fn, c, sig="fold-entry:%s" % fn["name"])
            if tx is False:
                ctx.ok("%s: nothing is appended to the exit block" % fn["name"], fn, c)
            else:
                ctx.bad("cfg::%s appends the statements of a block to its predecessor without excluding the exit block: on "
                        "`entry -> exit -> c -> d` the assignment of c ends up in the exit block and every execution that ended at the "
                        "exit now returns the values computed by c" % fn["name"], fn, c, sig="fold-into-exit:%s" % fn["name"])
    if n == 0:
        ctx.fail("rule C17.r10: no block fold (copy_back) found in crab::cfg::cfg")


RULES += [r10_fold_guards]
