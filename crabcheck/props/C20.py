"""C20 - numbers and linear constraints keep their mathematical meaning."""
from ..tree import (walk, walk_with_parents, strip, is_call, is_ref, is_this, is_field, deref, same_expr,
                    src, obj, args, callee)
from .. import paths
from ..match import (strip_move, is_param, rets, nodes_not_in_log, resolve_local, local_decls, writes_to, cmp_parts,
                     guard_truth, atom_truth)
from . import _enumswitch as es

LEVEL_TEXT = ("Clause-level static rules: every big-number operator delegates to the GMP primitive with the documented rounding "
              "(tdiv for / and %, fdiv_q_2exp for >>, mul_2exp for <<, and/ior/xor, cmp with the matching relation), divisions test "
              "the divisor first, rational rounding adjusts the truncated quotient only for non-integral values of the right sign; "
              "checked 64-bit arithmetic widens both operands to 128 bits before the operation and compares with the int64 limits, "
              "and every safe_i64 operator uses the matching checked_* and aborts on overflow; each of the 72 relational constraint "
              "builders (x2 number types) builds the kind of its operator over lhs-rhs (or rhs-lhs for >=, >); tautology / "
              "contradiction tests compare the constant with 0 using the kind's own relation / its complement; negation is the exact "
              "complement (affine form -E+1 over Z, -E strict over Q). Linear-expression map arithmetic, normalisation of "
              "constraint systems and string round trips are NOT decided.")
ASSUMPTIONS = ["GMP functions behave as documented (mpz_tdiv_q truncates, mpz_fdiv_q_2exp floors, ...)",
               "__int128 arithmetic on two int64 operands cannot overflow"]

BIG = "lib/bignums.cpp"
SAFE = "lib/safeint.cpp"
LC = "include/crab/types/linear_constraints.hpp"

GMP = {
    ("z_number", "operator+"): {"z_add"}, ("z_number", "operator-", 1): {"z_sub"}, ("z_number", "operator-", 0): {"z_neg"},
    ("z_number", "operator*"): {"z_mul"}, ("z_number", "operator/"): {"z_tdiv_q"}, ("z_number", "operator%"): {"z_tdiv_r"},
    ("z_number", "operator+="): {"z_add"}, ("z_number", "operator-="): {"z_sub"}, ("z_number", "operator*="): {"z_mul"},
    ("z_number", "operator/="): {"z_tdiv_q"}, ("z_number", "operator%="): {"z_tdiv_r"},
    ("z_number", "operator&"): {"z_and"}, ("z_number", "operator|"): {"z_ior"}, ("z_number", "operator^"): {"z_xor"},
    ("z_number", "operator<<"): {"z_mul_2exp", "z_get_ui", "z_fits_ulong_p"}, ("z_number", "operator>>"): {"z_fdiv_q_2exp", "z_get_ui", "z_fits_ulong_p"},
    ("z_number", "operator++", 0): {"z_add_ui"}, ("z_number", "operator--", 0): {"z_sub_ui"},
    ("q_number", "operator+"): {"q_add"}, ("q_number", "operator-", 1): {"q_sub"}, ("q_number", "operator-", 0): {"q_neg"},
    ("q_number", "operator*"): {"q_mul"}, ("q_number", "operator/"): {"q_div"},
    ("q_number", "operator+="): {"q_add"}, ("q_number", "operator-="): {"q_sub"}, ("q_number", "operator*="): {"q_mul"},
    ("q_number", "operator/="): {"q_div"}, ("q_number", "operator<<"): {"q_mul_2exp", "z_get_ui", "z_fits_ulong_p"},
}
CMP = {"operator==": "==", "operator<": "<", "operator<=": "<=", "operator>": ">", "operator>=": ">="}
IGNORE = ("_init", "_clear", "z_set", "q_set", "q_canonicalize", "z_init_set", "_get_memory_functions")


def _gmp_calls(fn):
    out = []
    for n in walk(fn["body"]):
        if n.get("k") == "call" and callee(n) and callee(n)["name"].startswith("__gmp"):
            nm = callee(n)["name"][len("__gmp"):]
            if not any(nm.endswith(x) for x in IGNORE):
                out.append((nm, n))
    return out


def r1_gmp(ctx):
    ctx.rule("C20.r1", "big-number operators delegate to the GMP primitive with the documented rounding; divisions test for zero", floor=40)
    fs = ctx.db.fns(BIG)
    if not ctx.need(fs, "lib/bignums.cpp"):
        return
    for fn in fs:
        cls = (fn.get("cpk") or "").split("::")[-1]
        if cls not in ("z_number", "q_number"):
            continue
        np_ = len(fn.get("params", []))
        key = (cls, fn["name"], np_) if (cls, fn["name"], np_) in GMP else (cls, fn["name"])
        calls = _gmp_calls(fn)
        names = set(c[0] for c in calls)
        if key in GMP and not (fn["name"] in ("operator++", "operator--") and np_ == 1):
            want = GMP[key]
            if names == want:
                ctx.ok("%s::%s -> %s" % (cls, fn["name"], sorted(want)), fn, calls[0][1] if calls else None)
            else:
                ctx.bad("%s::%s is computed with GMP primitive(s) %s; the operation's meaning (%s) requires %s" %
                        (cls, fn["name"], sorted(names), {"z_tdiv_q": "truncating division", "z_tdiv_r": "remainder of truncating division",
                                                         "z_fdiv_q_2exp": "floor right shift"}.get(sorted(want)[0], "exact arithmetic"), sorted(want)),
                        fn, calls[0][1] if calls else fn["body"], sig="gmp:%s::%s/%d" % (cls, fn["name"], np_))
            if any(w in ("z_tdiv_q", "z_tdiv_r", "q_div") for w in want):
                g = paths.guards(fn["body"])

                def zero(c):
                    p = cmp_parts(c)
                    if p and is_param(p[1], fn, 0) and _lit(p[2]) == 0:
                        return {"==": 1, "!=": -1}.get(p[0], 0)
                    c = strip(c)
                    if is_call(c, name=("is_zero",)) and is_param(obj(c), fn, 0):
                        return 1
                    return 0
                dv = [n for nm, n in calls if nm in ("z_tdiv_q", "z_tdiv_r", "q_div")]
                if dv and all(guard_truth(g.get(id(d), ()), zero, fn["body"]) is False for d in dv):
                    ctx.ok("%s::%s tests the divisor for zero first" % (cls, fn["name"]), fn, dv[0])
                else:
                    ctx.bad("%s::%s divides without testing the divisor for zero (GMP aborts with SIGFPE)" % (cls, fn["name"]), fn,
                            fn["body"], sig="gmp-zero:%s::%s" % (cls, fn["name"]))
        elif fn["name"] in CMP and np_ == 1:
            cmpc = [n for nm, n in calls if nm in ("z_cmp", "q_cmp")]
            rel = [n for n in walk(fn["body"]) if n.get("k") == "bin" and n.get("op") in ("==", "!=", "<", "<=", ">", ">=") and
                   any(x is c for c in cmpc for x in walk(n.get("L")))]
            okc = False
            if len(cmpc) == 1 and len(rel) == 1:
                c = cmpc[0]
                a = [deref(x) for x in c.get("a", [])]
                first_this = len(a) == 2 and isinstance(a[0], dict) and a[0].get("k") == "mem" and is_this(a[0].get("b")) and \
                    isinstance(a[1], dict) and a[1].get("k") == "mem" and is_param(a[1].get("b"), fn, 0)
                zero = isinstance(strip(rel[0].get("R")), dict) and strip(rel[0]["R"]).get("v") == "0"
                okc = first_this and zero and rel[0]["op"] == CMP[fn["name"]]
            if not okc and not cmpc and cls == "q_number" and fn["name"] == "operator==":
                # mpq_equal(this, x) != 0 is the same function on canonical operands (invariant decided by C20.r6)
                eq = [n for nm, n in calls if nm == "q_equal"]
                rel = [n for n in walk(fn["body"]) if n.get("k") == "bin" and n.get("op") in ("==", "!=") and
                       any(x is c for c in eq for x in walk(n.get("L")))]
                if len(eq) == 1 and len(rel) == 1 and strip(rel[0].get("R")).get("v") == "0" and rel[0]["op"] == "!=":
                    cmpc = eq
                    okc = True
            if okc:
                ctx.ok("%s::%s: cmp(this, x) %s 0" % (cls, fn["name"], CMP[fn["name"]]), fn, cmpc[0])
            else:
                ctx.bad("%s::%s must be `cmp(this, x) %s 0`; found `%s`" % (cls, fn["name"], CMP[fn["name"]], src(rel[0])[:60] if rel else "?"),
                        fn, fn["body"], sig="gmp-cmp:%s::%s" % (cls, fn["name"]))
    # rational rounding
    for name, bad_sign, adj in (("round_to_upper", "<", "+"), ("round_to_lower", ">", "-")):
        for fn in ctx.db.fns(BIG, pk="ikos::q_number::" + name):
            body = fn["body"]
            g = paths.guards(body)
            d = local_decls(body)
            rs = rets(body)
            good = True
            n_adj = 0
            for r in rs:
                v = strip_move(r.get("v"))
                is_adj = isinstance(v, dict) and v.get("k") == "call" and v.get("op") in ("+", "-")
                if not is_adj:
                    continue
                n_adj += 1
                if v.get("op") != adj:
                    good = False

                def int_val(c):
                    p = cmp_parts(c)
                    if p and _lit(p[2]) == 0 and is_ref(p[1]):
                        dd = d.get(p[1].get("id"))
                        if dd is not None and "i" in dd and is_call(strip_move(dd["i"]), op="%"):
                            return {"==": 1, "!=": -1}.get(p[0], 0)
                    return 0

                def sign(c):
                    p = cmp_parts(c)
                    if p and is_this(p[1]) and _lit(p[2]) == 0 and p[0] == bad_sign:
                        return 1
                    return 0
                if not (guard_truth(g.get(id(r), ()), int_val, body) is False and guard_truth(g.get(id(r), ()), sign, body) is False):
                    good = False
            if good and n_adj == 1:
                ctx.ok("%s: truncated quotient %s 1 only for non-integral values that are not %s 0" % (name, adj, bad_sign), fn, None)
            else:
                ctx.bad("q_number::%s must return trunc(num/den) %s 1 exactly when the remainder is non-zero and the value is not %s 0"
                        % (name, adj, bad_sign), fn, body, sig="round:%s" % name)


def r2_safeint(ctx):
    ctx.rule("C20.r2", "checked_* widen both operands to 128 bits before the operation and compare with the int64 limits; safe_i64 operators use them", floor=10)
    opmap = {"checked_add": "+", "checked_sub": "-", "checked_mul": "*", "checked_div": "/"}
    for name, op in opmap.items():
        fs = ctx.db.fns(SAFE, pk="crab::safe_i64::" + name)
        if not ctx.need(fs, name):
            continue
        for fn in fs:
            body = fn["body"]
            ar = [n for n in walk(body) if n.get("k") == "bin" and n.get("op") in ("+", "-", "*", "/")]
            wide = [n for n in ar if "__int128" in (n.get("TC") or "") and "__int128" in (n.get("LTC") or "") and "__int128" in (n.get("RTC") or "")]
            wrong = [n for n in ar if n not in wide]
            # the widening must happen BEFORE the operation: each operand is an explicit cast of a parameter
            okw = False
            for n in wide:
                l, r = n.get("L"), n.get("R")
                def widened_param(e, i):
                    return isinstance(e, dict) and (e.get("k") == "cast" or True) and is_param(strip(e), fn, i) and \
                        isinstance(_first_cast(e), dict)
                if n.get("op") == op and widened_param(l, 0) and widened_param(r, 1):
                    okw = True
            if okw and not wrong:
                ctx.ok("%s: (wideint)a %s (wideint)b" % (name, op), fn, wide[0])
            else:
                ctx.bad("%s must compute `(wideint_t)a %s (wideint_t)b` (both operands widened before the operation); found %s" %
                        (name, op, [src(n)[:40] for n in ar]), fn, (wrong or ar or [body])[0], sig="checked-wide:%s" % name)
            rs = rets(body)
            okr = False
            for r in rs:
                v = strip(r.get("v"))
                if isinstance(v, dict) and v.get("k") == "bin" and v.get("op") == "||":
                    parts = [cmp_parts(v.get("L")), cmp_parts(v.get("R"))]
                    kinds = set()
                    for p in parts:
                        if p and is_call(p[2], name="get_max") and p[0] == ">":
                            kinds.add("max")
                        if p and is_call(p[2], name="get_min") and p[0] == "<":
                            kinds.add("min")
                    okr = kinds == {"max", "min"}
            if okr:
                ctx.ok("%s: overflow flag = lr > max || lr < min" % name, fn, rs[0])
            else:
                ctx.bad("%s must report overflow as `lr > get_max() || lr < get_min()`" % name, fn, body, sig="checked-flag:%s" % name)
    use = {"operator+": "checked_add", "operator-": "checked_sub", "operator*": "checked_mul", "operator/": "checked_div",
           "operator+=": "checked_add", "operator-=": "checked_sub"}
    for fn in ctx.db.fns(SAFE, cpk="crab::safe_i64"):
        if fn["name"] not in use or len(fn.get("params", [])) != 1:
            continue
        body = fn["body"]
        cs = [n for n in walk(body) if n.get("k") == "call" and callee(n) and callee(n)["name"].startswith("checked_")]
        raw = [n for n in walk(body) if n.get("k") in ("bin", "asg") and n.get("op") in ("+", "-", "*", "/", "+=", "-=", "*=") and
               any(x.get("k") == "mem" and x.get("n") == "m_num" for x in walk(n))]
        if len(cs) == 1 and callee(cs[0])["name"] == use[fn["name"]] and not raw and any(paths.terminates(x) for x in walk(body) if x.get("k") == "do"):
            ctx.ok("safe_i64::%s uses %s and aborts on overflow" % (fn["name"], use[fn["name"]]), fn, cs[0])
        else:
            ctx.bad("safe_i64::%s must compute through %s and raise an error on overflow (found %s%s)" %
                    (fn["name"], use[fn["name"]], [callee(c)["name"] for c in cs], ", raw arithmetic on m_num" if raw else ""), fn, body,
                    sig="safe-op:%s" % fn["name"])


def _first_cast(e):
    while isinstance(e, dict):
        if e.get("k") == "cast":
            return e
        if e.get("k") in ("ctor",) and e.get("cp") and e.get("a"):
            e = e["a"][0]
        else:
            return None
    return None


KINDS = {"operator<=": ("INEQUALITY", False), "operator<": ("STRICT_INEQUALITY", False), "operator==": ("EQUALITY", False),
         "operator!=": ("DISEQUATION", False), "operator>=": ("INEQUALITY", True), "operator>": ("STRICT_INEQUALITY", True)}


def r3_builders(ctx):
    ctx.rule("C20.r3", "a ~ b builds kind(~) over a - b (b - a for >=, >)", floor=130)
    seen = set()
    for fn in ctx.db.fns(LC):
        if fn["name"] not in KINDS or fn.get("cpk") or len(fn.get("params", [])) != 2:
            continue
        if "linear_constraint" not in (fn.get("ret") or ""):
            continue
        kind, swapped = KINDS[fn["name"]]
        rs = rets(fn["body"])
        if len(rs) != 1:
            ctx.undecided("%s(%s) is not a single return" % (fn["name"], fn["psig"][:40]), fn, fn["body"])
            continue
        v = strip_move(rs[0].get("v"))
        if not (isinstance(v, dict) and v.get("k") == "ctor" and len(v.get("a", [])) == 2):
            ctx.undecided("%s(%s) does not construct a constraint directly" % (fn["name"], fn["psig"][:40]), fn, rs[0])
            continue
        e, kd = strip_move(v["a"][0]), es.first_enum_ref(v["a"][1])
        sub = e if (isinstance(e, dict) and e.get("k") == "call" and e.get("op") == "-") else None
        order = None
        if sub is not None:
            ops = ([sub["o"]] if "o" in sub else []) + sub.get("a", [])
            if len(ops) == 2:
                i0 = [i for i in (0, 1) if is_param(ops[0], fn, i)]
                i1 = [i for i in (0, 1) if is_param(ops[1], fn, i)]
                if i0 and i1:
                    order = (i0[0], i1[0])
        want = (1, 0) if swapped else (0, 1)
        key = (fn["name"], fn["psig"], "q" if "q_number" in fn["qn"] or "q_number" in (fn.get("ret") or "") else "z")
        seen.add(key)
        symmetric = kind in ("EQUALITY", "DISEQUATION")
        if (order == want or (symmetric and order in ((0, 1), (1, 0)))) and kd is not None and kd["n"] == kind:
            ctx.ok("%s(%s): %s over %s" % (fn["name"], fn["psig"][:50], kind, "b - a" if swapped else "a - b"), fn, rs[0])
        else:
            ctx.bad("%s(%s) builds `%s` of kind %s; expected %s over %s" %
                    (fn["name"], fn["psig"][:60], src(e)[:40], kd["n"] if kd else "?", kind, "rhs - lhs" if swapped else "lhs - rhs"),
                    fn, rs[0], sig="builder:%s(%s)" % (fn["name"], fn["psig"]))


TAUT = {"DISEQUATION": "!=", "EQUALITY": "==", "INEQUALITY": "<=", "STRICT_INEQUALITY": "<"}
CONTRA = {"DISEQUATION": "==", "EQUALITY": "!=", "INEQUALITY": ">", "STRICT_INEQUALITY": ">="}


def r4_taut_contra(ctx):
    ctx.rule("C20.r4", "is_tautology / is_contradiction compare the constant with 0 using the kind's relation / its complement", floor=16)
    for name, table in (("is_tautology", TAUT), ("is_contradiction", CONTRA)):
        fs = ctx.db.fns(LC, pk="ikos::linear_constraint::" + name)
        if not ctx.need(fs, name):
            continue
        for fn in fs:
            sw = [n for n in walk(fn["body"]) if n.get("k") == "switch"]
            if len(sw) != 1:
                ctx.undecided("%s is not a switch over the kind" % name, fn, fn["body"])
                continue
            named = set()
            for labels, stmts in es.switch_cases(sw[0]):
                r = [s for s in stmts if s.get("k") == "ret"]
                if not r:
                    continue
                v = strip(r[0].get("v"))
                rel = None
                isconst = False
                if isinstance(v, dict) and v.get("k") == "bin" and v.get("op") == "&&":
                    isconst = is_call(strip(v.get("L")), name="is_constant")
                    p = cmp_parts(v.get("R"))
                    if p and is_call(p[1], name="constant") and _lit(p[2]) == 0:
                        rel = p[0]
                for lab in labels:
                    labs = [lab] if lab != "default" else [k for k in table if k not in named]
                    for l2 in labs:
                        named.add(l2)
                        if isconst and rel == table.get(l2):
                            ctx.ok("%s[%s]: is_constant() && constant() %s 0" % (name, l2, rel), fn, r[0])
                        else:
                            ctx.bad("%s for kind %s tests `%s`; expected is_constant() && constant() %s 0" %
                                    (name, l2, src(v)[:60], table.get(l2)), fn, r[0], sig="taut:%s:%s" % (name, l2))
            for k in table:
                if k not in named:
                    ctx.bad("%s has no case for kind %s" % (name, k), fn, sw[0], sig="taut-missing:%s:%s" % (name, k))


def _affine(e, base_pred, depth=0):
    """(a, b) with e == a*E + b for the base expression E, else None"""
    e = strip_move(e)
    if not isinstance(e, dict) or depth > 8:
        return None
    if base_pred(e):
        return (1, 0)
    if e.get("k") == "ctor" and len(e.get("a", [])) == 1:
        return _affine(e["a"][0], base_pred, depth + 1)
    if e.get("k") == "call" and e.get("op") in ("-", "+"):
        ops = ([e["o"]] if "o" in e else []) + e.get("a", [])
        if len(ops) == 1 and e["op"] == "-":
            r = _affine(ops[0], base_pred, depth + 1)
            return None if r is None else (-r[0], -r[1])
        if len(ops) == 2:
            l = _affine(ops[0], base_pred, depth + 1)
            lit = _lit(ops[1])
            if l is not None and lit is not None:
                return (l[0], l[1] + lit if e["op"] == "+" else l[1] - lit)
    if e.get("k") == "un" and e.get("op") == "-":
        r = _affine(e.get("e"), base_pred, depth + 1)
        return None if r is None else (-r[0], -r[1])
    return None


def _lit(e):
    e = strip_move(e)
    while isinstance(e, dict) and e.get("k") == "ctor" and len(e.get("a", [])) == 1:
        e = strip_move(e["a"][0])
    if isinstance(e, dict) and e.get("k") == "lit":
        try:
            return int(e.get("v"))
        except (TypeError, ValueError):
            return None
    return None


def r5_negation(ctx):
    ctx.rule("C20.r5", "negation is the exact complement: INEQ -> (-E+1, INEQ) over Z / (-E, STRICT) over Q; STRICT -> (-E, INEQ); EQ <-> DISEQ", floor=8)

    def is_expr_of(e, fn=None):
        e = strip(e)
        if is_call(e, name="expression"):
            return True
        if isinstance(e, dict) and e.get("k") == "mem" and e.get("n") == "_expr":
            return True
        return False
    for fn in ctx.db.fns(LC, pk="ikos::linear_constraint_impl::negate_inequality"):
        isz = "z_number" in fn["psig"] or "z_number" in (fn.get("ret") or "")
        body = fn["body"]
        rs = rets(body)
        v = strip_move(rs[0].get("v")) if rs else None
        if not (isinstance(v, dict) and v.get("k") == "ctor" and len(v.get("a", [])) == 2):
            ctx.undecided("negate_inequality does not construct a constraint directly", fn, body)
            continue
        e = resolve_local(body, v["a"][0])
        af = _affine(e, is_expr_of)
        kd = es.first_enum_ref(v["a"][1])
        want = ((-1, 1), "INEQUALITY") if isz else ((-1, 0), "STRICT_INEQUALITY")
        if af == want[0] and kd and kd["n"] == want[1]:
            ctx.ok("negate_inequality<%s>: not(E <= 0) = %s" % ("Z" if isz else "Q", "-E + 1 <= 0" if isz else "-E < 0"), fn, rs[0])
        else:
            ctx.bad("negate_inequality<%s> builds (%s, %s); the complement of E <= 0 is %s" %
                    ("Z" if isz else "Q", "%s*E%+d" % af if af else src(e)[:40], kd["n"] if kd else "?",
                     "-E + 1 <= 0 (E >= 1)" if isz else "-E < 0"), fn, rs[0], sig="negate-ineq:%s" % ("z" if isz else "q"))
    for fn in ctx.db.fns(LC, pk="ikos::linear_constraint_impl::strict_to_non_strict_inequality"):
        isz = "z_number" in fn["psig"]
        if not isz:
            continue
        body = fn["body"]
        rs = rets(body)
        v = strip_move(rs[0].get("v")) if rs else None
        if isinstance(v, dict) and v.get("k") == "ctor" and len(v.get("a", [])) == 2:
            af = _affine(resolve_local(body, v["a"][0]), is_expr_of)
            kd = es.first_enum_ref(v["a"][1])
            if af == (1, 1) and kd and kd["n"] == "INEQUALITY":
                ctx.ok("strict_to_non_strict<Z>: E < 0 = E + 1 <= 0", fn, rs[0])
            else:
                ctx.bad("strict_to_non_strict_inequality<Z> builds (%s, %s); E < 0 over the integers is E + 1 <= 0" %
                        ("%s*E%+d" % af if af else "?", kd["n"] if kd else "?"), fn, rs[0], sig="strict-to-nonstrict")
    for fn in ctx.db.fns(LC, pk="ikos::linear_constraint::negate"):
        body = fn["body"]
        g = paths.guards(body)
        # tautology <-> contradiction
        for r in rets(body):
            v = strip_move(r.get("v"))

            def taut(c):
                return 1 if is_call(strip(c), name="is_tautology") else 0

            def contra(c):
                return 1 if is_call(strip(c), name="is_contradiction") else 0
            if is_call(v, name="get_false"):
                if guard_truth(g.get(id(r), ()), taut, body) is True:
                    ctx.ok("negate(tautology) = false", fn, r)
                else:
                    ctx.bad("negate returns get_false() outside the is_tautology() case", fn, r, sig="negate-false")
            if is_call(v, name="get_true"):
                if guard_truth(g.get(id(r), ()), contra, body) is True:
                    ctx.ok("negate(contradiction) = true", fn, r)
                else:
                    ctx.bad("negate returns get_true() outside the is_contradiction() case", fn, r, sig="negate-true")
        sw = [n for n in walk(body) if n.get("k") == "switch"]
        if len(sw) != 1:
            ctx.undecided("negate is not a switch over the kind", fn, body)
            continue
        want = {"INEQUALITY": "call:negate_inequality", "STRICT_INEQUALITY": ((-1, 0), "INEQUALITY"),
                "EQUALITY": ((1, 0), "DISEQUATION"), "DISEQUATION": ((1, 0), "EQUALITY")}
        named = set()
        for labels, stmts in es.switch_cases(sw[0]):
            rr = [x for s in stmts for x in walk(s) if x.get("k") == "ret"]
            if not rr:
                continue
            v = strip_move(rr[0].get("v"))
            for lab in labels:
                labs = [lab] if lab != "default" else [k for k in want if k not in named]
                for l2 in labs:
                    named.add(l2)
                    w = want.get(l2)
                    if w == "call:negate_inequality":
                        if is_call(v, name="negate_inequality") and v.get("a") and is_this(v["a"][0]):
                            ctx.ok("negate[INEQUALITY] -> negate_inequality(*this)", fn, rr[0])
                        else:
                            ctx.bad("negate of an inequality must go through negate_inequality(*this)", fn, rr[0], sig="negate-case:INEQUALITY")
                        continue
                    got = None
                    if isinstance(v, dict) and v.get("k") == "ctor" and len(v.get("a", [])) == 2:
                        seq = [s for s in stmts if isinstance(s, dict)]
                        holder = {"k": "seq", "b": seq}
                        af = _affine(resolve_local(holder, v["a"][0]), is_expr_of)
                        kd = es.first_enum_ref(v["a"][1])
                        got = (af, kd["n"] if kd else None)
                    if got == w:
                        ctx.ok("negate[%s] = (%s*E%+d, %s)" % (l2, w[0][0], w[0][1], w[1]), fn, rr[0])
                    else:
                        ctx.bad("negate of a %s constraint builds %s; the complement is (%s*E%+d, %s)" % (l2, got, w[0][0], w[0][1], w[1]),
                                fn, rr[0], sig="negate-case:%s" % l2)


RULES = [r1_gmp, r2_safeint, r3_builders, r4_taut_contra, r5_negation]


def r6_canonical(ctx):
    ctx.rule("C20.r6", "GMP protocol: a rational assembled from raw parts (numerator/denominator pair, string) is canonicalised "
             "(mpq_canonicalize) before it can be compared or rounded; routes that GMP documents as canonical are listed", floor=6)
    fs = [f for f in ctx.db.fns(BIG, cpk="ikos::q_number") if f.get("ctor") or f.get("static")]
    if not ctx.need(fs, "q_number constructors / factories"):
        return
    CANONICAL_SETTERS = {"__gmpq_init": "0/1", "__gmpq_set_d": "GMP: exact conversion, canonical result", "__gmpq_set_z": "n/1",
                         "__gmpq_set": "copies a rational (canonical if the source is: class invariant)",
                         "__gmpq_set_si": "caller passes den=1 here", "__gmpq_set_ui": "caller passes den=1 here"}
    for fn in fs:
        body = fn["body"]
        raw = []
        for n in walk(body):
            if n.get("k") != "call" or not callee(n):
                continue
            nm = callee(n)["name"]
            a = n.get("a", [])
            if nm == "__gmpq_set_str":
                raw.append((n, "mpq_set_str (GMP manual: the fraction is stored as written; mpq_canonicalize must be called unless it is "
                               "known to be canonical)"))
            elif nm in ("__gmpz_init_set", "__gmpz_set", "__gmpz_set_si", "__gmpz_set_ui", "__gmpz_init_set_si", "__gmpz_init_set_ui") and len(a) >= 2:
                dst_part = [x.get("n") for x in walk(a[0]) if x.get("k") == "mem" and x.get("n") in ("_mp_num", "_mp_den")]
                src_part = [x.get("n") for x in walk(a[1]) if x.get("k") == "mem" and x.get("n") in ("_mp_num", "_mp_den")]
                if dst_part and dst_part != src_part:
                    raw.append((n, "numerator/denominator written directly from an integer"))
        if not raw:
            ctx.ok("%s(%s): only canonical GMP setters / part-wise copy of a rational" % (fn["name"], fn["psig"][:50]), fn, body)
            continue

        def gen(n):
            if is_call(n, name="__gmpq_canonicalize"):
                return ("canon",)
            return ()
        f = paths.must_events(body, gen)
        leaks = [r for r, st in f.returns if "canon" not in st]
        # the raw write must precede the canonicalisation
        late = [n for n, why in raw if "canon" in f.at.get(id(n), ())]
        if leaks or late:
            n, why = raw[0]
            ctx.bad("q_number::%s(%s) fills the rational through %s and returns without mpq_canonicalize: a negative denominator or a "
                    "common factor survives, and mpq_cmp / sign tests / round_to_lower|upper (which assume GMP's canonical form) give "
                    "wrong answers (e.g. 7/-2 < 0 is false)" % (fn["name"], fn["psig"][:50], why), fn, n,
                    sig="q-not-canonical:%s(%s)" % (fn["name"], fn["psig"]))
        else:
            ctx.ok("%s(%s): raw parts canonicalised" % (fn["name"], fn["psig"][:50]), fn, raw[0][0])


RULES += [r6_canonical]


def r7_keyed_lookup(ctx):
    ctx.rule("C20.r7", "linear_constraint_system::normalize: the index of the partner inequality is read with `index_map[K]` - a lookup "
             "that DEFAULT-INSERTS 0 for an absent key - so K must be the key whose presence the enclosing test established "
             "(`expr_set.find(K)`; expr_set and index_map receive the same keys); with another key the constraint at position 0 is "
             "removed instead of the partner and the normal form loses it", floor=1)
    fs = ctx.db.fns(LC, name="normalize")
    fs = [f for f in fs if (f.get("cpk") or "").endswith("linear_constraint_system")]
    if not ctx.need(fs, "linear_constraint_system::normalize", "C20.r7"):
        return
    for fn in fs[:1]:
        body = fn["body"]
        g = paths.guards(body)
        d = local_decls(body)
        maps = {dd["id"] for dd in d.values() if "unordered_map" in ((dd.get("T") or "") + (dd.get("TC") or "")) or
                "map<" in ((dd.get("T") or "") + (dd.get("TC") or ""))}
        # containers that receive the same key in the same block as a map (twin inserts)
        twins = {}
        for blk in [b for b in walk(body) if b.get("k") == "seq"]:
            ins = []
            for st in blk.get("b", []):
                for c in ([st] if isinstance(st, dict) else []):
                    if is_call(c, name="insert") and c.get("o") is not None and c.get("a"):
                        o = strip(c["o"])
                        if isinstance(o, dict) and o.get("k") == "ref":
                            keys = [y for y in walk(c["a"][0]) if y.get("k") == "ref" and y.get("rk") in ("local", "param")]
                            ins.append((o["id"], keys[0]["id"] if keys else None))
            for (c1, k1) in ins:
                for (c2, k2) in ins:
                    if c1 in maps and c2 != c1 and k1 is not None and k1 == k2:
                        twins.setdefault(c1, set()).add(c2)
        n = 0
        for c in walk(body):
            if not (c.get("k") == "call" and c.get("op") == "[]" and c.get("o") is not None and c.get("a")):
                continue
            o = strip(c["o"])
            if not (isinstance(o, dict) and o.get("k") == "ref" and o.get("id") in maps):
                continue
            n += 1
            key = resolve_local(body, strip_move(c["a"][0]))
            ok = False
            why = "no membership test of the key encloses the lookup"
            for cond, pol in g.get(id(c), ()):
                if isinstance(cond, tuple):
                    continue
                p = cmp_parts(strip(cond))
                if not p or p[0] not in ("==", "!="):
                    continue
                present = (p[0] == "==" and pol is False) or (p[0] == "!=" and pol is True)
                for a, b in ((p[1], p[2]), (p[2], p[1])):
                    a = strip(a)
                    if is_call(a, name="find") and a.get("a") and is_call(strip(b), name="end"):
                        cont = strip(a.get("o"))
                        if isinstance(cont, dict) and cont.get("k") == "ref" and (cont.get("id") == o["id"] or cont.get("id") in twins.get(o["id"], ())):
                            k2 = resolve_local(body, strip_move(a["a"][0]))
                            if present and same_expr(key, k2):
                                ok = True
                            elif present:
                                why = "the enclosing test established the presence of `%s`, the lookup uses `%s`" % (src(k2)[:30], src(key)[:30])
            if ok:
                ctx.ok("index_map[K] under the membership test of the same K", fn, c)
            else:
                ctx.bad("linear_constraint_system::normalize reads `%s` but %s: operator[] default-inserts index 0 for an absent key, so "
                        "the constraint at position 0 is dropped from the normal form ({y<=2; x<=3; -x<=-3} normalises to {x=3; x<=3})" %
                        (src(c)[:40], why), fn, c, sig="default-inserting-lookup-of-untested-key")
        if n == 0:
            ctx.ok("normalize: no default-inserting map lookup", fn, body)


RULES += [r7_keyed_lookup]


def r8_no_zero_coefficient(ctx):
    ctx.rule("C20.r8", "linear_expression: a term is stored in the coefficient map only with a non-zero coefficient (the value is a "
             "non-zero literal, or the insertion is guarded by `coefficient != 0`); is_constant(), and with it the tautology / "
             "contradiction tests, look at the size of the map", floor=3)
    LE = "ikos::linear_expression"
    fs = [f for f in ctx.db.fns(LC) if (f.get("cpk") or "") == LE]
    if not ctx.need(fs, "linear_expression methods", "C20.r8"):
        return
    seen = set()
    n = 0
    for fn in fs:
        body = fn["body"]
        g = paths.guards(body)
        for c in walk(body):
            if not (is_call(c, name="insert") and c.get("o") is not None and any(x.get("k") == "mem" and x.get("n") == "_map" for x in walk(c["o"]))):
                continue
            key = (fn["name"], fn.get("psig"), c.get("l"))
            if key in seen:
                continue
            seen.add(key)
            n += 1
            # the stored coefficient: second argument of the pair constructor
            coef = None
            for p in walk(c.get("a", [None])[0] if c.get("a") else None):
                if p.get("k") == "ctor" and len(p.get("a", [])) == 2:
                    coef = strip_move(p["a"][1])
                    break
            if coef is None:
                ctx.skipped("C20.r8|%s|%s" % (fn["name"], c.get("l")), rid="C20.r8")
                continue
            lits = [y for y in walk(coef) if y.get("k") == "lit"]
            refs = [y for y in walk(coef) if y.get("k") == "ref" and y.get("rk") in ("param", "local")]
            if lits and not refs and all(y.get("v") not in ("0",) for y in lits):
                ctx.ok("%s: stores the literal coefficient %s" % (fn["name"], lits[0].get("v")), fn, c)
                continue
            okg = False
            for cond, pol in g.get(id(c), ()):
                if isinstance(cond, tuple):
                    continue
                p = cmp_parts(strip(cond))
                if not p:
                    continue
                op, a, b = p
                for u, v in ((a, b), (b, a)):
                    if any(same_expr(strip(u), r) for r in refs) and any(y.get("k") == "lit" and y.get("v") == "0" for y in walk(v)) and \
                            not any(y.get("k") == "ref" for y in walk(v)):
                        if (op == "!=" and pol is True) or (op == "==" and pol is False):
                            okg = True
            if okg:
                ctx.ok("%s: insertion guarded by coefficient != 0" % fn["name"], fn, c)
            else:
                ctx.bad("linear_expression::%s stores the term `%s` without having excluded a zero coefficient: 0*x then has size() 1, is "
                        "not is_constant(), and (0*x <= -1).is_contradiction() / (0*x <= 1).is_tautology() are false" %
                        (fn["name"], src(c)[:50]), fn, c, sig="zero-coefficient-stored:%s" % fn["name"])
    if n == 0:
        ctx.fail("rule C20.r8: no insertion into the coefficient map found")


RULES += [r8_no_zero_coefficient]



def r9_narrowing_conversions(ctx):
    ctx.rule("C20.r9", "big numbers: mpz_get_ui applied to an OPERAND (it returns the low 64 bits of the absolute value) is reached only "
             "where mpz_fits_ulong_p of the same operand holds and its sign was tested - otherwise 1000 >> -1 is 500 and "
             "1000 >> (2^64+1) is 500", floor=3)
    fs = ctx.db.fns(BIG)
    n = 0
    for fn in fs:
        cls = (fn.get("cpk") or "").split("::")[-1]
        if cls not in ("z_number", "q_number"):
            continue
        body = fn["body"]
        g = None
        for nm, c in _gmp_calls(fn):
            if nm != "z_get_ui":
                continue
            if g is None:
                g = paths.guards(body)
            n += 1
            arg = src(c["a"][0]) if c.get("a") else ""

            def fits(x, arg=arg):
                x = strip(x)
                if isinstance(x, dict) and x.get("k") == "call" and callee(x) and callee(x)["name"] == "__gmpz_fits_ulong_p" and x.get("a") and \
                        src(x["a"][0]) == arg:
                    return 1
                return 0

            def negative(x, arg=arg):
                # mpz_sgn is a macro:  ((z)->_mp_size < 0 ? -1 : (z)->_mp_size > 0)  compared with 0
                x = strip(x)
                p = cmp_parts(x)
                if p and p[0] == "<" and "_mp_size" in src(p[1]) and arg.split("->")[0].split(".")[0] in src(p[1]) and _lit(p[2]) == 0:
                    return 1
                return 0
            gs = g.get(id(c), ())
            f_ok = guard_truth(gs, fits, body) is True
            s_ok = guard_truth(gs, negative, body) is False
            if f_ok and s_ok:
                ctx.ok("%s::%s: mpz_get_ui(%s) under fits_ulong and a sign test" % (cls, fn["name"], arg[:20]), fn, c)
            else:
                ctx.bad("%s::%s converts `%s` with mpz_get_ui without %s: the low 64 bits of the absolute value are used as the amount "
                        "(1000 >> -1 = 500, 1000 >> (2^64+1) = 500)" %
                        (cls, fn["name"], arg[:30], "mpz_fits_ulong_p" if not f_ok else "a sign test"), fn, c,
                        sig="get-ui-unchecked:%s::%s" % (cls, fn["name"]))
    if n == 0:
        ctx.fail("rule C20.r9: no mpz_get_ui found in lib/bignums.cpp")


RULES += [r9_narrowing_conversions]
