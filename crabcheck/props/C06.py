"""C06 - the fixpoint engine computes the least solution when nothing is extrapolated."""
from . import _iterator as it
from . import _wto

LEVEL_TEXT = ("Clause-level static rules over the instantiated syntax trees of the fixpoint iterator: "
              "the join branch of extrapolate is taken iff iteration <= widening_delay (counter starts at 1); "
              "cycle entry joins exactly the predecessors outside the cycle; vertices join all predecessors from bottom; "
              "refine meets first and narrows afterwards; skipping ends only at the chosen entry; tables start at bottom. "
              "These are necessary conditions of 'least solution when nothing is extrapolated'; the equality of the "
              "computed solution with the least fixpoint for all graphs is NOT decided (needs the WTO to be well formed, C07)."
              " Under an assumption map every stored / propagated pre-state is met with the assumption of its block after the last join, also for the states coming back along back edges (typestate over the paths of both visit functions); a run started at a block outside the WTO of the CFG entry is a known finding (F82).")
ASSUMPTIONS = ["clang-14 AST of the instantiated templates is faithful to what g++ compiles",
               "the WTO handed to the iterator is well formed (C07 sentence 1, not decided)",
               "domain operators |, <=, & are sound (C03/C04)"]


def r1_delay(ctx):
    ctx.rule("C06.r1", "extrapolate joins iff iteration <= widening_delay; counter starts at 1", floor=4)
    it.extrapolate_rule(ctx, "C06.r1", None)
    it.ascending_rule(ctx, None, None, "C06.r1")


def r2_cycle_entry(ctx):
    ctx.rule("C06.r2", "cycle entry joins exactly predecessors with !(nesting(prev) > nesting(head))", floor=2)
    it.cycle_entry_rule(ctx, "C06.r2")


def r3_vertex(ctx):
    ctx.rule("C06.r3", "vertex pre-state = join over ALL predecessors starting from bottom", floor=2)
    it.vertex_rule(ctx, "C06.r3")


def r4_refine(ctx):
    ctx.rule("C06.r4", "refine: iteration == 1 -> meet, otherwise narrowing", floor=4)
    it.refine_rule(ctx, "C06.r4")


def r5_skip(ctx):
    ctx.rule("C06.r5", "skipping ends only at the chosen entry; assumptions are met (&) into the invariant", floor=3)
    it.skip_rule(ctx, "C06.r5")


def r6_run(ctx):
    ctx.rule("C06.r6", "run: tables -> bottom, then set_pre(entry, init), then WTO traversal", floor=4)
    it.run_rule(ctx, "C06.r6")


def r7_nesting(ctx):
    ctx.rule("C06.r7", "nesting of a cycle head excludes the head itself (relied on by r2)", floor=1)
    _wto.nesting_rule(ctx, "C06.r7")


RULES = [r1_delay, r2_cycle_entry, r3_vertex, r4_refine, r5_skip, r6_run, r7_nesting]


def r8_assumptions(ctx):
    ctx.rule("C06.r8", "under an assumption map every pre-state the iterator stores (set_pre) or propagates (compute_post) for a block is "
             "met with the assumption of that block AFTER the last join of predecessor posts - at a plain block and at a loop head "
             "alike, for the states entering the loop and for those coming back along the back edges (typestate over the paths of "
             "visit(vertex) / visit(cycle); bottom and the no-assumption branch count as strengthened)", floor=6)
    it.assumption_rule(ctx, "C06.r8")


RULES += [r8_assumptions]


def r9_start_covered(ctx):
    ctx.rule("C06.r9", "a run started at a chosen block traverses a WTO that contains that block (looked up before the traversal, or "
             "the WTO is built from it); the member WTO is built from the CFG entry only", floor=1)
    it.start_covered_rule(ctx, "C06.r9")


RULES += [r9_start_covered]
