"""K6 forwarder rule: f(p1..pn) forwards to inner.f(q1..qn) with every qi the
i-th parameter (or the accepted projection of it), same order, on every path."""
from ..tree import (walk, walk_with_parents, strip, is_call, is_ref, is_this, is_field, deref,
                    src, obj, args, callee, in_macro, LOG_MACROS)
from ..match import strip_move, is_param, rets, nodes_not_in_log, resolve_local


def same_named_calls(fn, receiver_pred):
    """calls in fn's body to a function with fn's own name whose receiver is
    accepted by receiver_pred (not inside log macros)"""
    out = []
    for n, ps in walk_with_parents(fn["body"]):
        if n.get("k") != "call" or in_macro(n, ps, LOG_MACROS):
            continue
        f = callee(n)
        if not f or f["name"] != fn["name"]:
            continue
        if "o" not in n:
            continue
        if receiver_pred(n["o"], f):
            out.append(n)
    return out


def param_index(e, fn, proj):
    """index of the parameter expression e stands for: the parameter itself,
    std::move of it, or proj(param) (wrapper-specific projection)"""
    e = strip_move(e)
    ps = fn.get("params", [])
    if isinstance(e, dict) and e.get("k") == "ref" and e.get("rk") == "param":
        for i, p in enumerate(ps):
            if p["id"] == e.get("id"):
                return i
        return None
    inner = proj(e)
    if inner is not None:
        inner = strip_move(inner)
        if isinstance(inner, dict) and inner.get("k") == "ref" and inner.get("rk") == "param":
            for i, p in enumerate(ps):
                if p["id"] == inner.get("id"):
                    return i
    return None


def check_forwarder(ctx, rid, fn, receiver_pred, proj, what, allow_extra_receivers=False):
    """returns the inner call when the forwarder is well formed, else reports"""
    calls = same_named_calls(fn, receiver_pred)
    if len(calls) == 0:
        ctx.bad("%s::%s does not forward to the same-named operation of the wrapped value" % (what, fn["name"]),
                fn, fn["body"], sig="fwd-missing:%s(%s)" % (fn["name"], fn["psig"]), rid=rid)
        return None
    if len(calls) > 1:
        ctx.undecided("%s::%s has %d same-named inner calls" % (what, fn["name"], len(calls)), fn, calls[1], rid=rid)
        return None
    c = calls[0]
    a = c.get("a", [])
    np_ = len(fn.get("params", []))
    real_args = [x for x in a if not (isinstance(x, dict) and x.get("k") == "dflt")]
    if len(real_args) != np_:
        ctx.bad("%s::%s forwards %d of its %d parameters: `%s`" % (what, fn["name"], len(real_args), np_, src(c)),
                fn, c, sig="fwd-arity:%s(%s)" % (fn["name"], fn["psig"]), rid=rid)
        return None
    for i, x in enumerate(real_args):
        pi = param_index(x, fn, proj)
        if pi is None:
            ctx.bad("%s::%s passes `%s` as argument %d instead of its parameter `%s`" %
                    (what, fn["name"], src(x), i + 1, fn["params"][i]["n"]), fn, c,
                    sig="fwd-arg:%s(%s)" % (fn["name"], fn["psig"]), rid=rid)
            return None
        if pi != i:
            ctx.bad("%s::%s forwards its parameters in a different order: argument %d is `%s` (parameter %d)" %
                    (what, fn["name"], i + 1, fn["params"][pi]["n"], pi + 1), fn, c,
                    sig="fwd-order:%s(%s)" % (fn["name"], fn["psig"]), rid=rid)
            return None
    # the inner call must be on every path: it must not sit under a condition
    return c


def returns_value_of(fn, call):
    """for value-returning forwarders: every return contains the inner call"""
    rs = rets(fn["body"])
    if not rs:
        return False
    for r in rs:
        v = resolve_local(fn["body"], strip_move(r.get("v")))
        if not any(x is call for x in walk(v)) and not any(x is call for x in walk(r)):
            return False
    return True
