"""C08 - scalar value abstractions are sound; interval arithmetic is tight."""
from ..tree import (walk, walk_with_parents, strip, is_call, is_ref, is_this, is_field, deref, same_expr,
                    src, obj, args, callee)
from .. import paths
from ..match import (strip_move, is_param, rets, nodes_not_in_log, resolve_local, local_decls, writes_to, cmp_parts,
                     guard_truth, atom_truth)
from . import _lattice
from . import _enumswitch as es

LEVEL_TEXT = ("Clause-level static rules: (a) bound-polarity typing of interval<Number> + - (unary/binary) * | & decides soundness "
              "AND tightness relative to bound arithmetic: the two bounds handed to the result are compared, as terms over "
              "(this.lb, this.ub, x.lb, x.ub), with the spec normal forms (lb+x.lb, ub+x.ub), (lb-x.ub, ub-x.lb), (-ub,-lb), min/max of "
              "exactly the four corner products, (min lb, max ub), (max lb, min ub); widening takes each bound from {own bound, "
              "infinity / threshold} under the comparison of the right direction; (b) integer shifts and divisions are delegated to "
              "primitives with the matching rounding (arithmetic shift right only through the floor primitive >>, logical shift "
              "right through >> only under a non-negativity guard, shift left by multiplication); (c) lattice operators of every "
              "scalar class answer the bottom/top cases correctly; (d) shape rules added for replayed defects: the corner form of the integer "
              "interval division (r1d), sign division (r6), sorted-list / TOP-BOT typestate / normalize-sentinel rules of dis_interval "
              "(r5, r7, r9), no truncating % on congruence residues (r8). Remainder, bitwise ranges and the numeric content of congruence "
              "and disjunctive-interval arithmetic are otherwise NOT decided."
              " A compound scalar abstraction lifts each of the 13 operations from the component operation of the same meaning; the case split of the integer division around 0 covers the operand.")
ASSUMPTIONS = ["bound<Number> arithmetic (+, -, *, min, max with infinities) is correct", "z_number primitives keep their meaning (C20)"]

II = "include/crab/domains/interval_impl.hpp"
IH = "include/crab/domains/interval.hpp"
LI = "lib/interval.cpp"
ITV = "ikos::interval"


def _term(e, fn, body, decls, depth=0):
    """canonical term over this.lb/this.ub/x.lb/x.ub"""
    e = resolve_local(body, e, decls)
    e = strip_move(e)
    if not isinstance(e, dict) or depth > 12:
        return "?"
    k = e.get("k")
    if k == "mem" and e.get("n") in ("_lb", "_ub") and not (isinstance(strip(e.get("b")), dict) and strip(e.get("b")).get("rk") == "local"):
        who = "t" if is_this(e.get("b")) else ("x" if is_param(e.get("b"), fn, 0) else "?")
        return who + ("l" if e["n"] == "_lb" else "u")
    if k == "call" and callee(e) and callee(e)["name"] in ("lb", "ub") and "o" in e and not e.get("a"):
        who = "t" if is_this(e["o"]) else ("x" if is_param(e["o"], fn, 0) else "?")
        return who + ("l" if callee(e)["name"] == "lb" else "u")
    if k == "mem" and e.get("n") in ("_lb", "_ub") and isinstance(strip(e.get("b")), dict) and strip(e.get("b")).get("rk") == "local":
        # a bound of a LOCAL interval: stands for the operand's own bound only if the local is a plain copy of *this / x
        base = strip_move(resolve_local(body, e.get("b"), decls))
        while isinstance(base, dict) and base.get("k") == "ctor" and base.get("cp") and base.get("a"):
            base = strip_move(base["a"][0])
        if is_this(base) or (isinstance(base, dict) and base.get("k") == "un" and base.get("op") == "*" and is_this(base.get("e"))):
            return "t" + ("l" if e["n"] == "_lb" else "u")
        if is_param(base, fn, 0):
            return "x" + ("l" if e["n"] == "_lb" else "u")
        return "shifted(%s)" % src(e)
    if k == "call" and e.get("op") in ("+", "-", "*", "/") and callee(e):
        ops = ([e["o"]] if "o" in e else []) + e.get("a", [])
        ts = [_term(o, fn, body, decls, depth + 1) for o in ops]
        if len(ts) == 1 and e["op"] == "-":
            return "neg(%s)" % ts[0]
        if len(ts) == 2:
            if e["op"] in ("+", "*"):
                ts = sorted(ts)
            return "%s(%s,%s)" % ({"+": "add", "-": "sub", "*": "mul", "/": "div"}[e["op"]], ts[0], ts[1])
    if k == "call" and callee(e) and callee(e)["name"] in ("min", "max") and callee(e).get("static"):
        ts = sorted(set(_term(o, fn, body, decls, depth + 1) for o in e.get("a", [])))
        return "%s{%s}" % (callee(e)["name"], ",".join(ts))
    if k == "call" and callee(e) and callee(e)["name"] in ("plus_infinity", "minus_infinity"):
        return "+oo" if callee(e)["name"] == "plus_infinity" else "-oo"
    if k == "cond":
        c = cmp_parts(e.get("c"))
        ct = "?"
        if c:
            ct = "%s%s%s" % (_term(c[1], fn, body, decls, depth + 1), c[0], _term(c[2], fn, body, decls, depth + 1))
        return "ite(%s,%s,%s)" % (ct, _term(e.get("t"), fn, body, decls, depth + 1), _term(e.get("e"), fn, body, decls, depth + 1))
    if k == "call" and callee(e) and callee(e)["name"] in ("get_prev", "get_next") and e.get("a"):
        return "%s(%s)" % (callee(e)["name"], _term(e["a"][0], fn, body, decls, depth + 1))
    if k == "ctor" and len(e.get("a", [])) == 1:
        return _term(e["a"][0], fn, body, decls, depth + 1)
    return "?"


CORNERS = "mul(tl,xl),mul(tl,xu),mul(tu,xl),mul(tu,xu)"
SPEC = {
    ("operator+", 1): ("add(tl,xl)", "add(tu,xu)"),
    ("operator-", 1): ("sub(tl,xu)", "sub(tu,xl)"),
    ("operator-", 0): ("neg(tu)", "neg(tl)"),
    ("operator*", 1): ("min{%s}" % CORNERS, "max{%s}" % CORNERS),
    ("operator|", 1): ("min{tl,xl}", "max{tu,xu}"),
    ("operator&", 1): ("max{tl,xl}", "min{tu,xu}"),
}
WIDEN_LO = {"ite(xl<tl,-oo,tl)", "ite(tl>xl,-oo,tl)", "ite(tl<=xl,tl,-oo)", "ite(xl>=tl,tl,-oo)",
            "ite(xl<tl,get_prev(xl),tl)", "ite(tl>xl,get_prev(xl),tl)", "ite(tl<=xl,tl,get_prev(xl))"}
WIDEN_HI = {"ite(tu<xu,+oo,tu)", "ite(xu>tu,+oo,tu)", "ite(xu<=tu,tu,+oo)", "ite(tu>=xu,tu,+oo)",
            "ite(tu<xu,get_next(xu),tu)", "ite(xu>tu,get_next(xu),tu)", "ite(xu<=tu,tu,get_next(xu))"}


def _result_bounds(fn):
    """the (lb, ub) constructor arguments of the non-bottom return"""
    body = fn["body"]
    decls = local_decls(body)
    out = []
    for r in rets(body):
        v = strip_move(resolve_local(body, r.get("v"), decls))
        if isinstance(v, dict) and v.get("k") == "ctor" and len(v.get("a", [])) == 2 and (callee(v) or {}).get("cpk") == ITV:
            out.append((r, _term(v["a"][0], fn, body, decls), _term(v["a"][1], fn, body, decls)))
    return out


def r1_polarity(ctx):
    ctx.rule("C08.r1", "interval + - * | & : result bounds equal the spec normal form over the operands' bounds (sound and tight)", floor=10)
    fs = ctx.db.fns([II, IH], cpk=ITV)
    if not ctx.need(fs, "interval<Number> members"):
        return
    seen = set()
    for fn in fs:
        key = (fn["name"], len(fn.get("params", [])))
        if key not in SPEC:
            continue
        if key[1] == 1 and ITV.split("::")[-1] not in (fn["params"][0].get("TC") or ""):
            continue
        rb = _result_bounds(fn)
        if len(rb) != 1:
            ctx.undecided("interval::%s does not have a single (lb, ub) result construction" % fn["name"], fn, fn["body"])
            continue
        r, lo, hi = rb[0]
        want = SPEC[key]
        seen.add((key, fn.get("targs")))
        if (lo, hi) == want:
            ctx.ok("interval::%s = [%s, %s]" % (fn["name"], lo, hi), fn, r)
        elif "?" in lo or "?" in hi:
            ctx.undecided("interval::%s: bound expression outside the polarity grammar ([%s, %s])" % (fn["name"], lo, hi), fn, r)
        else:
            ctx.bad("interval::%s returns [%s, %s]; the smallest interval containing every result is [%s, %s]" %
                    (fn["name"], lo, hi, want[0], want[1]), fn, r, sig="polarity:%s/%d" % key)
    if len(seen) < 10:
        ctx.fail("rule C08.r1: only %d interval operators decided (z and q expected for 6 operators)" % len(seen))


def r1w_widening(ctx):
    ctx.rule("C08.r1w", "interval widening: each bound is the own bound or infinity/threshold, chosen by the comparison of the right direction", floor=3)
    for fn in ctx.db.fns([II, IH], cpk=ITV):
        if fn["name"] not in ("operator||", "widening_thresholds"):
            continue
        rb = _result_bounds(fn)
        if len(rb) != 1:
            ctx.undecided("interval::%s: no single result construction" % fn["name"], fn, fn["body"])
            continue
        r, lo, hi = rb[0]
        if lo in WIDEN_LO and hi in WIDEN_HI:
            ctx.ok("interval::%s = [%s, %s]" % (fn["name"], lo, hi), fn, r)
        elif "?" in lo or "?" in hi:
            ctx.undecided("interval::%s: bound outside the grammar ([%s, %s])" % (fn["name"], lo, hi), fn, r)
        else:
            ctx.bad("interval::%s returns [%s, %s]: the lower bound must be `x.lb < lb ? -oo/threshold : lb` and the upper bound "
                    "`ub < x.ub ? +oo/threshold : ub` (otherwise the result does not contain the argument, or the argument's bound "
                    "leaks into the result and the chain need not stabilise)" % (fn["name"], lo, hi), fn, r, sig="widening-bounds:%s" % fn["name"])


def _prims(fn):
    """arithmetic primitives a scalar operation is built on"""
    out = []
    for n in walk(fn["body"]):
        if n.get("k") == "call" and callee(n) and n.get("op") in ("/", "%", ">>", "<<", "*", "&", "|", "^"):
            cls = (callee(n).get("cpk") or "").split("::")[-1]
            if not cls:
                # free operator: classify by the type of its first operand
                t = (callee(n).get("psig") or "")
                cls = "interval" if "interval" in t else ("bound" if "bound" in t else "")
            out.append((cls, n.get("op"), n))
        elif n.get("k") == "bin" and n.get("op") in ("/", "%", ">>", "<<", "*"):
            out.append(("builtin", n.get("op"), n))
    return out


def r2_delegation(ctx):
    ctx.rule("C08.r2", "integer shifts of intervals / constants are built on primitives with the matching rounding", floor=4)
    # interval<z>::AShr / LShr / Shl
    for fn in ctx.db.fns(LI, cpk=ITV):
        nm = fn["name"]
        if nm not in ("AShr", "LShr", "Shl"):
            continue
        pr = _prims(fn)
        ops = set((c, o) for c, o, n in pr)
        if nm == "AShr":
            trunc = [n for c, o, n in pr if o == "/" and c in ("interval", "bound", "z_number")]
            floor_ = [n for c, o, n in pr if o == ">>" and c == "z_number"]
            if trunc:
                ctx.bad("z_interval::AShr is computed with the TRUNCATING division `%s`; an arithmetic shift right rounds towards minus "
                        "infinity (-3 >> 1 == -2, -3 / 2 == -1): the result misses values for negative operands" % src(trunc[0])[:50],
                        fn, trunc[0], sig="ashr-trunc")
            elif floor_:
                ctx.ok("z_interval::AShr uses z_number::operator>> (floor)", fn, floor_[0])
            else:
                ctx.undecided("z_interval::AShr: no recognised shift primitive", fn, fn["body"])
        if nm == "LShr":
            g = paths.guards(fn["body"])
            sh = [n for c, o, n in pr if o == ">>" and c == "z_number"]

            def nonneg(c):
                p = cmp_parts(c)
                if p and is_call(p[1], name="lb") and isinstance(p[2], dict) and _is_zero(p[2]) and p[0] == ">=":
                    return 1
                return 0
            if sh and all(guard_truth(g.get(id(s), ()), nonneg, fn["body"]) is True for s in sh):
                ctx.ok("z_interval::LShr uses >> only when lb() >= 0", fn, sh[0])
            elif sh:
                ctx.bad("z_interval::LShr applies >> (arithmetic, sign preserving) without the `lb() >= 0` guard: a logical shift of a "
                        "negative value is a large positive number", fn, sh[0], sig="lshr-guard")
            else:
                ctx.undecided("z_interval::LShr: no shift primitive", fn, fn["body"])
        if nm == "Shl":
            mul = [n for c, o, n in pr if o == "*" and c in ("interval", "")]
            shl = [n for c, o, n in pr if o == "<<"]
            dv = [n for c, o, n in pr if o == "/"]
            if (mul or shl) and not dv:
                ctx.ok("z_interval::Shl multiplies by 2^k", fn, (mul or shl)[0])
            else:
                ctx.bad("z_interval::Shl must multiply by 2^k", fn, fn["body"], sig="shl-prim")
    # constant<z>: AShr via >>, sibling cross-check
    for fn in ctx.db.fns("lib/constant.cpp"):
        if fn["name"] in ("bitwiseAShr",):
            pr = _prims(fn)
            if any(o == ">>" for c, o, n in pr) and not any(o == "/" for c, o, n in pr):
                ctx.ok("constant::bitwiseAShr uses >> (floor)", fn, None)
            else:
                ctx.bad("constant::bitwiseAShr must use the floor shift >>, not a division", fn, fn["body"], sig="const-ashr")


def _is_zero(e):
    e = strip_move(e)
    while isinstance(e, dict) and e.get("k") == "ctor" and len(e.get("a", [])) == 1:
        e = strip_move(e["a"][0])
    return isinstance(e, dict) and e.get("k") == "lit" and e.get("v") == "0"


def r3_prologues(ctx):
    ctx.rule("C08.r3", "lattice operators of the scalar classes answer the bottom/top cases correctly", floor=60)
    files = [f for f in ctx.db.files() if any(f.endswith(x) for x in (
        "interval_impl.hpp", "interval.hpp", "congruence_impl.hpp", "interval_congruence_impl.hpp", "sign_impl.hpp",
        "constant_impl.hpp", "dis_interval_impl.hpp", "lib/boolean.cpp", "lib/small_range.cpp", "lib/sign.cpp", "lib/constant.cpp",
        "lib/congruence.cpp", "lib/interval.cpp", "lib/dis_interval.cpp", "lib/interval_congruence.cpp", "boolean.hpp", "small_range.hpp"))]
    _lattice.prologue_rule(ctx, "C08.r3", files=files, min_classes=6)


def r4_exhaustive(ctx):
    ctx.rule("C08.r4", "switches over enumerated value kinds in the scalar classes name every enumerator (no silent default)", floor=3)
    files = ["lib/boolean.cpp", "lib/small_range.cpp", "lib/sign.cpp", "include/crab/domains/sign_impl.hpp"]
    n = 0
    for f in files:
        if not ctx.db.has_file(f):
            continue
        enums = {}
        for ef in ctx.db.files():
            if ef.startswith("include/crab/domains/"):
                for e in ctx.db.enums(ef):
                    enums[e["pk"]] = [i["n"] for i in e["items"]]
        for fn in ctx.db.fns(f):
            for sw in [x for x in walk(fn["body"]) if x.get("k") == "switch"]:
                tc = (strip(sw.get("c")) or {}).get("TC") or ""
                items = None
                for pk, its in enums.items():
                    if pk and pk in tc:
                        items = its
                if items is None:
                    continue
                n += 1
                named = set()
                has_default = False
                for labels, stmts in es.switch_cases(sw):
                    for l in labels:
                        if l == "default":
                            has_default = True
                        else:
                            named.add(l)
                missing = [i for i in items if i not in named]
                if not missing or (has_default and len(missing) == 1):
                    ctx.ok("%s: switch names %d/%d kinds%s" % (fn["name"], len(named), len(items), " (default = %s)" % missing[0] if missing else ""), fn, sw)
                else:
                    ctx.bad("%s::%s switches over %s but %s: kinds %s share one code path" %
                            ((fn.get("cpk") or "").split("::")[-1], fn["name"], tc.split("::")[-1],
                             "a default swallows several kinds" if has_default else "some kinds fall through silently", missing), fn, sw,
                            sig="switch-kinds:%s:%s" % (fn["pk"], ",".join(missing)))
    if n == 0:
        ctx.undecided("no switch over a value-kind enum found in the scalar classes", None, None, reference_decided=False)


RULES = [r1_polarity, r1w_widening, r2_delegation, r3_prologues]


# ------------------------------------------------------------------ sortedness typing (disjunctive intervals)
DI = "include/crab/domains/dis_interval_impl.hpp"
DIC = "crab::domains::dis_interval"


def r5_sorted_lists(ctx):
    ctx.rule("C08.r5", "dis_interval: approx(list) = first | last is only the hull of a SORTED list, so it is applied only to the "
             "normalised member m_list of a value or to the result of normalize()", floor=3)
    callers = ctx.db.fns(DI, cpk=DIC)
    if not ctx.need(callers, "dis_interval members"):
        return
    # confirm the premise: the list overload of approx joins the first and the last element only
    ap = [f for f in callers if f["name"] == "approx" and len(f.get("params", [])) == 1]
    if not ap:
        ctx.undecided("dis_interval::approx(list) not found", callers[0], callers[0]["body"])
        return
    premise = all(any(x.get("k") == "call" and x.get("op") == "|" for x in walk(f["body"])) and
                  not any(x.get("k") in ("for", "while", "rangefor") for x in walk(f["body"])) for f in ap)
    if not premise:
        for f in ap:
            ctx.ok("approx(list) folds over the whole list: no sortedness premise", f, f["body"])
        return
    n = 0
    for fn in callers:
        body = fn["body"]
        d = local_decls(body)
        for c in walk(body):
            if not (is_call(c, name="approx") and len(c.get("a", [])) == 1):
                continue
            a = strip(c["a"][0])
            n += 1
            okk = False
            if is_field(a, "m_list"):
                okk = True
            elif isinstance(a, dict) and a.get("k") == "ref" and a.get("rk") == "local":
                r = resolve_local(body, a, d)
                okk = is_call(strip_move(r), name="normalize") or is_field(strip(r), "m_list")
            if okk:
                ctx.ok("%s: approx(%s)" % (fn["name"], src(a)), fn, c)
            else:
                ctx.bad("dis_interval::%s applies approx(list), which joins only the FIRST and the LAST element, to `%s`, a list that is "
                        "not known to be normalised (sorted): intervals in the middle that extend beyond the two ends are lost" %
                        (fn["name"], src(a)), fn, c, sig="approx-unsorted:%s:%s" % (fn["name"], src(a)))
    if n == 0:
        ctx.fail("rule C08.r5: no call of approx(list) found")


RULES += [r5_sorted_lists]


# ------------------------------------------------------------------ sign division over the integers
SI = "include/crab/domains/sign_impl.hpp"


def _eval3b(c, val):
    c = strip(c)
    if not isinstance(c, dict):
        return None
    v = val(c)
    if v is not None:
        return v
    k = c.get("k")
    if k == "un" and c.get("op") == "!":
        r = _eval3b(c.get("e"), val)
        return None if r is None else (not r)
    if k == "bin" and c.get("op") in ("&&", "||"):
        a, b = _eval3b(c.get("L"), val), _eval3b(c.get("R"), val)
        if c["op"] == "&&":
            return False if (a is False or b is False) else (True if (a and b) else None)
        return True if (a is True or b is True) else (False if (a is False and b is False) else None)
    return None


def _first_return(n, val):
    """the `ret` node reached when interpreting statement n with decided conditions; None = falls through; raises on unknown"""
    if not isinstance(n, dict):
        return None
    k = n.get("k")
    if k == "seq":
        for x in n.get("b", []):
            r = _first_return(x, val)
            if r is not None:
                return r
        return None
    if k == "if":
        c = _eval3b(n.get("c"), val)
        if c is None:
            raise ValueError(src(n.get("c"))[:60])
        return _first_return(n.get("t"), val) if c else (_first_return(n.get("e"), val) if "e" in n else None)
    if k == "ret":
        return n
    return None


def r6_sign_division(ctx):
    ctx.rule("C08.r6", "sign<z_number>::operator/: the quotient of two non-zero integers can be 0 (1/2), so when the sign of the product is "
             "strict (>0 / <0) the result returned is not that strict sign", floor=1)
    fs = [f for f in ctx.db.fns(SI, pk="crab::domains::sign::operator/") if "z_number" in (f.get("cls") or "")]
    if not ctx.need(fs, "sign<z_number>::operator/"):
        return
    for fn in fs:
        body = fn["body"]
        d = local_decls(body)
        # innermost block that computes the product
        blk = None
        prod_ids = set()
        for b in walk(body):
            if b.get("k") == "seq" and any(any(y.get("k") == "call" and y.get("op") == "*" for y in walk(st)) for st in b.get("b", [])
                                           if st.get("k") != "if" and st.get("k") != "seq"):
                blk = b
        if blk is None:
            ctx.ok("operator/ does not go through the product", fn, body)
            continue
        for dd in d.values():
            if "i" in dd and any(y.get("k") == "call" and y.get("op") == "*" for y in walk(dd["i"])):
                prod_ids.add(dd["id"])

        def is_prod(e):
            e = strip_move(e)
            if isinstance(e, dict) and e.get("k") == "call" and e.get("op") == "*":
                return True
            if isinstance(e, dict) and e.get("k") == "ctor" and e.get("cp") and e.get("a"):
                return is_prod(e["a"][0])
            return isinstance(e, dict) and e.get("k") == "ref" and e.get("id") in prod_ids
        bad = None
        try:
            for gt, lt in ((True, False), (False, True)):
                def val(c, gt=gt, lt=lt):
                    if c.get("k") == "ref" and "integral_constant<bool, true>" in (c.get("qna") or ""):
                        return True
                    if c.get("k") == "ref" and "integral_constant<bool, false>" in (c.get("qna") or ""):
                        return False
                    if c.get("k") == "call" and callee(c) and "o" in c and is_prod(c.get("o")):
                        nm = callee(c)["name"]
                        if nm == "greater_than_zero":
                            return gt
                        if nm == "less_than_zero":
                            return lt
                        if nm in ("equal_zero", "is_bottom", "is_top", "not_equal_zero", "greater_or_equal_than_zero", "less_or_equal_than_zero"):
                            return False
                    return None
                r = _first_return(blk, val)
                if r is not None and is_prod(r.get("v")):
                    bad = (r, gt)
        except ValueError as e:
            ctx.undecided("sign<z_number>::operator/: cannot evaluate `%s`" % e, fn, blk)
            continue
        if bad:
            ctx.bad("sign<z_number>::operator/ returns the sign of the PRODUCT when that sign is %s: integer division truncates, so e.g. "
                    "1/2 = 0 is not %s" % ("> 0" if bad[1] else "< 0", "> 0" if bad[1] else "< 0"), fn, bad[0], sig="sign-div-strict")
        else:
            ctx.ok("strict product signs are weakened before being returned", fn, blk)


RULES += [r6_sign_division]


# ------------------------------------------------------------------ dis_interval: the element list of a TOP / BOT value is never iterated
DI_FILES = (("include/crab/domains/dis_interval_impl.hpp", "m_list"), ("include/crab/domains/dis_intervals.hpp", "_list"))


def _reached(n, val, targets, out):
    """interpret statement n; collect ids of `targets` nodes that are evaluated; returns False when control cannot continue"""
    if not isinstance(n, dict):
        return True
    k = n.get("k")
    if k == "seq":
        for x in n.get("b", []):
            if not _reached(x, val, targets, out):
                return False
        return True
    if k == "if":
        _collect(n.get("c"), targets, out, val)
        c = _eval3b(n.get("c"), val)
        if c is True:
            return _reached(n.get("t"), val, targets, out)
        if c is False:
            return _reached(n.get("e"), val, targets, out) if "e" in n else True
        a = _reached(n.get("t"), val, targets, out)
        b = _reached(n.get("e"), val, targets, out) if "e" in n else True
        return a or b
    if k in ("ret", "throw"):
        _collect(n.get("v"), targets, out, val)
        return False
    if k in ("for", "while", "do", "rangefor"):
        for key in ("i", "c", "s", "r", "v"):
            _collect(n.get(key), targets, out, val)
        _reached(n.get("b"), val, targets, out)
        return True
    if k in ("break", "continue", "goto"):
        return True
    if k == "label":
        return _reached(n.get("b"), val, targets, out)
    _collect(n, targets, out, val)
    return True


def _collect(e, targets, out, val):
    if e is None:
        return
    for x in walk(e):
        if id(x) in targets:
            out.add(id(x))


def r7_list_typestate(ctx):
    ctx.rule("C08.r7", "dis_interval: TOP and BOT are represented by an EMPTY interval list, so a loop over the list of an operand "
             "that may be TOP / BOT computes the answer for the empty set; every such loop is reached only for finite operands "
             "(enumeration of the 3 states of each operand)", floor=6)
    import itertools
    n_fn = 0
    for f, lst in DI_FILES:
        if not ctx.db.has_file(f):
            continue
        for fn in ctx.db.fns(f):
            if not (fn.get("cpk") or "").endswith("::dis_interval") or fn.get("ctor"):
                continue
            body = fn["body"]
            # iterated / indexed list accesses:  O.list[i]  or  O.list.size() inside a loop header
            loops = [l for l in walk(body) if l.get("k") in ("for", "while", "do", "rangefor")]
            in_header = set()
            for l in loops:
                for key in ("c", "r", "i", "s"):
                    for x in walk(l.get(key)):
                        in_header.add(id(x))
            acc = {}
            for x in walk(body):
                if x.get("k") == "mem" and x.get("n") == lst and id(x) in in_header:
                    b = x.get("b")
                    bb = deref(b)
                    if not is_this(b) and not (isinstance(bb, dict) and bb.get("k") == "ref" and bb.get("rk") == "param"):
                        continue          # a local copy: its state is a function of the operands', not an independent one
                    name = "this" if is_this(b) else src(b)
                    acc[id(x)] = (x, name)
            if not acc:
                continue
            objs = sorted({nm for _, nm in acc.values()})
            bool_params = [p for p in fn.get("params", []) if (p.get("T") or "") == "bool"]
            n_fn += 1
            bad = None
            for states in itertools.product(("BOT", "TOP", "FIN"), repeat=len(objs)):
                st = dict(zip(objs, states))
                for bvals in itertools.product((False, True), repeat=len(bool_params)):
                    bv = {p["id"]: v for p, v in zip(bool_params, bvals)}

                    def val(c, st=st, bv=bv):
                        if c.get("k") == "ref" and c.get("id") in bv:
                            return bv[c["id"]]
                        if c.get("k") == "call" and callee(c) and callee(c)["name"] in ("is_top", "is_bottom", "is_finite") and not c.get("a"):
                            o = c.get("o")
                            nm = "this" if (o is None or is_this(deref(o))) else src(o)
                            if nm in st:
                                return {"is_top": st[nm] == "TOP", "is_bottom": st[nm] == "BOT", "is_finite": st[nm] == "FIN"}[callee(c)["name"]]
                        return None
                    out = set()
                    _reached(body, val, set(acc.keys()), out)
                    for i in out:
                        x, nm = acc[i]
                        if st[nm] != "FIN":
                            bad = (x, nm, st[nm], dict(st))
                            break
                    if bad:
                        break
                if bad:
                    break
            if bad:
                x, nm, state, st = bad
                ctx.bad("dis_interval::%s iterates over the interval list of `%s` on a path where `%s` is %s (states: %s): the list of a %s "
                        "value is empty, so the loop is vacuous and the result is the one for the empty set (e.g. top <= [0,1] answers "
                        "yes)" % (fn["name"], nm, nm, state, ", ".join("%s=%s" % kv for kv in sorted(st.items())), state), fn, x,
                        sig="list-typestate:%s:%s:%s" % (fn["name"], nm, state))
            else:
                ctx.ok("%s: list loops only for finite operands" % fn["name"], fn, body)
    if n_fn == 0:
        ctx.fail("rule C08.r7: no loop over an interval list found in dis_interval")


RULES += [r7_list_typestate]


DIVCORNERS = "div(tl,xl),div(tl,xu),div(tu,xl),div(tu,xu)"


def r1d_division(ctx):
    ctx.rule("C08.r1d", "integer interval division, operands without 0: the result is [min, max] of the four quotients of the operands' OWN "
             "bounds (truncated division is monotone on sign-constant operands); the singleton-divisor path divides the bounds directly", floor=1)
    fs = [f for f in ctx.db.fns(LI, cpk=ITV, name="operator/") if "z_number" in (f.get("cls") or "")]
    if not ctx.need(fs, "z_interval::operator/"):
        return
    for fn in fs:
        body = fn["body"]
        decls = local_decls(body)
        found = False
        for r in rets(body):
            v = strip_move(resolve_local(body, r.get("v"), decls))
            if not (isinstance(v, dict) and v.get("k") == "ctor" and len(v.get("a", [])) == 2):
                continue
            lo, hi = _term(v["a"][0], fn, body, decls), _term(v["a"][1], fn, body, decls)
            if not (lo.startswith("min{") and hi.startswith("max{")):
                continue
            found = True
            if lo == "min{%s}" % DIVCORNERS and hi == "max{%s}" % DIVCORNERS:
                ctx.ok("general case: [min, max] of the corner quotients", fn, r)
            elif "?" in lo or "?" in hi:
                ctx.undecided("z_interval::operator/: corner expression outside the grammar ([%s, %s])" % (lo[:80], hi[:80]), fn, r)
            else:
                ctx.bad("z_interval::operator/ (no operand contains 0) returns [%s, %s]: the extreme quotients are the quotients of the "
                        "operands' own bounds; a shifted dividend loses results such as -2 / -3 = 0 for [-3,-2] / [-3,-2]" %
                        (lo[:120], hi[:120]), fn, r, sig="division-corners")
        if not found:
            ctx.undecided("z_interval::operator/: the [min, max] of corner quotients was not found", fn, body)


RULES += [r1d_division]


# ------------------------------------------------------------------ congruences: residues
CI = "include/crab/domains/congruence_impl.hpp"


def r8_congruence_residues(ctx):
    ctx.rule("C08.r8", "congruences: Number::operator% truncates (C20.r1), so it may only be used for divisibility tests (X % Y == 0), "
             "inside gcd / the mod helper, or on two singletons (the concrete remainder); every residue that is compared or stored "
             "goes through the non-negative mod helper; inclusion never divides by the modulus 0 of a singleton", floor=6)
    fs = [f for f in ctx.db.fns(CI) if "congruence" in (f.get("cpk") or "") or "congruence_impl" in (f.get("qn") or "")]
    if not ctx.need(fs, "congruence members"):
        return
    n = 0
    for fn in fs:
        body = fn["body"]
        g = paths.guards(body)
        name = fn["name"]
        for x, ps in walk_with_parents(body):
            if not (x.get("k") == "call" and x.get("op") == "%" and callee(x) and (callee(x).get("cpk") or "").endswith("z_number")):
                continue
            n += 1
            if name in ("mod", "inverse_mod", "gcd_helper"):
                ctx.ok("%s: %% inside the helper" % name, fn, x)
                continue
            # divisibility test:  (X % Y) == 0
            parent = ps[-1] if ps else None
            while parent is not None and parent.get("k") in ("cast", "paren"):
                parent = ps[ps.index(parent) - 1] if ps.index(parent) > 0 else None
            divis = False
            for p in reversed(ps):
                pp = cmp_parts(p)
                if pp and pp[0] in ("==", "!="):
                    other = pp[2] if any(y is x for y in walk(pp[1])) else pp[1]
                    so = strip(other)
                    while isinstance(so, dict) and so.get("k") == "ctor" and so.get("a"):
                        so = strip(so["a"][0])
                    if isinstance(so, dict) and so.get("k") == "lit" and so.get("v") == "0":
                        divis = True
                    break
                if p.get("k") in ("seq", "if", "ret", "decl"):
                    break
            if divis:
                ctx.ok("%s: divisibility test `%s`" % (name, src(x)[:40]), fn, x)
                continue
            # both operands singletons (m_a == 0 && o.m_a == 0): the concrete remainder
            def single(c):
                c = strip(c)
                if isinstance(c, dict) and c.get("k") == "bin" and c.get("op") == "&&":
                    return 1 if (single(c.get("L")) and single(c.get("R"))) else 0
                pp = cmp_parts(c)
                if pp and pp[0] == "==" and any(is_field(y, "m_a") for y in walk(c)) and \
                        any(isinstance(strip(z), dict) and strip(z).get("k") in ("lit", "ctor") for z in (pp[1], pp[2])):
                    return 1
                return 0
            if name == "operator%" and guard_truth(g.get(id(x), ()), single, body) is True:
                ctx.ok("operator%: concrete remainder of two singletons", fn, x)
                continue
            ctx.bad("congruence::%s computes a residue with the truncating `%s`: for a negative left operand the result is negative, so "
                    "equal residues compare different and the normal form 0 <= b < a is not established (e.g. 1 is reported outside "
                    "2Z-1)" % (name, src(x)[:50]), fn, x, sig="truncating-residue:%s" % name)
    if n == 0:
        ctx.fail("rule C08.r8: no use of % found in congruence_impl.hpp")
    # inclusion: no division by the modulus of a singleton right operand
    for fn in [f for f in fs if f["name"] == "operator<="]:
        body = fn["body"]
        g = paths.guards(body)
        for x in walk(body):
            if x.get("k") == "call" and x.get("op") == "%" and x.get("a") and is_field(strip(x["a"][0]), "m_a") and is_param(deref(strip(x["a"][0])).get("b"), fn, 0):
                def right_single(c):
                    pp = cmp_parts(c)
                    if pp and pp[0] == "==" and any(is_field(y, "m_a") and is_param(deref(y).get("b"), fn, 0) for y in walk(c)) and \
                            not any(is_field(y, "m_a") and is_this(deref(y).get("b")) for y in walk(c)):
                        return 1
                    return 0
                t = guard_truth(g.get(id(x), ()), right_single, body)
                if t is False:
                    ctx.ok("operator<=: `%s` only when the right operand is not a singleton" % src(x)[:30], fn, x)
                else:
                    ctx.bad("congruence::operator<= evaluates `%s` although the right operand can be a singleton (modulus 0): division by "
                            "zero aborts the analysis" % src(x)[:40], fn, x, sig="leq-mod-zero")


RULES += [r8_congruence_residues]


from ..tree import LOG_MACROS   # noqa: E402


def r9_normalize_sentinel(ctx):
    ctx.rule("C08.r9", "dis_interval::normalize: `prev` is initialised to top to mean `no previous interval`, so an interval of the list "
             "that IS top must reach `return <empty list>` (= top) before any test that can drop it; evaluated for the element kinds "
             "bottom / top / finite x prev = sentinel / an interval already added", floor=2)
    import itertools

    class _Unknown(Exception):
        pass

    def first_exit(n, val):
        """('ret'|'continue'|'goto'|'push', node) first reached when interpreting n with decided conditions; None = falls through"""
        if not isinstance(n, dict):
            return None
        k = n.get("k")
        if k == "seq":
            for x in n.get("b", []):
                r = first_exit(x, val)
                if r is not None:
                    return r
            return None
        if k == "if":
            c = _eval3b(n.get("c"), val)
            if c is None:
                raise _Unknown(src(n.get("c"))[:60])
            return first_exit(n.get("t"), val) if c else (first_exit(n.get("e"), val) if "e" in n else None)
        if k in ("ret", "continue", "goto", "break"):
            return (k, n)
        if k == "do" and n.get("m") in LOG_MACROS:
            return None         # a logging macro
        if k in ("while", "for", "do", "rangefor"):
            raise _Unknown("loop")
        if k == "label":
            return first_exit(n.get("b"), val)
        for x in walk(n):
            if is_call(x, name=("push_back", "emplace_back")):
                return ("push", n)
        return None

    n = 0
    for f, lst in DI_FILES:
        if not ctx.db.has_file(f):
            continue
        for fn in ctx.db.fns(f, name="normalize"):
            if not (fn.get("cpk") or "").endswith("::dis_interval") or len(fn.get("params", [])) != 2:
                continue
            body = fn["body"]
            d = local_decls(body)
            # the sentinel: a local interval initialised with top()
            sent = [dd for dd in d.values() if "i" in dd and any(is_call(x, name="top") for x in walk(dd["i"])) and
                    "interval" in (dd.get("TC") or dd.get("T") or "")]
            loops = [l for l in walk(body) if l.get("k") == "for"]
            if not loops:
                continue
            loop = loops[0]
            elem = [dd for dd in local_decls(loop.get("b")).values() if "i" in dd and
                    any(x.get("k") in ("index", "subscript") or is_call(x, name=("operator[]", "at")) for x in walk(dd["i"]))]
            if not sent or not elem:
                if not sent:
                    # no sentinel at all: nothing to confuse
                    n += 1
                    ctx.ok("normalize: no top sentinel", fn, body)
                else:
                    ctx.skipped("C08.r9|%s|element variable not found" % f, rid="C08.r9")
                continue
            pid, eid = sent[0]["id"], elem[0]["id"]
            bad = None
            for kind, prev in itertools.product(("BOT", "TOP", "FIN"), ("SENT", "ELEM")):
                def val(c, kind=kind, prev=prev):
                    if c.get("k") == "call" and callee(c):
                        nm = callee(c)["name"]
                        o = strip(c.get("o")) if c.get("o") is not None else None
                        if nm in ("is_top", "is_bottom") and isinstance(o, dict) and o.get("k") == "ref":
                            if o.get("id") == eid:
                                return (kind == "TOP") if nm == "is_top" else (kind == "BOT")
                            if o.get("id") == pid:
                                return (prev == "SENT") if nm == "is_top" else False
                        if nm in ("operator==", "operator!=") and c.get("a"):
                            x, y = o, strip(c["a"][0])
                            ids = {z.get("id") for z in (x, y) if isinstance(z, dict) and z.get("k") == "ref"}
                            if ids == {pid, eid}:
                                # intervals already added are neither top nor bottom
                                if prev == "SENT":
                                    eq = (kind == "TOP")
                                elif kind in ("TOP", "BOT"):
                                    eq = False
                                else:
                                    return None
                                return eq if nm == "operator==" else (not eq)
                    return None
                try:
                    ex = first_exit(loop.get("b"), val)
                except _Unknown as e:
                    if kind == "FIN":
                        continue            # finite elements go on to the merging loop: not this rule's business
                    ctx.skipped("C08.r9|%s|%s|%s|%s" % (f, kind, prev, e), rid="C08.r9")
                    continue
                n += 1
                if kind == "TOP":
                    is_top_ret = ex is not None and ex[0] == "ret" and not any(
                        y.get("k") == "ref" and y.get("rk") in ("local", "param") for y in walk(ex[1].get("v")))
                    if not is_top_ret:
                        bad = (kind, prev, ex)
                        ctx.bad("dis_interval::normalize: for a TOP interval of the list with prev = %s the first exit of the loop body is "
                                "`%s`, not `return <empty list>`: the interval is dropped and the result is the join of the REMAINING "
                                "intervals, e.g. ([-3,-3] | [0,1]) || ([-3,-3] | [-1,2]) = [-3,-3]" %
                                ("its initial top sentinel" if prev == "SENT" else "an added interval", ex[0] if ex else "fall through"),
                                fn, ex[1] if ex else loop, sig="normalize-drops-top:%s" % prev)
                    else:
                        ctx.ok("normalize: top element (prev %s) returns top" % prev, fn, ex[1])
                elif kind == "BOT":
                    if ex is not None and ex[0] in ("continue", "goto"):
                        ctx.ok("normalize: bottom element (prev %s) skipped" % prev, fn, ex[1])
                    else:
                        ctx.bad("dis_interval::normalize: a bottom interval of the list is not skipped (first exit `%s`)" %
                                (ex[0] if ex else "fall through"), fn, ex[1] if ex else loop, sig="normalize-keeps-bottom:%s" % prev)
    if n == 0:
        ctx.fail("rule C08.r9: dis_interval::normalize not found in the expected form")


RULES += [r9_normalize_sentinel]


def r1e_bound_division(ctx):
    ctx.rule("C08.r1e", "bound<Number>::operator/: a FINITE bound divided by an INFINITE one is the finite bound 0 (the quotient of a "
             "number by an arbitrarily large divisor tends to 0); returning the infinite divisor makes every corner quotient of an "
             "interval division by an unbounded divisor infinite ([4,4] / [1,+oo] = [4,+oo])", floor=1)
    fs = [f for f in ctx.db.fns(II, name="operator/") if (f.get("cpk") or "").endswith("::bound") and len(f.get("params", [])) == 1]
    if not ctx.need(fs, "bound::operator/", "C08.r1e"):
        return
    seen = set()
    for fn in fs:
        body = fn["body"]
        xid = fn["params"][0]["id"]
        g = paths.guards(body)

        def a_this_finite(c):
            c = strip(c)
            if is_call(c, name="is_finite") and (c.get("o") is None or is_this(deref(c.get("o")))):
                return 1
            if is_call(c, name="is_infinite") and (c.get("o") is None or is_this(deref(c.get("o")))):
                return -1
            return 0

        def a_x_infinite(c):
            c = strip(c)
            o = strip(c.get("o")) if isinstance(c, dict) and c.get("o") is not None else None
            if isinstance(o, dict) and o.get("k") == "ref" and o.get("id") == xid:
                if is_call(c, name="is_infinite"):
                    return 1
                if is_call(c, name="is_finite"):
                    return -1
            return 0
        n = 0
        for r in rets(body):
            gs = g.get(id(r), ())
            if guard_truth(gs, a_this_finite, body) is True and guard_truth(gs, a_x_infinite, body) is True:
                n += 1
                v = r.get("v")
                ctors = [c for c in walk(v) if c.get("k") == "ctor" and callee(c) and callee(c)["name"] == "bound" and len(c.get("a", [])) == 2]
                fin0 = any(isinstance(strip(c["a"][0]), dict) and strip(c["a"][0]).get("v") == "false" and
                           any(y.get("k") == "lit" and y.get("v") == "0" for y in walk(c["a"][1])) and
                           not any(y.get("k") in ("ref", "mem", "this") for y in walk(c["a"][1])) for c in ctors)
                if fin0:
                    ctx.ok("finite / infinite = 0", fn, r)
                else:
                    ctx.bad("bound::operator/ returns `%s` for a finite bound divided by an infinite one; the quotient tends to 0, so "
                            "the corner quotients of [4,4] / [1,+oo] become {4, +oo} and the result [4,+oo] misses 4/2 = 2" %
                            src(v)[:40], fn, r, sig="bound-div-finite-by-infinite")
        if n == 0 and fn.get("cls") not in seen:
            ctx.skipped("C08.r1e|%s" % fn.get("cls"), rid="C08.r1e")
        seen.add(fn.get("cls"))


RULES += [r1e_bound_division]


_LIFT_OPS = {"operator+": "+", "operator-": "-", "operator*": "*", "operator/": "sdiv", "SDiv": "sdiv", "UDiv": "udiv", "SRem": "srem",
             "URem": "urem", "And": "and", "Or": "or", "Xor": "xor", "Shl": "shl", "LShr": "lshr", "AShr": "ashr"}


def r10_lifted_operation_agrees(ctx):
    ctx.rule("C08.r10", "a compound scalar abstraction (disjunctive intervals, interval-congruence pairs) lifts each arithmetic / bitwise "
             "operation from the operation OF THE SAME MEANING of its components: the component call inside `X::UDiv` is UDiv (not "
             "the signed operator/), inside `X::SDiv` the signed division, and so on for the 13 operations", floor=50)
    targets = (("include/crab/domains/dis_interval_impl.hpp", "crab::domains::dis_interval"),
               ("include/crab/domains/dis_intervals.hpp", "crab::domains::dis_interval"),
               ("include/crab/domains/interval_congruence_impl.hpp", "crab::domains::interval_congruence"))
    n = 0
    for f, cpk in targets:
        fs = [fn for fn in ctx.db.fns(f, cpk=cpk) if fn["name"] in _LIFT_OPS and fn.get("body")]
        seen = set()
        for fn in fs:
            if (fn["name"], fn["line"]) in seen:
                continue
            seen.add((fn["name"], fn["line"]))
            want = _LIFT_OPS[fn["name"]]
            comp = []
            for c in walk(fn["body"], into_lambdas=True):
                if c.get("k") != "call" or not callee(c):
                    continue
                ce = callee(c)
                nm = ce.get("name")
                if ce.get("cpk") == cpk or nm not in _LIFT_OPS:
                    continue
                if not (ce.get("cpk") or "").split("::")[-1] in ("interval", "congruence", "bound"):
                    continue
                comp.append((c, nm))
            if not comp:
                continue        # not a component-wise lifting (e.g. built from other operations of the same class)
            for c, nm in comp:
                n += 1
                if _LIFT_OPS[nm] == want:
                    ctx.ok("%s::%s lifts %s::%s" % (cpk.split("::")[-1], fn["name"], callee(c)["cpk"].split("::")[-1], nm), fn, c)
                else:
                    ctx.bad("%s::%s is computed from `%s` of its components (%s), not from their %s: e.g. the unsigned quotient of "
                            "[-4,-4] and [2,2] is 2^(w-1)-2 for every width w, the signed one is -2" %
                            (cpk, fn["name"], nm, _LIFT_OPS[nm], want), fn, c, sig="lifted-op-mismatch:%s:%s" % (fn["name"], nm))
    if n == 0:
        ctx.fail("rule C08.r10: no component-wise lifted operation found")


RULES += [r10_lifted_operation_agrees]


def _unwrap_ctor(e):
    e = strip(e)
    for _ in range(6):
        if isinstance(e, dict) and e.get("k") in ("ctor", "construct") and len(e.get("a", [])) == 1:
            e = strip(e["a"][0])
        elif isinstance(e, dict) and e.get("k") == "cast":
            e = strip(e.get("e"))
        else:
            break
    return e


def _int_const(e):
    e = _unwrap_ctor(e)
    if isinstance(e, dict) and e.get("k") == "lit":
        try:
            return int(e.get("v"))
        except (TypeError, ValueError):
            return None
    if isinstance(e, dict) and e.get("k") == "un" and e.get("op") == "-":
        v = _int_const(e.get("e"))
        return None if v is None else -v
    return None


def r1z_division_case_split(ctx):
    ctx.rule("C08.r1z", "integer interval division, operand containing 0: the operand is split into the pieces below and above 0; the pieces "
             "together with the separately handled points must COVER the operand (for the dividend: [lb,-1], [1,ub] and the point 0, "
             "whose quotient 0 is joined in; for the divisor: everything but 0)", floor=2)
    fs = [f for f in ctx.db.fns("lib/interval.cpp", name="operator/") if "z_number" in (f.get("targs") or "") and f.get("body")]
    if not ctx.need(fs, "z_interval_t::operator/"):
        return
    for fn in fs:
        body = fn["body"]
        decls = local_decls(body)

        def operand(e):
            e = strip(e)
            if e is None or is_this(e) or (isinstance(e, dict) and e.get("k") == "un" and e.get("op") == "*" and is_this(strip(e.get("e")))):
                return "dividend"
            if is_param(e, fn, 0):
                return "divisor"
            return None

        def bound_of(e):
            e = _unwrap_ctor(e)
            if isinstance(e, dict) and e.get("k") == "mem" and e.get("n") in ("_lb", "_ub"):
                op = operand(e.get("b"))
                if op:
                    return (op, e["n"])
            return None
        pieces = {}
        for d in decls.values():
            i = strip(d.get("i")) if "i" in d else None
            if isinstance(i, dict) and i.get("k") in ("ctor", "construct") and len(i.get("a", [])) == 2:
                a, b = i["a"]
                if bound_of(a) and bound_of(a)[1] == "_lb" and _int_const(b) is not None:
                    pieces[d["id"]] = (bound_of(a)[0], "low", _int_const(b))
                elif bound_of(b) and bound_of(b)[1] == "_ub" and _int_const(a) is not None:
                    pieces[d["id"]] = (bound_of(b)[0], "high", _int_const(a))

        def leaves(e):
            e = _unwrap_ctor(e)
            if isinstance(e, dict) and e.get("k") == "call" and e.get("op") == "|" and "o" in e and e.get("a"):
                return leaves(e["o"]) + leaves(e["a"][0])
            return [e]
        for i in [x for x in walk(body) if x.get("k") == "if"]:
            c = strip(i.get("c"))
            if not (isinstance(c, dict) and c.get("k") == "call" and callee(c) and callee(c)["name"] == "operator[]" and c.get("a") and _int_const(c["a"][0]) == 0):
                continue
            P = operand(c.get("o"))
            if P is None:
                continue
            rs = [r for r in walk(i.get("t")) if r.get("k") == "ret"]
            if len(rs) != 1:
                ctx.undecided("division: the branch `%s` does not end in one return" % src(c), fn, i)
                continue
            low = high = None
            consts = []
            other = []
            for lf in leaves(rs[0].get("v")):
                k = _int_const(lf)
                if k is None and isinstance(lf, dict) and lf.get("k") == "ref" and lf.get("rk") == "local" and lf.get("id") not in pieces:
                    k = _int_const(resolve_local(body, lf, decls))
                if k is not None:
                    consts.append(k)
                    continue
                refs = [x for x in walk(lf) if isinstance(x, dict) and x.get("k") == "ref" and x.get("id") in pieces and pieces[x["id"]][0] == P]
                isdiv = isinstance(lf, dict) and lf.get("k") == "call" and callee(lf) and callee(lf)["name"] == "operator/"
                if isdiv and len(refs) == 1:
                    _, side_, k0 = pieces[refs[0]["id"]]
                    if side_ == "low":
                        low = k0
                    else:
                        high = k0
                else:
                    other.append(lf)
            if low is None or high is None or other:
                ctx.undecided("division: the case split on `%s` is not `quotient(piece below) | quotient(piece above) [| constant]`" % src(c), fn, rs[0])
                continue
            missing = set(range(low + 1, high))
            if P == "divisor":
                if missing <= {0} and not consts:
                    ctx.ok("divisor containing 0 split into [lb,%d] and [%d,ub]: everything but 0" % (low, high), fn, rs[0])
                else:
                    ctx.bad("division by an interval containing 0: the pieces [lb,%d] and [%d,ub] leave out the divisors %s" % (low, high, sorted(missing - {0})),
                            fn, rs[0], sig="div-split-divisor")
            else:
                uncovered = sorted(k for k in missing if k not in consts)
                bogus = sorted(k for k in consts if k != 0)
                if not uncovered and not bogus:
                    ctx.ok("dividend containing 0 split into [lb,%d], [%d,ub] and the point(s) %s" % (low, high, sorted(consts)), fn, rs[0])
                elif uncovered:
                    ctx.bad("division of an interval containing 0: the pieces [lb,%d] and [%d,ub] leave out the dividend(s) %s and their quotient "
                            "is not joined in: [0,0] / [2,3] is bottom although 0 / 2 = 0 (and every state with x = 0 is lost)" % (low, high, uncovered),
                            fn, rs[0], sig="div-split-dividend-uncovered")
                else:
                    ctx.bad("division: the constant %s is joined in as the quotient of a dividend, but only 0 / x is a constant" % bogus, fn, rs[0],
                            sig="div-split-constant")


RULES += [r1z_division_case_split]
