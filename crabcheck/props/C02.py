"""C02 - a 'safe' or 'unreachable' verdict is never wrong."""
from ..tree import (walk, walk_with_parents, strip, is_call, is_ref, is_this, is_field, deref, same_expr,
                    src, obj, args, callee)
from .. import paths
from ..match import (strip_move, is_param, rets, nodes_not_in_log, resolve_local, local_decls, writes_to, cmp_parts,
                     guard_truth, atom_truth)
from . import _stmts
from . import C09

LEVEL_TEXT = ("Clause-level static rules: every add_safe / UNREACH site of the assertion checker is control dependent on a proof test of "
              "the right polarity on the invariant that holds at that statement (entailment, bottom after assuming the NEGATED "
              "condition on a copy, membership in the set proved by the backward analysis, bottom for unreachable); every checker "
              "visit re-propagates the invariant through the statement before the next one is judged; the checker starts each block "
              "from the analyzer's invariant at the ENTRY of that same block; the forward+backward analyzer records an assertion as "
              "proved only under an empty refined precondition at a dominating block (or at the entry) and resets its per-run "
              "tables at the start of every run; the inter-procedural checker runs only on stabilised components and relies on the "
              "formal/actual discipline of the call continuation. Soundness of the invariants themselves (C01/C09/C11) and of each "
              "domain's entails() (C03) is NOT decided here."
              " Each property checker re-seeds the shared transformer inside the loop over the checkers (intra and inter checker); a stored calling context answers an entry only if computed from a precondition that includes it (known finding F14c); the forward+backward analyzer publishes reachability invariants only (known finding F83: use_refined_invariants).")
ASSUMPTIONS = ["the invariants handed to the checker are sound (C01, C09, C10, C11)", "domain entails()/is_bottom() are sound (C03/C04)"]

ASRT = "include/crab/checkers/assertion.hpp"
BASE = "include/crab/checkers/base_property.hpp"
CHK = "include/crab/checkers/checker.hpp"
BWD = "include/crab/analysis/bwd_analyzer.hpp"
TD = "include/crab/analysis/inter/top_down_inter_analyzer.hpp"
APC = "crab::checker::assert_property_checker"
PC = "crab::checker::property_checker"
FB = "crab::analyzer::intra_forward_backward_analyzer"


def _is_cur_value(e):
    """this->m_abs_tr->get_abs_value()"""
    e = strip(e)
    return is_call(e, name="get_abs_value") and is_field(obj(e), "m_abs_tr")


def r1_verdicts(ctx):
    ctx.rule("C02.r1", "add_safe / UNREACH only under a proof test of the right polarity on the current invariant", floor=20)
    fs = ctx.db.fns(ASRT, cpk=APC, name="check")
    if not ctx.need(fs, "assert_property_checker::check"):
        return
    for fn in fs:
        body = fn["body"]
        g = paths.guards(body)
        d = local_decls(body)
        sid = fn["params"][0]["id"]

        def a_known_safe(c):
            p = cmp_parts(c)
            if p and is_call(p[1], name="count") and is_field(obj(p[1]), "m_safe_assertions") and isinstance(p[2], dict) and p[2].get("v") == "0":
                return {">": 1, "!=": 1, "==": -1, "<=": -1}.get(p[0], 0)
            return 0

        def a_entails(c):
            c = strip(c)
            if is_call(c, name="entails") and len(c.get("a", [])) == 2:
                inv = resolve_local(body, c["a"][0], d)
                cst = resolve_local(body, c["a"][1], d)
                if _is_cur_value(inv) and is_call(cst, name="constraint") and is_param(obj(cst), fn, 0):
                    return 1
            return 0

        def a_contra(c):
            c = strip(c)
            if is_call(c, name="is_contradiction"):
                o = resolve_local(body, obj(c), d)
                if is_call(o, name="constraint") and is_param(obj(o), fn, 0):
                    return 1
            return 0

        def a_cur_bottom(c):
            c = strip(c)
            if is_call(c, name="is_bottom") and _is_cur_value(obj(c)):
                return 1
            return 0

        # local copies of the current value constrained with the negated condition
        neg_copies = set()
        for dd in d.values():
            if "i" in dd and any(_is_cur_value(x) for x in walk(dd["i"])) and not is_ref(dd.get("i")):
                vid = dd["id"]
                for n in walk(body):
                    if n.get("k") == "call" and is_ref(n.get("o")) and strip(n["o"]).get("id") == vid and callee(n):
                        nm = callee(n)["name"]
                        if nm == "assume_bool" and len(n["a"]) == 2 and strip(n["a"][1]).get("v") == "true" and \
                                is_call(strip(n["a"][0]), name="cond") and is_param(obj(strip(n["a"][0])), fn, 0):
                            neg_copies.add(vid)
                        if nm in ("ref_assume", "operator+=") and any(is_call(x, name="negate") for x in walk(n["a"][0])) and \
                                any(is_call(x, name="constraint") and is_param(obj(x), fn, 0) for x in walk(n["a"][0])):
                            neg_copies.add(vid)

        def a_neg_bottom(c):
            c = strip(c)
            if is_call(c, name="is_bottom") and is_ref(obj(c)) and obj(c).get("id") in neg_copies:
                return 1
            return 0
        safes = [n for n, ps in nodes_not_in_log(body, lambda x: is_call(x, name="add_safe"))]
        if not safes:
            ctx.bad("assert_property_checker::check(%s) never reports a safe assertion" % fn["psig"][:40], fn, body, sig="no-safe-site")
        for s in safes:
            gs = g.get(id(s), ())
            proofs = []
            if guard_truth(gs, a_known_safe, body) is True:
                proofs.append("proved by the forward+backward analysis")
            if guard_truth(gs, a_entails, body) is True:
                proofs.append("entails(current invariant, condition)")
            if guard_truth(gs, a_contra, body) is True and guard_truth(gs, a_cur_bottom, body) is True:
                proofs.append("condition is false and the invariant is bottom")
            if guard_truth(gs, a_neg_bottom, body) is True:
                proofs.append("copy of the invariant + NEGATED condition is bottom")
            if proofs:
                ctx.ok("add_safe under: %s" % proofs[0], fn, s)
            else:
                conds = "; ".join("%s%s" % ("" if p else "!", src(c)[:50]) for c, p in gs if not isinstance(c, tuple))
                ctx.bad("an assertion is recorded as SAFE without an accepted proof on this path (guards: %s). Accepted: entails(inv, cond) "
                        "true, is_bottom() of a copy of the invariant after assuming the NEGATED condition, membership in the "
                        "backward-proved set, or a contradiction under a bottom invariant" % (conds or "none"), fn, s,
                        sig="safe-unproved:%s" % fn["psig"][:60])
        unr = [n for n, ps in nodes_not_in_log(body, lambda x: is_call(x, name="add") and any(
            y.get("k") == "ref" and y.get("n") == "CRAB_UNREACH" for y in walk(x)))]
        for u in unr:
            if guard_truth(g.get(id(u), ()), a_cur_bottom, body) is True:
                ctx.ok("UNREACH only when the current invariant is bottom", fn, u)
            else:
                ctx.bad("an assertion is recorded as UNREACHABLE without the `get_abs_value().is_bottom()` test", fn, u,
                        sig="unreach-unproved:%s" % fn["psig"][:60])


def r2_propagate(ctx):
    ctx.rule("C02.r2", "every checker visit re-propagates the invariant through the statement (s.accept(m_abs_tr)) on every path", floor=33)
    infos = _stmts.statement_table(ctx.db)
    seen = set()
    for cpk, file in ((PC, BASE), (APC, ASRT)):
        for fn in ctx.db.fns(file, cpk=cpk, name="check"):
            info = _stmts.stmt_info_for(fn, infos)
            if info is None:
                continue
            body = fn["body"]

            def gen(n):
                if is_call(n, name="accept") and is_param(n.get("o"), fn, 0) and n.get("a") and \
                        any(is_field(x, "m_abs_tr") for x in walk(n["a"][0])):
                    return ("propagated",)
                return ()
            f = paths.must_events(body, gen)
            g = paths.guards(body)
            good = True
            for r, st in f.returns:
                if "propagated" in st:
                    continue
                gs = g.get(id(r), ()) if r is not None else ()

                def no_tr(c):
                    c = strip(c)
                    return 1 if is_field(c, "m_abs_tr") else 0

                def cur_bot(c):
                    c = strip(c)
                    return 1 if (is_call(c, name="is_bottom") and _is_cur_value(obj(c))) else 0
                if guard_truth(gs, no_tr, body) is False or guard_truth(gs, cur_bot, body) is True:
                    continue
                good = False
                ctx.bad("checker visit of %s can return without s.accept(m_abs_tr): the next assertion of the block would be judged "
                        "against the invariant BEFORE this statement" % info.name, fn, r if r is not None else body,
                        sig="no-propagate:%s:%s" % (cpk.split("::")[-1], info.name))
            if good:
                seen.add(info.name)
                ctx.ok("check(%s) propagates the invariant" % info.name, fn, None)
    if len(seen) < 33:
        ctx.fail("rule C02.r2: check() found for %d statement kinds, expected 33" % len(seen))


def r3_entry_invariant(ctx):
    ctx.rule("C02.r3", "the checker starts each block from the analyzer's invariant at the ENTRY of the same block, and re-seeds the shared "
             "transformer for every property checker before it pushes the statements of the block through it", floor=4)
    for cls, getter in (("crab::checker::intra_checker", None), ("crab::checker::inter_checker", "get_pre")):
        fs = ctx.db.fns(CHK, pk=cls + "::run")
        ctx.need(fs, cls + "::run")
        for fn in fs:
            body = fn["body"]
            d = local_decls(body)
            sets = [n for n, ps in nodes_not_in_log(body, lambda x: is_call(x, name="set_abs_value"))]
            for s in sets:
                v = resolve_local(body, strip_move(s["a"][0]), d)
                v = strip_move(v)
                # m_analyzer[bb.label()]  or  m_analyzer.get_pre(cfg, bb.label())
                okv = False
                lab = None
                if isinstance(v, dict) and v.get("k") == "call" and is_field(obj(v), "m_analyzer"):
                    nm = callee(v)["name"]
                    if nm in ("operator[]", "get_pre"):
                        lab = v["a"][-1]
                        okv = True
                    elif nm == "get_post":
                        ctx.bad("the checker seeds a block with get_post (the invariant at the block's EXIT): assertions inside the "
                                "block are judged against states that already passed them", fn, s, sig="checker-post:%s" % cls)
                        continue
                if not okv:
                    ctx.bad("the checker's start value `%s` is not the analyzer's invariant at the block entry" % src(v)[:60], fn, s,
                            sig="checker-seed:%s" % cls)
                    continue
                # the label is bb.label() of the block whose statements are visited next
                loops = [l for l in walk(body) if l.get("k") == "rangefor" and any(x is s for x in walk(l.get("b")))]
                inner = [l for l in loops if isinstance(l.get("v"), dict) and is_call(strip(lab), name="label") and
                         is_ref(obj(strip(lab))) and obj(strip(lab)).get("id") == l["v"]["id"]]
                stmt_loops = [l for l in walk(body) if l.get("k") == "rangefor" and inner and is_ref(l.get("r")) and
                              strip(l["r"]).get("id") == inner[0]["v"]["id"] and any(is_call(x, name="accept") for x in walk(l.get("b")))]
                # every loop between the block loop and the statement loop (the loop over the property checkers: they share ONE
                # transformer, and each of them pushes the whole block through it) must re-seed the transformer, before the statements
                between = [l for l in walk(body) if l.get("k") in ("rangefor", "for", "while") and inner and stmt_loops and l is not inner[0]
                           and l is not stmt_loops[0] and any(x is l for x in walk(inner[0].get("b")))
                           and any(x is stmt_loops[0] for x in walk(l.get("b")))]
                stale = [l for l in between if not any(x is s for x in walk(l.get("b")))]
                order = [x for x in walk(body) if x is s or (stmt_loops and x is stmt_loops[0])]
                if inner and stmt_loops and stale:
                    ctx.bad("the transformer is seeded with the block's entry invariant once per block, outside the loop over the property "
                            "checkers that share it: the second checker starts from the state the first one left at the END of the block "
                            "(every assertion of the block already assumed) and reports SAFE / UNREACHABLE for assertions the invariant "
                            "does not entail", fn, s, sig="checker-seed-hoisted:%s" % cls)
                elif inner and stmt_loops and order and order[0] is not s:
                    ctx.bad("the transformer is seeded after the statements of the block were checked", fn, s, sig="checker-seed-late:%s" % cls)
                elif inner and stmt_loops:
                    ctx.ok("%s: set_abs_value(analyzer[bb.label()]); for stmt in bb: stmt.accept(checker)" % cls.split("::")[-1], fn, s)
                else:
                    ctx.bad("the block whose invariant seeds the checker is not the block whose statements are then checked", fn, s,
                            sig="checker-block-mismatch:%s" % cls)


def r4_discharge(ctx):
    ctx.rule("C02.r4", "backward discharge: proved only under an empty refined precondition at a dominating block / at the entry", floor=2)
    fs = ctx.db.fns(BWD, pk=FB + "::discharge_assertions")
    if not ctx.need(fs, "discharge_assertions"):
        return
    for fn in fs:
        body = fn["body"]
        g = paths.guards(body)
        ins = [(n, ps) for n, ps in nodes_not_in_log(body, lambda x: is_call(x, name="insert") and is_field(obj(x), "m_proved_assertions"))]
        if not ins:
            ctx.bad("discharge_assertions never records a proved assertion", fn, body, sig="discharge-none")
        for n, ps in ins:
            # guards inside a lambda are relative to the lambda body; collect the lambda's own guards and the enclosing ones
            lam = [p for p in ps if p.get("k") == "lambda"]
            gs = list(g.get(id(n), ()))
            if lam:
                gl = paths.guards(lam[-1]["b"])
                gs = list(gl.get(id(n), ())) + list(g.get(id(lam[-1]), ()))
            lb = lam[-1]["b"] if lam else body

            def bottom(c):
                c = strip(c)
                return 1 if is_call(c, name="is_bottom") and any(x.get("k") == "mem" and x.get("n") == "second" for x in walk(obj(c))) else 0

            def dom(c):
                c = resolve_local(lb, c)
                c = strip(c)
                return 1 if is_call(c, name="dominates") else 0
            tb = guard_truth(gs, bottom, lb) is True or guard_truth(gs, bottom, body) is True
            td = guard_truth(gs, dom, lb) is True

            def idom_nonempty(c):
                c = strip(c)
                if is_call(c, name="empty") and any(is_param(obj(c), fn, i) for i, pp in enumerate(fn.get("params", []))
                                                    if "idom" in (pp.get("T") or "") or "idom" in (pp.get("n") or "")):
                    return -1
                return 0
            has_idom = guard_truth(g.get(id(lam[-1]) if lam else id(n), ()), idom_nonempty, body)
            if tb and (td or has_idom is False):
                ctx.ok("proved under is_bottom() %s" % ("and dominates(n, m)" if td else "at the entry (no dominator tree)"), fn, n)
            else:
                ctx.bad("an assertion is marked as proved by the backward analysis %s" %
                        ("without the dominance test: an empty precondition at block n only covers assertions n dominates" if tb
                         else "without the refined precondition being bottom"), fn, n, sig="discharge-guard:%s" % ("dom" if tb else "bottom"))
        # entry branch uses the CFG entry
        ent = [n for n in walk(body) if is_call(n, name="find") and n.get("a") and is_call(strip(n["a"][0]), name="entry")]
        if ent:
            ctx.ok("no-dominator branch looks at m_cfg.entry()", fn, ent[0])


def r5_stabilised(ctx):
    ctx.rule("C02.r5", "inter-procedural checker runs only after the callee analysis returned, outside nested WTO components and off the call stack", floor=2)
    fs = ctx.db.fns(TD, pk=C09.TR + "::analyze_callee")
    if not ctx.need(fs, "analyze_callee"):
        return
    for fn in fs:
        body = fn["body"]
        g = paths.guards(body)
        cf = [(n, ps) for n, ps in nodes_not_in_log(body, lambda x: is_call(x, name="check_function"))]
        if not cf:
            ctx.bad("analyze_callee never runs the checker", fn, body, sig="inter-check-missing")
        for n, ps in cf:
            lam = [p for p in ps if p.get("k") == "lambda"]
            if not lam:
                ctx.undecided("check_function is not called from the `check` lambda", fn, n)
                continue
            gl = paths.guards(lam[-1]["b"])

            def on_stack(c):
                c = strip(c)
                return 1 if is_call(c, name="find_call_stack") else 0
            if guard_truth(gl.get(id(n), ()), on_stack, lam[-1]["b"]) is False:
                ctx.ok("check_function only for nodes that are not on the call stack", fn, n)
            else:
                ctx.bad("the checker can run on a function that is still on the call stack (its invariants are not final)", fn, n,
                        sig="inter-check-on-stack")
        # the call of the lambda is guarded by callee_analysis && !included_nested_wto_component
        calls = [n for n in walk(body, into_lambdas=False) if n.get("k") == "call" and n.get("op") == "()" and is_ref(n.get("o")) and
                 strip(n["o"]).get("n") == "check"]
        for c in calls:
            def nested(cn):
                cn = strip(cn)
                return 1 if is_call(cn, name="included_nested_wto_component") else 0
            if guard_truth(g.get(id(c), ()), nested, body) is False:
                ctx.ok("checker delayed until the callee is outside every nested WTO component", fn, c)
            else:
                ctx.bad("the checker runs on a callee that still belongs to a nested WTO component of the call graph", fn, c,
                        sig="inter-check-nested")


def r6_sides(ctx):
    ctx.rule("C02.r6", "verdicts after a call rely on the formal/actual discipline of the call continuation", floor=4)
    save = ctx.cur
    # same rule instance as C09.r3, reported under this property
    def run():
        for name, lhs_side in (("get_callee_entry", "callee"), ("get_caller_continuation", "caller")):
            pass
    C09_r3 = C09.r3_sides
    rules_before = set(ctx.rules)
    C09_r3(ctx)
    # move the obligations recorded under C09.r3 to C02.r6
    r = ctx.rules.pop("C09.r3", None)
    if r is not None:
        tgt = ctx.rules["C02.r6"]
        for k in ("ok", "bad", "undecided"):
            tgt[k] += r[k]
        tgt["samples"] += r["samples"]
        for v in ctx.violations:
            if v["rule"] == "C09.r3":
                v["rule"] = "C02.r6"
                v["rule_desc"] = tgt["desc"]


def r7_run_local_state(ctx):
    ctx.rule("C02.r7", "the forward+backward analyzer resets its per-run tables (proved assertions, stored invariants) at the start of run()", floor=1)
    fs = [f for f in ctx.db.fns(BWD, pk=FB + "::run") if len(f.get("params", [])) == 6]
    if not ctx.need(fs, "intra_forward_backward_analyzer::run"):
        return
    tables = ("m_proved_assertions", "m_unproven_assertions", "m_pre_invariants", "m_post_invariants")
    for fn in fs:
        body = fn["body"]
        # summaries of helpers called on this: which tables they clear
        helpers = {}
        for h in ctx.db.fns(BWD, cpk=FB):
            if h.get("cls") != fn.get("cls"):
                continue
            cl = set()
            for n in walk(h["body"]):
                if is_call(n, name="clear") and is_field(obj(n)) and deref(n["o"]).get("n") in tables and not paths.guards(h["body"]).get(id(n)):
                    cl.add(deref(n["o"])["n"])
            if cl:
                helpers[h["name"]] = cl

        def gen(n):
            out = []
            if is_call(n, name="clear") and is_field(obj(n)) and deref(n["o"]).get("n") in tables:
                out.append("clr:" + deref(n["o"])["n"])
            if n.get("k") == "call" and is_this(n.get("o")) and callee(n) and callee(n)["name"] in helpers:
                out.extend("clr:" + t for t in helpers[callee(n)["name"]])
            return out
        f = paths.must_events(body, gen)
        # first use: gather_assertions() fills m_unproven_assertions; store_results() fills the invariant maps
        uses = [n for n, ps in nodes_not_in_log(body, lambda x: is_call(x, name=("gather_assertions", "store_results", "discharge_assertions")) and is_this(x.get("o")))]
        need = {"gather_assertions": ("m_unproven_assertions", "m_proved_assertions"), "store_results": ("m_pre_invariants", "m_post_invariants"),
                "discharge_assertions": ("m_proved_assertions",)}
        missing = set()
        for u in uses:
            st = f.at.get(id(u), frozenset())
            for t in need[callee(u)["name"]]:
                if ("clr:" + t) not in st:
                    missing.add(t)
        if not uses:
            ctx.undecided("run() does not call gather_assertions/store_results", fn, body)
        elif missing:
            ctx.bad("run() of the forward+backward analyzer does not reset %s before refilling them: a second run() on the same analyzer "
                    "keeps the assertions proved (and invariants stored) by the previous run, so the checker reports SAFE for "
                    "assertions that the new run did not prove" % sorted(missing), fn, uses[0], sig="fb-run-stale:%s" % ",".join(sorted(missing)))
        else:
            ctx.ok("run(): per-run tables cleared before use", fn, uses[0])


RULES = [r1_verdicts, r2_propagate, r3_entry_invariant, r4_discharge, r5_stabilised, r6_sides, r7_run_local_state]


def r8_unmodelled_results(ctx):
    ctx.rule("C02.r8", "a domain that does not model regions still forgets the integer / Boolean variable DEFINED by ref_load and "
             "ref_to_int (otherwise the checker proves assertions about a loaded value from the variable's stale value)", floor=20)
    from . import _domains as dm
    dm.lhs_kill_rule(ctx, "C02.r8", only={"ref_load", "ref_to_int"})


RULES += [r8_unmodelled_results]


def _as_own(ctx, own_rid, other_rid, rule_fn):
    """run a rule of another property and file its obligations under this property's rule id"""
    rule_fn(ctx)
    r = ctx.rules.pop(other_rid, None)
    if r is not None:
        tgt = ctx.rules[own_rid]
        for k in ("ok", "bad", "undecided"):
            tgt[k] += r[k]
        tgt["samples"] += r["samples"]
        for v in ctx.violations:
            if v["rule"] == other_rid:
                v["rule"] = own_rid
                v["rule_desc"] = tgt["desc"]


def r9_joined_context(ctx):
    ctx.rule("C02.r9", "the top-down checker judges the assertions of a callee only on entries the callee was analysed for: a stored "
             "calling context answers a new entry only if its summary was COMPUTED from a precondition that includes the entry "
             "(same rule instance as C09.r10; a joined context describes the union of the joined entries, not their convex join)", floor=1)
    _as_own(ctx, "C02.r9", "C09.r10", C09.r10_joined_reuse)


RULES += [r9_joined_context]


def r10_published_invariants(ctx):
    ctx.rule("C02.r10", "the invariants the forward+backward analyzer publishes to the checker are REACHABILITY invariants (the forward "
             "pass under the caller's assumptions, iteration 1): a forward pass refined with the backward preconditions describes only "
             "the states that can still lead to an error, and `bottom` there means `safe`, not `unreachable`", floor=2)
    fs = [f for f in ctx.db.fns(BWD, pk=FB + "::run") if len(f.get("params", [])) == 6]
    if not ctx.need(fs, "intra_forward_backward_analyzer::run"):
        return
    for fn in fs:
        body = fn["body"]
        g = paths.guards(body)
        cnt = [d for d in local_decls(body).values() if d.get("n") == "iters"]
        stores = [n for n, ps in nodes_not_in_log(body, lambda x: is_call(x, name="store_results") and is_this(x.get("o")))]
        if not stores:
            ctx.bad("run() never publishes the forward invariants", fn, body, sig="fb-no-store")
            continue

        def first_iter(c):
            p = cmp_parts(c)
            if not p or not cnt:
                return 0
            op, l, r = p
            for a, b in ((l, r), (r, l)):
                if isinstance(a, dict) and a.get("k") == "ref" and a.get("id") == cnt[0]["id"] and isinstance(b, dict) and b.get("k") == "lit" and b.get("v") == "1":
                    return {"==": 1, "!=": -1}.get(op, 1 if (op == "<=" and a is l) or (op == ">=" and a is r) else 0)
            return 0
        for s in stores:
            if guard_truth(g.get(id(s), ()), first_iter, body) is True:
                ctx.ok("store_results(F) in the first iteration: F ran under the caller's assumptions only", fn, s)
            else:
                ctx.bad("run() publishes the invariants of a forward pass REFINED with the backward preconditions (use_refined_invariants): "
                        "they hold only for the executions that can still fail, so the checker reports UNREACHABLE for an assertion that "
                        "executions reach (entry -> bt/bf -> join: assume(y>=1); assert(x>=1) is reached with x = 1 and reported unreachable)",
                        fn, s, sig="fb-refined-published:%s" % ("opt-in" if guard_truth(g.get(id(s), ()), lambda c: 1 if is_call(strip(c), name="get_use_refined_invariants") else 0, body) is True else "not-opt-in"))


RULES += [r10_published_invariants]


def r11_continuation_sorted_search(ctx):
    # same rule instance as C09.r14, reported under this property: a re-defined argument that the search misses makes the
    # interleaved checker judge the assertions after the call on stale values
    C09.r14_sorted_search(ctx, rid="C02.r11")


RULES += [r11_continuation_sorted_search]
