"""Decision-list evaluation of lattice operator prologues (C04.r1 and friends).

For every lattice operator of a class (<=, |, |=, &, &=, ||, &&,
widening_thresholds) the leading if/else-if/return chain is evaluated for the
nine abstract cases  this in {bot, top, other} x o in {bot, top, other}.  In
each case is_bottom()/is_top() of both operands are determinate, so the chain
either reaches a classified result (true/false, *this, o, bottom, top) or
reaches real computation (no verdict).  Exact inside the fragment, silent
outside it; cases decided on the reference tree must stay decidable.
"""
from ..tree import (walk, strip, is_call, is_this, is_field, src, obj, args, callee, children, deref)
from ..match import strip_move, is_param
from ..paths import is_noreturn_call, terminates

OPS = {"operator<=": "leq", "operator|": "join", "operator||": "widen", "widening_thresholds": "widen",
       "operator&": "meet", "operator&&": "narrow", "operator|=": "join_in", "operator&=": "meet_in"}

NOV = "NOVERDICT"
CASES = ("bot", "top", "other")


class _Stop(Exception):
    pass


def _is_stat_or_log(n):
    """statement that cannot influence the verdict: statistics, logging"""
    if not isinstance(n, dict):
        return True
    m = n.get("m")
    if m and any(p in ("CRAB_LOG", "CRAB_VERBOSE_IF", "CRAB_WARN", "assert") for p in m.split(">")):
        return True
    k = n.get("k")
    if k == "call":
        f = callee(n) or {}
        if (f.get("cpk") or "").startswith("crab::CrabStats") or f.get("pk", "").startswith("crab::CrabStats"):
            return True
    if k == "decl":
        i = strip(n.get("i")) if "i" in n else None
        if isinstance(i, dict) and i.get("k") == "ctor" and (callee(i) or {}).get("cpk", "").startswith("crab::ScopedCrabStats"):
            return True
        if isinstance(n.get("i"), dict) and n["i"].get("k") == "ctor" and (callee(n["i"]) or {}).get("cpk", "").startswith("crab::ScopedCrabStats"):
            return True
    if k == "do":
        # do { if (log) {...} } while (0)
        return all(_is_stat_or_log(x) or x.get("k") in ("seq", "if", "lit", "bin", "ref", "mem", "call") and _only_log(x) for x in [n.get("b")])
    return False


def _only_log(n):
    m = n.get("m") if isinstance(n, dict) else None
    return bool(m and any(p in ("CRAB_LOG", "CRAB_VERBOSE_IF", "CRAB_WARN", "assert") for p in m.split(">")))


class _Eval:
    def __init__(self, fn, cthis, cother):
        self.fn = fn
        self.cthis = cthis
        self.cother = cother
        self.state = "this"         # for in-place operators
        self.result = None

    # three-valued condition evaluation
    def cond(self, c):
        c = strip(c)
        if not isinstance(c, dict):
            return None
        k = c.get("k")
        if k == "lit" and c.get("v") in ("true", "false"):
            return c["v"] == "true"
        if k == "un" and c.get("op") == "!":
            r = self.cond(c.get("e"))
            return None if r is None else (not r)
        if k == "call" and c.get("op") == "!" and "o" in c and not c.get("a"):
            r = self.cond(c["o"])
            return None if r is None else (not r)
        if k == "bin" and c.get("op") in ("&&", "||"):
            a, b = self.cond(c.get("L")), self.cond(c.get("R"))
            if c["op"] == "&&":
                if a is False or b is False:
                    return False
                if a is True and b is True:
                    return True
                return None
            if a is True or b is True:
                return True
            if a is False and b is False:
                return False
            return None
        if k == "call" and callee(c) and callee(c)["name"] in ("is_bottom", "is_top") and "o" in c and not c.get("a"):
            who = None
            if is_this(c["o"]):
                who = self.cthis if self.state == "this" else None
            elif is_param(c["o"], self.fn, 0):
                who = self.cother
            if who is None:
                return None
            if callee(c)["name"] == "is_bottom":
                return who == "bot"
            return who == "top"
        return None

    def classify(self, e):
        e = strip_move(e)
        if not isinstance(e, dict):
            return None
        if e.get("k") == "lit" and e.get("v") in ("true", "false"):
            return e["v"]
        if is_this(e):
            return self.state
        if is_param(e, self.fn, 0):
            return "o"
        if e.get("k") == "call" and callee(e):
            nm = callee(e)["name"]
            if nm in ("make_bottom", "bottom") and not e.get("a"):
                return "bottom"
            if nm in ("make_top", "top") and not e.get("a"):
                return "top"
        if e.get("k") == "cond":
            c = self.cond(e.get("c"))
            if c is True:
                return self.classify(e.get("t"))
            if c is False:
                return self.classify(e.get("e"))
        return None

    def run(self, body):
        try:
            fell = self.block(body)
        except _Stop:
            return NOV
        if self.result is not None:
            return self.result
        if fell:
            # fell off the end of a void function
            return self.state
        return NOV

    def block(self, n):
        """returns True if execution falls through"""
        if not isinstance(n, dict):
            return True
        k = n.get("k")
        if k == "seq":
            for s in n.get("b", []):
                if not self.block(s):
                    return False
            return True
        if _is_stat_or_log(n) or _only_log(n):
            return True
        if k == "if":
            if "init" in n or "var" in n:
                raise _Stop()
            c = self.cond(n.get("c"))
            if c is None:
                raise _Stop()
            if c:
                return self.block(n.get("t"))
            if "e" in n:
                return self.block(n["e"])
            return True
        if k == "ret":
            if "v" in n:
                r = self.classify(n["v"])
                if r is None:
                    raise _Stop()
                self.result = r
            else:
                self.result = self.state
            return False
        # in-place effects
        if k == "call" and n.get("op") == "=" and "o" in n and is_this(n["o"]) and n.get("a"):
            r = self.classify(n["a"][0])
            if r is None:
                raise _Stop()
            self.state = r
            return True
        if k == "asg" and is_this(n.get("L")):
            r = self.classify(n.get("R"))
            if r is None:
                raise _Stop()
            self.state = r
            return True
        if k == "call" and callee(n) and callee(n)["name"] in ("set_to_bottom", "set_to_top") and is_this(n.get("o")):
            self.state = "bottom" if callee(n)["name"] == "set_to_bottom" else "top"
            return True
        if k == "do" and terminates(n):
            raise _Stop()
        raise _Stop()


def _allowed(kind, ct, co):
    """set of acceptable results for the case, or None when any result is
    acceptable / the case needs real computation"""
    if kind == "leq":
        if ct == "bot":
            return {"true"}
        if co == "top":
            return {"true"}
        if co == "bot":
            return {"false"}            # this is not bottom here
        return None
    if kind in ("join", "widen"):
        if ct == "bot" and co == "bot":
            return {"this", "o", "bottom"}
        if ct == "bot":
            return {"o"} | ({"top"} if co == "top" else set())
        if co == "bot":
            return {"this"} | ({"top"} if ct == "top" else set())
        if ct == "top" and co == "top":
            return {"this", "o", "top"}
        if ct == "top":
            return {"this", "top"}
        if co == "top":
            return {"o", "top"}
        return None
    if kind == "narrow":
        # narrowing of a decreasing pair (o <= this) only has to stay above o and below this:
        # the only wrong verdict is a result that drops states of a non-bottom second argument
        if co == "bot" or ct == "bot":
            return {"this", "o", "bottom"}
        return {"this", "o", "top"}
    if kind in ("meet",):
        if ct == "bot" and co == "bot":
            return {"this", "o", "bottom"}
        if ct == "bot":
            return {"this", "bottom"}
        if co == "bot":
            return {"o", "bottom"}
        if ct == "top" and co == "top":
            return {"this", "o", "top"}
        if ct == "top":
            return {"o"}
        if co == "top":
            return {"this"}
        return None
    if kind == "join_in":
        if ct == "bot" and co == "bot":
            return {"this", "o", "bottom"}
        if ct == "bot":
            return {"o"} | ({"top"} if co == "top" else set())
        if co == "bot":
            return {"this"}
        if ct == "top" and co == "top":
            return {"this", "o", "top"}
        if ct == "top":
            return {"this", "top"}
        if co == "top":
            return {"o", "top"}
        return None
    if kind == "meet_in":
        if ct == "bot":
            return {"this", "bottom"} | ({"o"} if co == "bot" else set())
        if co == "bot":
            return {"o", "bottom"}
        if ct == "top" and co == "top":
            return {"this", "o", "top"}
        if ct == "top":
            return {"o"}
        if co == "top":
            return {"this"}
        return None
    return None


_DESCR = {"true": "true", "false": "false", "this": "*this", "o": "the argument", "bottom": "bottom", "top": "top"}


def prologue_rule(ctx, rid, files, class_filter=None, min_classes=1):
    classes_seen = set()
    for f in files:
        if not ctx.db.has_file(f):
            continue
        for fn in ctx.db.fns(f):
            kind = OPS.get(fn["name"])
            if kind is None or not fn.get("cpk") or fn.get("static"):
                continue
            ps = fn.get("params", [])
            if not ps:
                continue
            cname = fn["cpk"].split("::")[-1]
            p0 = ps[0].get("TC") or ps[0].get("T") or ""
            if cname not in p0:
                continue
            if class_filter and not class_filter(fn):
                continue
            if fn["name"] == "widening_thresholds" and len(ps) != 2:
                continue
            if fn["name"] != "widening_thresholds" and len(ps) != 1:
                continue
            classes_seen.add(fn["cpk"])
            for ct in CASES:
                for co in CASES:
                    allowed = _allowed(kind, ct, co)
                    ev = _Eval(fn, ct, co)
                    res = ev.run(fn["body"])
                    key = "%s|%s|%s|%s,%s" % (rid, fn["pk"], fn.get("targs", ""), ct, co)
                    if res == NOV:
                        ctx.skipped(key, rid=rid)
                        continue
                    if allowed is None:
                        ctx.ok("%s::%s (%s,%s) -> %s" % (cname, fn["name"], ct, co, _DESCR.get(res, res)), fn, None, rid=rid, key=key)
                        continue
                    if res in allowed:
                        ctx.ok("%s::%s (this=%s, o=%s) -> %s" % (cname, fn["name"], ct, co, _DESCR.get(res, res)), fn, None, rid=rid, key=key)
                    else:
                        ctx.bad("%s::%s answers %s when this is %s and the argument is %s; required: %s" %
                                (fn["cpk"], fn["name"], _DESCR.get(res, res), _W[ct], _W[co],
                                 " or ".join(sorted(_DESCR[a] for a in allowed))),
                                fn, fn["body"], sig="prologue:%s:%s:%s,%s" % (fn["pk"], kind, ct, co), rid=rid, key=key)
    if len(classes_seen) < min_classes:
        ctx.fail("rule %s: lattice operators found for %d classes, expected >= %d" % (rid, len(classes_seen), min_classes))


_W = {"bot": "bottom", "top": "top", "other": "neither bottom nor top"}
