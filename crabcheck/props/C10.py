"""C10 - summary-based (bottom-up + top-down) analysis."""
from ..tree import (walk, walk_with_parents, strip, is_call, is_ref, is_this, is_field, deref, same_expr,
                    src, obj, args, callee)
from .. import paths
from ..match import (strip_move, is_param, rets, nodes_not_in_log, resolve_local, local_decls, writes_to, cmp_parts,
                     guard_truth, atom_truth)

LEVEL_TEXT = ("Clause-level static rules: summary application uses the RENAMED inputs/summary/outputs (never the callee's own "
              "variable names), in the order unify inputs -> meet with the summary -> unify outputs -> forget the renamed formals; "
              "fresh names are created for every input and output and the summary is renamed (inputs, outputs) -> (fresh inputs, "
              "fresh outputs); every path of both call-site transformers applies a summary or havocs every lhs; loops that pair "
              "formals with actuals through a manual index advance the index on every path through the body; the bottom-up phase "
              "walks the SCC graph in reverse topological order and the top-down phase in the opposite order, summaries are "
              "projected on the formals before being stored, recursive components get a top calling context; calling contexts "
              "are projected on the inputs before being stored and are JOINED per function. The SCC / topological-sort algorithms "
              "and the precision of domain conversion are NOT decided."
              " Every inter-component call-graph edge reaches add_edge in the construction of the component DAG (loop never left early).")
ASSUMPTIONS = ["scc_graph / rev_topo_sort compute a reverse topological order of the SCCs (graph algorithm, not decided)",
               "domain operations are sound (C03/C04)"]

BU = "include/crab/analysis/inter/bottom_up_inter_analyzer.hpp"
NS = "crab::analyzer::inter_analyzer_impl::"
BUT = NS + "bu_summ_abs_transformer"
TDT = NS + "td_summ_abs_transformer"
SUMM = NS + "summary"
ANA = "crab::analyzer::bottom_up_inter_analyzer"


def r1_reuse_summary(ctx):
    ctx.rule("C10.r1", "reuse_summary: renamed accessors only; unify inputs -> caller & summary -> unify outputs -> forget renamed formals", floor=4)
    fs = ctx.db.fns(BU, pk=BUT + "::reuse_summary")
    if not ctx.need(fs, "reuse_summary"):
        return
    for fn in fs:
        body = fn["body"]
        d = local_decls(body)
        raw = [n for n, ps in nodes_not_in_log(body, lambda x: is_call(x, name=("get_inputs", "get_outputs", "get_sum")) and is_param(x.get("o"), fn, 2))]
        if raw:
            ctx.bad("reuse_summary reads the summary through `%s`: the callee's own variable names clash with the caller's when both "
                    "use the same names; the renamed accessors must be used" % src(raw[0]), fn, raw[0], sig="reuse-unrenamed:%s" % callee(raw[0])["name"])
        else:
            ctx.ok("reuse_summary uses get_renamed_inputs/sum/outputs only", fn, None)
        caller = fn["params"][0]["id"]

        def gen(n):
            if is_call(n, name="unify") and n.get("a") and is_ref(n["a"][0]) and strip(n["a"][0]).get("id") == caller:
                # which loop? inputs loop ranges over renamed inputs; outputs loop over renamed outputs
                return ("unify",)
            if n.get("k") == "call" and n.get("op") == "=" and is_ref(n.get("o")) and strip(n["o"]).get("id") == caller and \
                    is_call(strip_move(n["a"][0]), op="&"):
                return ("meet",)
            if n.get("k") == "call" and n.get("op") == "&=" and is_ref(n.get("o")) and strip(n["o"]).get("id") == caller:
                return ("meet",)
            return ()
        f = paths.must_events(body, gen)
        loops = [l for l in walk(body) if l.get("k") in ("for", "rangefor") and any(is_call(x, name="unify") for x in walk(l.get("b")))]
        meets = [n for n in walk(body) if (n.get("k") == "call" and n.get("op") == "=" and is_ref(n.get("o")) and
                                           strip(n["o"]).get("id") == caller and is_call(strip_move(n["a"][0]), op="&")) or
                 (n.get("k") == "call" and n.get("op") == "&=" and is_ref(n.get("o")) and strip(n["o"]).get("id") == caller)]
        forgets = [n for n in walk(body) if is_call(n, name="forget") and is_ref(n.get("o")) and strip(n["o"]).get("id") == caller]
        if len(loops) == 2 and len(meets) == 1 and forgets:
            order = [x for x in walk(body) if x is loops[0] or x is loops[1] or x is meets[0] or x is forgets[-1]]
            names = ["in" if x is loops[0] else "out" if x is loops[1] else "meet" if x is meets[0] else "forget" for x in order]
            rng0 = resolve_local(body, loops[0].get("r"), d) if loops[0].get("k") == "rangefor" else None
            in_first = rng0 is not None and any(is_call(x, name="get_renamed_inputs") for x in walk(rng0))
            m = strip_move(meets[0]["a"][0])
            summ_arg = None
            if is_call(m, op="&"):
                summ_arg = resolve_local(body, m["a"][0], d)
            elif meets[0].get("op") == "&=":
                summ_arg = resolve_local(body, meets[0]["a"][0], d)
            uses_renamed = summ_arg is not None and any(is_call(x, name="get_renamed_sum") for x in walk(summ_arg))
            if names == ["in", "meet", "out", "forget"] and in_first and uses_renamed:
                ctx.ok("unify inputs; caller & renamed summary; unify outputs; forget", fn, meets[0])
            else:
                ctx.bad("reuse_summary performs %s%s; expected: unify renamed inputs with the actuals, meet with get_renamed_sum(), unify "
                        "the lhs with the renamed outputs, forget the renamed formals" %
                        (names, "" if uses_renamed else " (the meet does not use get_renamed_sum())"), fn, meets[0], sig="reuse-order")
        else:
            ctx.undecided("reuse_summary: expected two unify loops, one meet and a final forget (found %d/%d/%d)" %
                          (len(loops), len(meets), len(forgets)), fn, body)
        # output unification: caller lhs first
        for l in loops[1:]:
            for u in [x for x in walk(l.get("b")) if is_call(x, name="unify")]:
                a1 = resolve_local(body, u["a"][1], d)
                a2 = resolve_local(body, u["a"][2], d)
                # a1 derives from cs.get_lhs(), a2 from get_renamed_outputs
                def derives(e, nm):
                    for x in walk(e):
                        if x.get("k") == "ref" and x.get("rk") == "local":
                            dd = d.get(x.get("id"))
                            if dd is not None and "i" in dd and any(is_call(y, name=nm) for y in walk(dd["i"])):
                                return True
                        if is_call(x, name=nm):
                            return True
                    return False
                if derives(a1, "get_lhs") and derives(a2, "get_renamed_outputs"):
                    ctx.ok("outputs: unify(caller, lhs, renamed output)", fn, u)
                elif derives(a1, "get_renamed_outputs") and derives(a2, "get_lhs"):
                    ctx.bad("reuse_summary unifies the renamed output := caller lhs (arguments swapped): the call's results never "
                            "reach the caller's variables", fn, u, sig="reuse-out-swapped")


def r2_renaming(ctx):
    ctx.rule("C10.r2", "summary: a fresh name for EVERY input and output; renaming maps (inputs, outputs) to (fresh inputs, fresh outputs)", floor=3)
    ctors = [f for f in ctx.db.fns(BU, cpk=SUMM) if f.get("ctor") == "other"]
    if not ctx.need(ctors, "summary constructor"):
        return
    for fn in ctors:
        body = fn["body"]
        loops = [l for l in walk(body) if l.get("k") == "rangefor"]
        pushed = {}
        for l in loops:
            rng = deref(l.get("r"))
            src_f = rng.get("n") if isinstance(rng, dict) and rng.get("k") == "mem" else None
            for n in walk(l.get("b")):
                if is_call(n, name="push_back") and is_field(obj(n)):
                    pushed[obj(n).get("n")] = src_f
        if pushed.get("m_internal_inputs") == "m_inputs" and pushed.get("m_internal_outputs") == "m_outputs":
            ctx.ok("fresh names: one per input and one per output", fn, None)
        else:
            ctx.bad("the summary constructor creates fresh names as %s; expected m_internal_inputs from m_inputs and m_internal_outputs "
                    "from m_outputs" % pushed, fn, body, sig="summary-fresh")
    for fn in ctx.db.fns(BU, pk=SUMM + "::get_renamed_sum"):
        calls = [n for n in walk(fn["body"]) if is_call(n, name="rename") and len(n.get("a", [])) == 5]
        if calls:
            names = [deref(a).get("n") if isinstance(deref(a), dict) else None for a in calls[0]["a"][1:]]
            if names == ["m_inputs", "m_outputs", "m_internal_inputs", "m_internal_outputs"]:
                ctx.ok("get_renamed_sum: rename(m_inputs, m_outputs -> m_internal_inputs, m_internal_outputs)", fn, calls[0])
            else:
                ctx.bad("get_renamed_sum renames %s; expected (m_inputs, m_outputs, m_internal_inputs, m_internal_outputs)" % names, fn,
                        calls[0], sig="summary-rename-args")
        else:
            ctx.bad("get_renamed_sum does not rename the summary", fn, fn["body"], sig="summary-rename-missing")
    for fn in ctx.db.fns(BU, pk=SUMM + "::rename"):
        body = fn["body"]
        rn = [n for n in walk(body) if is_call(n, name="rename") and is_param(n.get("o"), fn, 0)]
        d = local_decls(body)
        if rn:
            # from_vars built from params 1,2 ; to_vars from params 3,4 (inputs first)
            def built_from(vid):
                out = []
                for n in walk(body):
                    if is_call(n, name="insert") and is_ref(n.get("o")) and strip(n["o"]).get("id") == vid:
                        for x in walk(n["a"][1]):
                            if x.get("k") == "ref" and x.get("rk") == "param":
                                out.append([i for i, p in enumerate(fn["params"]) if p["id"] == x["id"]][0])
                                break
                return out
            a = rn[0]["a"]
            f_ids = [strip(x).get("id") for x in a]
            if built_from(f_ids[0]) == [1, 2] and built_from(f_ids[1]) == [3, 4]:
                ctx.ok("rename(abs, from = inputs+outputs, to = fresh inputs+fresh outputs)", fn, rn[0])
            else:
                ctx.bad("summary::rename concatenates %s -> %s; expected [inputs, outputs] -> [fresh inputs, fresh outputs]" %
                        (built_from(f_ids[0]), built_from(f_ids[1])), fn, rn[0], sig="summary-rename-concat")


def r3_callsites(ctx):
    ctx.rule("C10.r3", "both call-site transformers apply a summary or havoc every lhs on every path; tables are never null", floor=3)
    for cpk in (BUT, TDT):
        fs = [f for f in ctx.db.fns(BU, cpk=cpk, name="exec") if "callsite" in f["psig"]]
        if not ctx.need(fs, cpk + "::exec(callsite)"):
            continue
        for fn in fs:
            body = fn["body"]
            cs = fn["params"][0]["id"]

            def gen(n):
                if is_call(n, name="reuse_summary"):
                    return ("handled",)
                return ()
            f = paths.MustEvents(gen, refine=lambda c, p: (None if (is_field(strip(_neg_strip(c)[0]), "m_sum_tbl") and
                                                                    (p == _neg_strip(c)[1])) else ()))
            orig = f._loop

            def _loop(n, st, _o=orig):
                out = _o(n, st)
                if out is not None and n.get("k") == "rangefor" and any(is_call(x, name="get_lhs") for x in walk(n.get("r"))) and \
                        any(x.get("k") == "call" and x.get("op") == "-=" for x in walk(n.get("b"))):
                    out = out | frozenset(["handled"])
                return out
            f._loop = _loop
            f.run(body)
            bad_ret = [r for r, st in f.returns if "handled" not in st]
            if not bad_ret:
                ctx.ok("%s::exec(callsite): summary applied or lhs havocked on every path" % cpk.split("::")[-1], fn, None)
            else:
                r = bad_ret[0]
                ctx.bad("%s::exec(callsite_t&) has a path that neither applies a summary nor havocs the call's lhs: the caller keeps "
                        "the pre-call values of the results" % cpk.split("::")[-1], fn, r if r is not None else body,
                        sig="callsite-unhandled:%s" % cpk.split("::")[-1])
    # construction sites pass non-null tables
    for fn in [f for f in ctx.db.fns(BU, cpk=ANA) if f.get("ctor") == "other" or f["name"] == "run"]:
        nodes = list(walk(fn["body"])) + [x for i in fn.get("inits", []) for x in walk(i.get("e"))]
        for n in nodes:
            if n.get("k") == "ctor" and (callee(n) or {}).get("cpk") in (BUT, TDT):
                tables = [a for a in n.get("a", [])[1:]]
                if tables and all(isinstance(strip(a), dict) and strip(a).get("k") == "un" and strip(a).get("op") == "&" for a in tables):
                    ctx.ok("%s constructed with the analyzer's own tables" % callee(n)["cpk"].split("::")[-1], fn, n)
                else:
                    ctx.bad("%s is constructed with `%s` instead of the address of the analyzer's table" %
                            (callee(n)["cpk"].split("::")[-1], src(tables)[:40]), fn, n, sig="null-table:%s" % callee(n)["cpk"].split("::")[-1])


def _neg_strip(c):
    c = strip(c)
    neg = False
    while isinstance(c, dict) and c.get("k") == "un" and c.get("op") == "!":
        c = strip(c.get("e"))
        neg = not neg
    return c, neg


def r4_order(ctx):
    ctx.rule("C10.r4", "bottom-up over rev_topo_sort order, top-down over the reversed order; summaries projected before stored; recursive SCCs get top", floor=4)
    fs = ctx.db.fns(BU, pk=ANA + "::run")
    if not ctx.need(fs, "bottom_up_inter_analyzer::run"):
        return
    for fn in fs:
        body = fn["body"]
        d = local_decls(body)
        sorts = [n for n in walk(body) if is_call(n, name="rev_topo_sort")]
        if not sorts:
            ctx.bad("run() no longer sorts the SCC graph", fn, body, sig="no-topo-sort")
            continue
        order_id = strip(sorts[0]["a"][1]).get("id")
        loops = [l for l in walk(body, into_lambdas=False) if l.get("k") == "rangefor" and
                 any(x.get("k") == "ref" and x.get("id") == order_id for x in walk(l.get("r")))]
        bu_loop = [l for l in loops if any(is_call(x, name="insert") and is_field(obj(x), "m_summ_tbl") for x in walk(l.get("b")))]
        td_loop = [l for l in loops if any(is_call(x, name="get_call_ctx") for x in walk(l.get("b")))]
        if len(bu_loop) == 1 and is_ref(bu_loop[0].get("r")):
            ctx.ok("bottom-up phase iterates rev_order (callees before callers)", fn, bu_loop[0])
        else:
            ctx.bad("the bottom-up phase does not iterate the reverse topological order directly: callers would be summarised "
                    "before their callees", fn, (bu_loop or [body])[0], sig="bu-order")
        if len(td_loop) == 1 and any(is_call(x, name="rbegin") for x in walk(td_loop[0].get("r"))) and \
                any(is_call(x, name="rend") for x in walk(td_loop[0].get("r"))):
            ctx.ok("top-down phase iterates rev_order.rbegin()..rend() (callers before callees)", fn, td_loop[0])
        else:
            ctx.bad("the top-down phase must iterate rev_order backwards (rbegin..rend): calling contexts are produced by callers",
                    fn, (td_loop or [body])[0], sig="td-order")
        # order of the two phases
        if bu_loop and td_loop:
            o = [x for x in walk(body) if x is bu_loop[0] or x is td_loop[0]]
            if o[0] is not bu_loop[0]:
                ctx.bad("top-down phase runs before the bottom-up phase", fn, td_loop[0], sig="phase-order")
        # project before insert (in the branch that analyses the function)
        def gen(n):
            if is_call(n, name="project") and is_ref(n.get("o")) and strip(n["o"]).get("n") == "summary":
                return ("projected",)
            return ()
        f = paths.must_events(body, gen)
        ins = [n for n in walk(body) if is_call(n, name="insert") and is_field(obj(n), "m_summ_tbl")]
        for i in ins:
            v = strip(i["a"][1]) if len(i.get("a", [])) > 1 else None
            dd = d.get(v.get("id")) if isinstance(v, dict) else None
            from_top = dd is not None and "i" in dd and any(is_call(x, name="make_bu_top") for x in walk(dd["i"]))
            if from_top or "projected" in f.at.get(id(i), ()):
                ctx.ok("summary stored after project(formals)%s" % (" (top summary)" if from_top else ""), fn, i)
            else:
                ctx.bad("a summary is stored without being projected on the function's formal parameters", fn, i, sig="summary-unprojected")
        # recursive SCC: call table gets top before get_call_ctx
        g = paths.guards(body)
        tops = [n for n in walk(body) if is_call(n, name="insert") and is_field(obj(n), "m_call_tbl") and
                any(is_call(x, name="make_td_top") for x in walk(n))]
        if tops and any(any(is_ref(c, name="is_recursive") for c, p in g.get(id(t), ()) if not isinstance(c, tuple) and p) for t in tops):
            ctx.ok("recursive SCC members get a top calling context", fn, tops[0])
        else:
            ctx.bad("members of a recursive SCC must start from a top calling context", fn, body, sig="recursive-top")


def r5_td_exec(ctx):
    ctx.rule("C10.r5", "top-down call site: context projected on the inputs before it is stored; lhs havocked before the summary result is written back", floor=2)
    fs = [f for f in ctx.db.fns(BU, cpk=TDT, name="exec") if "callsite" in f["psig"]]
    for fn in fs:
        body = fn["body"]

        def gen(n):
            if is_call(n, name="project") and is_ref(n.get("o")) and strip(n["o"]).get("n") == "callee_ctx_inv":
                return ("projected",)
            return ()
        f = paths.must_events(body, gen)
        ins = [n for n in walk(body) if is_call(n, name="insert") and is_field(obj(n), "m_call_tbl")]
        for i in ins:
            if "projected" in f.at.get(id(i), ()) and is_ref(i["a"][1]) and strip(i["a"][1]).get("n") == "callee_ctx_inv":
                ctx.ok("m_call_tbl->insert(cs, ctx) after ctx.project(inputs)", fn, i)
            else:
                ctx.bad("the calling context is stored before it is projected on the callee's inputs (caller variables leak into the "
                        "callee's entry state)", fn, i, sig="ctx-unprojected")
        if not ins:
            ctx.bad("the top-down call-site transformer no longer records calling contexts", fn, body, sig="ctx-not-stored")


def r6_join_ctx(ctx):
    ctx.rule("C10.r6", "calling contexts of a function are JOINED", floor=1)
    fs = ctx.db.fns(BU, pk=NS + "call_ctx_table::insert_helper")
    if not ctx.need(fs, "call_ctx_table::insert_helper"):
        return
    for fn in fs:
        body = fn["body"]
        ups = [n for n in walk(body) if n.get("k") == "call" and n.get("op") in ("=", "|=", "&=") and
               any(x.get("k") == "mem" and x.get("n") == "second" for x in walk(n.get("o")))]
        okk = False
        for u in ups:
            if u.get("op") == "|=" and is_param(u["a"][0], fn, 1):
                okk = True
            if u.get("op") == "=" and is_call(strip_move(u["a"][0]), op="|") and any(is_param(x, fn, 1) for x in walk(u["a"][0]) if x.get("k") == "ref"):
                okk = True
        if okk:
            ctx.ok("existing context |= new context", fn, ups[0])
        else:
            ctx.bad("call_ctx_table::insert_helper updates an existing context with `%s`; contexts from different call sites must be "
                    "joined" % (src(ups[0])[:60] if ups else "nothing"), fn, body, sig="ctx-join")


def r7_index_loops(ctx):
    ctx.rule("C10.r7", "loops pairing formals with actuals through a manual index advance the index on every path through the body", floor=3)
    n = 0
    for fn in ctx.db.fns(BU):
        body = fn["body"]
        d = local_decls(body)
        for l in [x for x in walk(body) if x.get("k") == "rangefor"]:
            # an index variable used in the body (cs.get_arg_name(i), v[i]) that is declared outside the loop
            idx = set()
            for x in walk(l.get("b")):
                if is_call(x, name=("get_arg_name",)) and x.get("a") and is_ref(x["a"][0]) and strip(x["a"][0]).get("rk") == "local":
                    idx.add(strip(x["a"][0]).get("id"))
            inside = set(dd["id"] for dd in walk(l.get("b")) if dd.get("k") == "decl")
            idx -= inside
            for i in idx:
                n += 1

                def gen(nn, _i=i):
                    if nn.get("k") == "un" and nn.get("op") in ("pre++", "post++") and is_ref(nn.get("e")) and strip(nn["e"]).get("id") == _i:
                        return ("inc",)
                    if nn.get("k") == "asg" and nn.get("op") == "+=" and is_ref(nn.get("L")) and strip(nn["L"]).get("id") == _i:
                        return ("inc",)
                    return ()
                f = paths.MustEvents(gen)
                f._brk = [[]]
                f._cont = [[]]
                f._gotos = {}
                f._labels_seen = set()
                end = f.stmt(l.get("b"), frozenset())
                states = [s for s in ([end] + f._cont[0]) if s is not None]
                if states and all("inc" in s for s in states):
                    ctx.ok("%s: index advanced on every path of the pairing loop" % fn["name"], fn, l)
                else:
                    ctx.bad("in %s the index pairing formal and actual parameters is not advanced on every path through the loop body "
                            "(a `continue` or a branch skips the increment): later formals are paired with the wrong actuals" % fn["name"],
                            fn, l, sig="index-skip:%s" % fn["pk"])
    if n == 0:
        ctx.fail("rule C10.r7: no index-paired loop found")


RULES = [r1_reuse_summary, r2_renaming, r3_callsites, r4_order, r5_td_exec, r6_join_ctx, r7_index_loops]


def r8_parallel_wiring(ctx):
    ctx.rule("C10.r8", "top-down call site: formals receive the actuals SIMULTANEOUSLY - unify(ctx, formal_i, actual_i) straight from the "
             "call's arguments is only sound through fresh intermediates (caller and callee may share names, e.g. g(a,b) called as g(b,a))", floor=1)
    fs = [f for f in ctx.db.fns(BU, cpk=TDT, name="exec") if "callsite" in f["psig"]]
    if not ctx.need(fs, "td_summ_abs_transformer::exec(callsite)"):
        return
    for fn in fs:
        body = fn["body"]
        d = local_decls(body)
        n = 0
        for l in walk(body):
            if l.get("k") not in ("for", "rangefor", "while"):
                continue
            for u in walk(l.get("b")):
                if not (is_call(u, name="unify") and len(u.get("a", [])) == 3):
                    continue
                dst, srcv = strip(u["a"][1]), strip(u["a"][2])
                # the unification that reads an ACTUAL (cs.get_arg_name(i) / cs.get_args()[i], directly or through a local reference)
                rs = resolve_local(body, srcv, d)
                reads_actual = any(is_call(x, name=("get_arg_name", "get_args")) for x in walk(rs)) or \
                    any(is_call(x, name=("get_arg_name", "get_args")) for x in walk(srcv))
                if not reads_actual:
                    continue
                n += 1
                # destination must be a fresh variable: a local constructed from a variable-factory call
                rd = d.get(dst.get("id")) if isinstance(dst, dict) and dst.get("k") == "ref" and dst.get("rk") == "local" else None
                fresh = rd is not None and any(is_call(x, name="get") and any(is_call(y, name="get_var_factory") or
                                                                             (y.get("k") == "ref" and "fac" in (y.get("n") or "")) for y in walk(x))
                                               for x in walk(rd.get("i")))
                if fresh:
                    ctx.ok("actual copied into a fresh variable first", fn, u)
                else:
                    ctx.bad("td_summ_abs_transformer::exec assigns `%s := %s` (formal := actual) one pair after the other in the same "
                            "state: when a formal also occurs among the actuals (g(a_in, b_in) called as g(b_in, a_in)) a later pair "
                            "reads the overwritten value and the stored calling context is wrong (a_in = b_in = 2 instead of 2, 1)" %
                            (src(dst), src(srcv)), fn, u, sig="sequential-unify:td_summ")
        if n == 0:
            ctx.undecided("the unification of actuals in td_summ_abs_transformer::exec was not found", fn, body)


RULES += [r8_parallel_wiring]


def r9_recursive_components(ctx):
    ctx.rule("C10.r9", "top-down phase: a component is recursive when it has several members OR its single member has a self-edge IN THE "
             "CALL GRAPH (the SCC graph drops the edges inside a component, so it never shows a self-edge); every member of a "
             "recursive component - the root included - is analysed from a value that covers the call-context table entry "
             "(which holds the top context inserted for recursive components)", floor=3)
    fs = ctx.db.fns(BU, pk=ANA + "::run")
    if not ctx.need(fs, "bottom_up_inter_analyzer::run"):
        return
    for fn in fs:
        body = fn["body"]
        d = local_decls(body)
        rec = [dd for dd in d.values() if dd.get("n") == "is_recursive" and "i" in dd]
        if not rec:
            ctx.bad("bottom_up_inter_analyzer::run no longer computes is_recursive", fn, body, sig="no-is-recursive")
            continue
        init = rec[0]["i"]
        # (a) several members
        size_cmp = [x for x in walk(init) if cmp_parts(x) and cmp_parts(x)[0] in (">", ">=", "!=") and
                    any(is_call(y, name="size") for y in walk(x))]
        # (b) self edge looked up in the call graph
        succs = [x for x in walk(init) if is_call(x, name="succs") and x.get("o") is not None]
        def _ty(x):
            o = deref(x["o"]) or {}
            return (o.get("TC") or "") + " " + (o.get("T") or "")
        cg_succs = [x for x in succs if is_field(x["o"], "m_cg") or ("call_graph" in _ty(x) and "scc_graph" not in _ty(x))]
        other = [x for x in succs if x not in cg_succs]
        selfcmp = [x for lam in walk(init) if lam.get("k") == "lambda" for x in walk(lam.get("b"))
                   if cmp_parts(x) and cmp_parts(x)[0] == "==" and any(is_call(y, name=("dest", "Dest")) for y in walk(x))]
        if size_cmp and cg_succs and not other and selfcmp:
            ctx.ok("is_recursive = several members || self-edge in the call graph", fn, init)
        else:
            why = []
            if not size_cmp:
                why.append("no `members.size() > 1` test")
            if other or not cg_succs:
                why.append("the self-edge is looked for in `%s`, not in the call graph m_cg (the SCC graph has no edges inside a "
                           "component)" % (src(other[0]["o"]) if other else "nothing"))
            if not selfcmp:
                why.append("no `n == e.dest()` test")
            ctx.bad("bottom_up_inter_analyzer::run: is_recursive is wrong (%s): a directly self-recursive function is then analysed "
                    "only under the contexts of its external callers and the states of its recursive activations are missing" %
                    "; ".join(why), fn, init, sig="is-recursive:%s" % ("scc-graph" if (other or not cg_succs) else "shape"))
        # (c) the value every member is analysed from
        g = paths.guards(body)
        rid_ = [dd["id"] for dd in rec][0]
        for c, ps in nodes_not_in_log(body, lambda x: is_call(x, name="run_forward")):
            a0 = strip_move(c["a"][0]) if c.get("a") else None
            if not (isinstance(a0, dict) and a0.get("k") == "ref" and a0.get("rk") == "local"):
                ctx.skipped("C10.r9|run_forward argument", rid="C10.r9")
                continue
            vid = a0["id"]
            ws = writes_to(body, vid)
            # every write that does not read the call-context table must be followed, under is_recursive, by one that does
            from_tbl = [w for w in ws if any(is_call(y, name="get_call_ctx") for y in walk(w))]

            def rec_atom(x, rid_=rid_):
                x = strip(x)
                return 1 if (isinstance(x, dict) and x.get("k") == "ref" and x.get("id") == rid_) else 0
            covered_root = any(guard_truth(g.get(id(w), ()), rec_atom, body) is True for w in from_tbl)
            uncond = [w for w in from_tbl if guard_truth(g.get(id(w), ()), rec_atom, body) is None]
            if covered_root and uncond:
                ctx.ok("every member of a recursive component starts from a value covering its call-context entry", fn, c)
            else:
                ctx.bad("bottom_up_inter_analyzer::run analyses the root of the top-down phase from the initial states only, also when "
                        "it is recursive: it is entered through its recursive calls as well, whose contexts (the top context inserted "
                        "for recursive components) are never used for it", fn, c, sig="recursive-root-ignores-contexts")


RULES += [r9_recursive_components]


def r10_component_dag_edges(ctx):
    ctx.rule("C10.r10", "scc_graph: EVERY call-graph edge u -> d between two different components becomes an edge of the component DAG "
             "(the bottom-up / top-down orders are topological orders of that DAG): the loop over the out-edges is never left early, "
             "an iteration is skipped only when the two components are equal, and every other iteration reaches add_edge", floor=1)
    SG = "include/crab/analysis/graphs/sccg.hpp"
    fs = [f for f in ctx.db.fns(SG) if f.get("ctor") and (f.get("cpk") or "").endswith("scc_graph") and f.get("body")]
    if not ctx.need(fs, "scc_graph constructor"):
        return
    seen = set()
    n = 0
    for fn in fs:
        if fn["line"] in seen:
            continue
        seen.add(fn["line"])
        body = fn["body"]
        for loop in [l for l in walk(body) if l.get("k") == "rangefor" and any(is_call(c, name="out_edges") for c in walk(l.get("r")))]:
            lb = loop.get("b")
            adds = [c for c in walk(lb) if is_call(c, name="add_edge")]
            if not adds:
                continue
            n += 1
            g = paths.guards(lb)
            early = [x for x in walk(lb, into_lambdas=False) if x.get("k") in ("break", "ret", "goto")]
            inner_loops = [l for l in walk(lb) if l.get("k") in ("for", "while", "rangefor", "do")]
            early = [x for x in early if not any(x is y for l in inner_loops for y in walk(l.get("b")))]
            if early:
                ctx.bad("scc_graph: the loop over the out-edges of a call-graph node is left early (`%s`): the remaining out-edges of the node "
                        "are never added to the component DAG, e.g. f -> f (same component) listed before f -> g hides SCC(f) -> SCC(g) and g "
                        "can be analysed top-down before its caller f" % early[0].get("k"), fn, early[0], sig="sccg-edge-loop-left-early")
                continue

            def same_comp(c):
                p = cmp_parts(c)
                if p and p[0] in ("==", "!=") and all(any(is_field(y, "m_comp_map") for y in walk(z)) for z in (p[1], p[2])):
                    return 1 if p[0] == "==" else -1
                return 0
            okc = True
            for x in [x for x in walk(lb, into_lambdas=False) if x.get("k") == "continue"]:
                if guard_truth(g.get(id(x), ()), same_comp, lb) is not True:
                    ctx.bad("scc_graph: an out-edge is skipped (`continue`) although the two components are not known to be equal", fn, x,
                            sig="sccg-edge-skipped")
                    okc = False
            # on a branch where the two components are known to be equal no edge is needed
            fl = paths.MustEvents(lambda x: ("edge",) if is_call(x, name="add_edge") else (),
                                  refine=lambda cond, pol: ("edge",) if atom_truth(cond, pol, same_comp, lb) is True else ())
            fl.record_after = True
            try:
                fl.run({"k": "seq", "b": [loop]})
            except paths.Unstructured:
                ctx.undecided("scc_graph: edge loop with unstructured control flow", fn, loop)
                continue
            end = fl.after.get(id(lb))
            if end is not None and "edge" not in end:
                ctx.bad("scc_graph: an iteration over an out-edge between different components can end without add_edge", fn, loop,
                        sig="sccg-edge-not-added")
            elif okc:
                ctx.ok("every inter-component call-graph edge reaches add_edge", fn, adds[0])
    if n == 0:
        ctx.fail("rule C10.r10: the edge loop of the scc_graph constructor was not found")


RULES += [r10_component_dag_edges]
