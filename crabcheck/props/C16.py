"""C16 - value semantics and representation independence."""
from ..tree import (walk, walk_with_parents, strip, is_call, is_ref, is_this, is_field, deref,
                    src, obj, args, callee, in_macro, LOG_MACROS)
from .. import paths
from ..match import strip_move, is_param, rets, nodes_not_in_log, resolve_local, guard_truth, cmp_parts
from . import _forward as fw
from . import _containers as cont

LEVEL_TEXT = ("Clause-level static rules for value semantics: in the copy-on-write wrapper abstract_domain_ref every call of the "
              "non-const norm() is dominated by detach() and detach() copies iff the representation is shared; each of the three "
              "type-erasure layers (abstract_domain_ref -> abstract_domain -> abstract_domain_model<D> -> D) forwards every API "
              "method to the same-named operation with the same arguments in the same order; nodes of the shared patricia trees "
              "are written only by their constructors; user-provided copy operations of domain classes copy every data member; "
              "const_cast/mutable sites are a frozen allow-list. That normalisation preserves meaning (numeric) is NOT decided.")
ASSUMPTIONS = ["normalisation / closure algorithms preserve the concretisation (numeric, not decided)",
               "std::shared_ptr::unique() semantics"]

GEN = "include/crab/domains/generic_abstract_domain.hpp"
REF = "crab::domains::abstract_domain_ref"
ABS = "crab::domains::abstract_domain"
MODEL = "crab::domains::abstract_domain::abstract_domain_model"


def _ref_methods(ctx):
    fs = [f for f in ctx.db.fns(GEN, cpk=REF)]
    ctx.need(fs, "methods of abstract_domain_ref")
    return fs


def r1_detach(ctx):
    ctx.rule("C16.r1", "abstract_domain_ref: every non-const norm() is dominated by detach(); detach copies iff shared", floor=120)
    for fn in _ref_methods(ctx):
        body = fn["body"]
        targets = [n for n in walk(body) if is_call(n, name="norm") and is_this(n.get("o")) and not callee(n).get("const")]
        if not targets:
            continue

        def gen(n):
            if is_call(n, name="detach") and is_this(n.get("o")):
                return ("detached",)
            return ()
        try:
            f = paths.must_events(body, gen)
        except paths.Unstructured as e:
            ctx.undecided("unstructured: %s" % e, fn, body)
            continue
        for t in targets:
            st = f.at.get(id(t))
            if st is None:
                continue
            if "detached" in st:
                ctx.ok("%s: detach() precedes mutable norm()" % fn["name"], fn, t)
            else:
                ctx.bad("abstract_domain_ref::%s mutates the shared representation: the non-const norm() at this call is "
                        "not preceded by detach() on every path (copies of this value would change too)" % fn["name"],
                        fn, t, sig="no-detach:%s(%s)" % (fn["name"], fn["psig"]))
    # detach itself
    ds = [f for f in ctx.db.fns(GEN, pk=REF + "::detach")]
    ctx.need(ds, "abstract_domain_ref::detach")
    for fn in ds:
        body = fn["body"]
        g = paths.guards(body)
        copies = [n for n in walk(body) if (n.get("k") == "asg" or is_call(n, op="=")) and
                  is_field(n.get("L") if n.get("k") == "asg" else n.get("o"), "m_norm_ref")]

        def atom(c):
            c = strip(c)
            if is_call(c, name="unique") and is_field(obj(c), "m_norm_ref"):
                return 1
            p = cmp_parts(c)
            if p and is_call(p[1], name="use_count") and is_field(obj(p[1]), "m_norm_ref") and isinstance(p[2], dict) and p[2].get("v") == "1":
                return {"==": 1, "<=": 1, ">": -1, "!=": -1}.get(p[0], 0)
            return 0
        okc = False
        for c in copies:
            rhs = strip_move(c.get("R") if c.get("k") == "asg" else c["a"][0])
            fresh = is_call(rhs, name="make_shared") and rhs.get("a") and is_field(deref(rhs["a"][0]), "m_norm_ref")
            t = guard_truth(g.get(id(c), ()), atom, body)
            if fresh and t is False:
                okc = True
            elif fresh and t is None:
                okc = True      # unconditional copy is also safe
            else:
                ctx.bad("detach(): `%s` under %s does not give this value a private copy when the representation is shared"
                        % (src(c), "unique()" if t else "no sharing test"), fn, c, sig="detach-copy")
        if not copies:
            ctx.bad("detach() never copies the shared representation", fn, body, sig="detach-no-copy")
        elif okc:
            ctx.ok("detach(): m_norm_ref = make_shared(*m_norm_ref) unless unique()", fn, copies[0])
        resets = [n for n in walk(body) if is_call(n, name="reset") and is_field(obj(n), "m_base_ref")]
        if resets and not g.get(id(resets[0])):
            ctx.ok("detach(): m_base_ref.reset() unconditionally", fn, resets[0])
        else:
            ctx.bad("detach() must drop the cached un-normalised value (m_base_ref.reset()) unconditionally: after a mutation "
                    "base() would otherwise return the stale pre-mutation value to the next widening", fn, body, sig="detach-base-reset")


def _ref_receiver(o, f):
    o = strip(o)
    return is_call(o, name=("norm", "base")) and is_this(o.get("o"))


def _ref_proj(e):
    e = strip(e)
    if is_call(e, name=("norm",)) and "o" in e:
        return e["o"]
    return None


def _abs_receiver(o, f):
    return is_field(o, "m_concept", of_this=True)


def _abs_proj(e):
    d = deref(e)
    if isinstance(d, dict) and d.get("k") == "mem" and d.get("n") == "m_concept":
        return d.get("b")
    return None


def _model_receiver(o, f):
    return is_field(o, "m_inv", of_this=True)


def _model_proj(e):
    d = strip(e)
    if isinstance(d, dict) and d.get("k") == "mem" and d.get("n") == "m_inv":
        b = strip(d.get("b"))
        if isinstance(b, dict) and b.get("k") == "un" and b.get("op") == "&":
            return b.get("e")
        return b
    return None


EXEMPT = {"clone": "constructs a new model from m_inv (checked by r2c)"}


def r2_forwarding(ctx):
    ctx.rule("C16.r2", "type-erasure wrappers forward every API method to the same-named operation, same arguments, same order", floor=450)
    layers = [(REF, _ref_receiver, _ref_proj, "abstract_domain_ref"),
              (ABS, _abs_receiver, _abs_proj, "abstract_domain"),
              (MODEL, _model_receiver, _model_proj, "abstract_domain_model")]
    for cpk, recv, proj, what in layers:
        fs = [f for f in ctx.db.fns(GEN, cpk=cpk) if f.get("overrides") and not f.get("dtor") and not f.get("ctor")]
        if not ctx.need(fs, "overriding methods of " + cpk):
            continue
        names = set()
        for fn in fs:
            if fn["name"] in EXEMPT:
                continue
            names.add((fn["name"], fn["psig"]))
            c = fw.check_forwarder(ctx, "C16.r2", fn, recv, proj, what)
            if c is None:
                continue
            good = True
            # control: the inner call is unconditional
            g = paths.guards(fn["body"])
            if g.get(id(c)):
                ctx.bad("%s::%s forwards only under a condition: `%s`" % (what, fn["name"], src(g[id(c)][0][0])), fn, c,
                        sig="fwd-conditional:%s(%s)" % (fn["name"], fn["psig"]))
                good = False
            # value-returning methods return (a wrapper of) the inner result
            if fn["ret"] != "void" and not fw.returns_value_of(fn, c):
                ctx.bad("%s::%s does not return the result of the forwarded call" % (what, fn["name"]), fn, c,
                        sig="fwd-result:%s(%s)" % (fn["name"], fn["psig"]))
                good = False
            # const-ness of the receiver: widening in abstract_domain_ref goes through base()
            if good:
                ctx.ok("%s::%s -> %s" % (what, fn["name"], src(c)[:90]), fn, c)
        if len(names) < 75:
            ctx.fail("rule C16.r2: only %d API methods found in %s (expected >= 75)" % (len(names), cpk))


def r2c_clone(ctx):
    ctx.rule("C16.r2c", "abstract_domain copies clone the model; clone() copies m_inv", floor=4)
    for fn in ctx.db.fns(GEN, pk=MODEL + "::clone"):
        news = [n for n in walk(fn["body"]) if n.get("k") == "new"]
        okn = [n for n in news if any(is_field(x, "m_inv", of_this=True) for x in walk(n))]
        if okn:
            ctx.ok("clone(): new abstract_domain_model(m_inv)", fn, okn[0])
        else:
            ctx.bad("abstract_domain_model::clone does not copy m_inv into a fresh model", fn, fn["body"], sig="clone-copy")
    cps = [f for f in ctx.db.fns(GEN, cpk=ABS) if f.get("ctor") == "copy" or f.get("assignop") == "copy"]
    ctx.need(cps, "abstract_domain copy operations")
    for fn in cps:
        if fn.get("defaulted") or fn.get("implicit"):
            ctx.bad("abstract_domain copy operation is defaulted: the unique_ptr would not be cloned", fn, fn["body"], sig="abs-copy-defaulted")
            continue
        nodes = list(walk(fn["body"])) + [x for i in fn.get("inits", []) for x in walk(i.get("e"))]
        cl = [n for n in nodes if is_call(n, name="clone") and isinstance(deref(n.get("o")), dict) and deref(n.get("o")).get("n") == "m_concept"
              and is_param(deref(n.get("o")).get("b"), fn, 0)]
        if cl:
            ctx.ok("%s: m_concept = o.m_concept->clone()" % fn["name"], fn, cl[0])
        else:
            ctx.bad("abstract_domain %s does not deep-copy the wrapped value with o.m_concept->clone()" % fn["name"],
                    fn, fn["body"], sig="abs-copy-noclone:%s" % fn["name"])


def r3_nodes(ctx):
    ctx.rule("C16.r3", "patricia tree nodes are immutable once built (fields written only by constructors)", floor=5)
    cont.tree_node_immutability(ctx, "C16.r3")


def r5_copy(ctx):
    ctx.rule("C16.r5", "user-provided copy/move operations of domain classes transfer every data member", floor=40)
    cont.copy_completeness(ctx, "C16.r5")


RULES = [r1_detach, r2_forwarding, r2c_clone, r3_nodes, r5_copy]


def r6_vertex_numbering(ctx):
    ctx.rule("C16.r6", "graph domains: the answer of a binary operation does not depend on how each operand numbers its vertices - a vertex "
             "id of one operand is never used to index the other operand's graph", floor=10)
    from . import _graphns
    _graphns.vertex_namespace_rule(ctx, "C16.r6")


RULES += [r6_vertex_numbering]


def r7_stability_flag(ctx):
    ctx.rule("C16.r7", "lazily closed graphs: normalize() tells GraphOps::close_after_widen which vertices are STABLE; the wrapper built "
             "from the set of UNSTABLE vertices must therefore answer non-membership (otherwise normalisation re-closes the wrong "
             "vertices and an explicit normalize() changes the result of later operations)", floor=3)
    files = ("include/crab/domains/split_dbm.hpp", "include/crab/domains/split_oct.hpp", "include/crab/domains/sparse_dbm.hpp")
    GO = "include/crab/domains/graphs/graph_ops.hpp"
    # premise read from GraphOps: is_stable[v] true -> V_STABLE
    prem = False
    for fn in ctx.db.fns(GO, name="close_after_widen"):
        for x in walk(fn["body"]):
            if x.get("k") == "cond":
                t, e = strip(x.get("t")), strip(x.get("e"))
                if isinstance(t, dict) and t.get("n") == "V_STABLE" and isinstance(e, dict) and e.get("n") == "V_UNSTABLE" and \
                        any(is_param(y, fn, 2) for y in walk(x.get("c"))):
                    prem = True
    if not prem:
        ctx.undecided("GraphOps::close_after_widen no longer reads its third argument as `is_stable[v] ? V_STABLE : V_UNSTABLE`",
                      {"pk": "GraphOps::close_after_widen", "file": GO, "line": 0, "cls": "", "name": "close_after_widen", "psig": ""}, None)
        return
    n = 0
    for f in files:
        for fn in ctx.db.fns(f, name="normalize"):
            for c in walk(fn["body"]):
                if not is_call(c, name="close_after_widen") or len(c.get("a", [])) < 3:
                    continue
                w = strip_move(c["a"][2])
                # vert_set_wrap_t(unstable)
                wraps_unstable = any(x.get("k") == "mem" and "unstable" in (x.get("n") or "") for x in walk(w))
                wcls = (callee(w) or {}).get("cls") if isinstance(w, dict) and w.get("k") == "ctor" else None
                if not wraps_unstable or not wcls:
                    ctx.undecided("normalize: the stability argument of close_after_widen is not a wrapper of the unstable set", fn, c)
                    continue
                ops = [o for o in ctx.db.fns(f, name="operator[]") if o.get("cls") == wcls]
                if not ops:
                    ctx.undecided("operator[] of %s not found" % wcls, fn, c)
                    continue
                n += 1
                rs = rets(ops[0]["body"])
                pp = cmp_parts(rs[0].get("v")) if len(rs) == 1 else None
                member = None
                if pp and any(is_call(y, name="find") for y in walk(rs[0]["v"])) and any(is_call(y, name="end") for y in walk(rs[0]["v"])):
                    member = {"!=": True, "==": False}.get(pp[0])
                if member is False:
                    ctx.ok("normalize: is_stable[v] = (v not in unstable)", fn, c)
                elif member is True:
                    ctx.bad("%s::normalize passes the set of UNSTABLE vertices to close_after_widen through a wrapper whose operator[] answers "
                            "membership: close_after_widen reads it as `is stable`, so it re-closes the vertices that did NOT change and skips "
                            "the destabilised ones" % (fn.get("cpk") or "").split("::")[-1], fn, c, sig="stability-flag-inverted")
                else:
                    ctx.undecided("cannot read the membership test of the stability wrapper", ops[0], ops[0]["body"])
    if n == 0:
        ctx.fail("rule C16.r7: no close_after_widen call found in normalize()")


RULES += [r7_stability_flag]
