"""C09 - top-down inter-procedural analysis (restrict / extend / summary reuse protocol)."""
from ..tree import (walk, walk_with_parents, strip, is_call, is_ref, is_this, is_field, deref, same_expr,
                    src, obj, args, callee)
from .. import paths
from ..match import (strip_move, is_param, rets, nodes_not_in_log, resolve_local, local_decls, writes_to, cmp_parts,
                     guard_truth, atom_truth)

LEVEL_TEXT = ("Clause-level static rules for the restrict/extend/summary-reuse protocol of the top-down analyzer: callee entry = "
              "unify formals with actuals, meet, project on the formal inputs (in that order); caller continuation = forget the "
              "call's lhs, wire outputs and inputs, forget callee locals, meet (in that order); formal and actual parameter lists "
              "are paired index-wise and never mixed in set operations (side typing); a stored summary is reused only when the new "
              "entry is included in its precondition; joined contexts join both pre and post and only subsumed contexts are "
              "dropped; recursive calls use the stored pre-fixpoint and join the entry; summaries are stored only once every "
              "enclosing recursive head has stabilised; context-insensitive tables are joined, never overwritten. Soundness of "
              "unify/project/forget in each domain and of the call-graph WTO is NOT decided.")
ASSUMPTIONS = ["domain operations (project, forget, meet, <=) are sound (C03/C04)", "call-graph WTO is well formed (C07)"]

TD = "include/crab/analysis/inter/top_down_inter_analyzer.hpp"
TR = "crab::analyzer::top_down_inter_impl::top_down_inter_transformer"
CC = "crab::analyzer::top_down_inter_impl::calling_context"
POL = "crab::analyzer::top_down_inter_impl::default_context_sensitivity_policy"
GC = "crab::analyzer::top_down_inter_impl::global_context"


def side_of(e, fn, body, decls, depth=0):
    """(side, kind, index variable id) of a variable / variable-vector
    expression: side caller (cs.get_args / cs.get_lhs) or callee
    (fdecl.get_inputs / fdecl.get_outputs)"""
    e = resolve_local(body, e, decls)
    e = strip(e)
    if not isinstance(e, dict) or depth > 6:
        return None
    idx = None
    if e.get("k") == "call" and e.get("op") == "[]" and "o" in e:
        i = strip(e["a"][0]) if e.get("a") else None
        idx = i.get("id") if isinstance(i, dict) and i.get("k") == "ref" else "?"
        e = strip(e["o"])
    if e.get("k") == "call" and callee(e) and "o" in e:
        nm = callee(e)["name"]
        o = strip(e["o"])
        ot = ""
        if isinstance(o, dict) and o.get("k") == "ref":
            ot = o.get("TC") or o.get("T") or ""
        if nm in ("get_args", "get_lhs") and "callsite_stmt" in ot:
            return ("caller", "in" if nm == "get_args" else "out", idx)
        if nm in ("get_inputs", "get_outputs") and "function_decl" in ot:
            return ("callee", "in" if nm == "get_inputs" else "out", idx)
    return None


def _tr_fns(ctx, name):
    fs = ctx.db.fns(TD, pk=TR + "::" + name)
    ctx.need(fs, TR + "::" + name)
    return fs


def r1_callee_entry(ctx):
    ctx.rule("C09.r1", "get_callee_entry: unify formals/actuals -> meet with the caller state -> project on the formal inputs", floor=2)
    for fn in _tr_fns(ctx, "get_callee_entry"):
        body = fn["body"]
        caller, callee_d = fn["params"][2]["id"], fn["params"][3]["id"]

        def gen(n):
            if n.get("k") == "call" and n.get("op") == "&=" and is_ref(n.get("o")) and strip(n["o"]).get("id") == callee_d and \
                    is_ref(n["a"][0]) and strip(n["a"][0]).get("id") == caller:
                return ("meet",)
            if is_call(n, name="project") and is_ref(n.get("o")) and strip(n["o"]).get("id") == callee_d:
                s = side_of(n["a"][0], fn, body, None)
                if s and s[0] == "callee" and s[1] == "in":
                    return ("project",)
                return ("project-other",)
            if is_call(n, name="unify"):
                return ("unify-seen",)
            return ()
        f = paths.must_events(body, gen)
        decided = False
        for r, st in f.returns:
            v = strip_move(r.get("v")) if r is not None else None
            if isinstance(v, dict) and v.get("id") == caller:
                continue      # bottom caller: early return
            decided = True
            prj = [n for n in walk(body) if is_call(n, name="project") and is_ref(n.get("o")) and strip(n["o"]).get("id") == callee_d]
            okorder = prj and all("meet" in f.at.get(id(p), ()) for p in prj)
            if "meet" in st and "project" in st and okorder and isinstance(v, dict) and v.get("id") == callee_d:
                ctx.ok("callee_dom &= caller_dom; callee_dom.project(fdecl.get_inputs()); return callee_dom", fn, r)
            else:
                missing = [x for x in ("meet", "project") if x not in st]
                ctx.bad("get_callee_entry returns `%s` %s: the callee must start from the caller's state restricted to the formal "
                        "input parameters" % (src(v), ("without " + " and ".join({"meet": "meeting the caller state",
                                                                                  "project": "projecting on fdecl.get_inputs()"}[m] for m in missing))
                                              if missing else "with the meet after the projection"), fn, r, sig="callee-entry-order")
        if not decided:
            ctx.bad("get_callee_entry has no non-bottom return", fn, body, sig="callee-entry-noreturn")
        loops = [l for l in walk(body) if l.get("k") == "for" and any(is_call(x, name="unify") for x in walk(l.get("b")))]
        if loops and (any(is_call(x, name="get_inputs") for x in walk(loops[0].get("c"))) or
                      any(is_call(x, name="get_inputs") for x in walk(loops[0].get("i")))):
            ctx.ok("every formal input is unified with its actual", fn, loops[0])
        else:
            ctx.bad("get_callee_entry does not unify every formal input with its actual parameter", fn, body, sig="callee-entry-unify-loop")


def r2_continuation(ctx):
    ctx.rule("C09.r2", "get_caller_continuation: forget lhs and callee locals before the final meet caller &= summary", floor=2)
    for fn in _tr_fns(ctx, "get_caller_continuation"):
        body = fn["body"]
        decls = local_decls(body)
        caller, summ = fn["params"][2]["id"], fn["params"][4]["id"]

        def gen(n):
            if is_call(n, name="forget") and is_ref(n.get("o")):
                oid = strip(n["o"]).get("id")
                s = side_of(n["a"][0], fn, body, decls)
                if oid == caller and s and s[0] == "caller" and s[1] == "out":
                    return ("forget-lhs",)
                if oid == summ:
                    return ("forget-locals",)
            return ()
        f = paths.must_events(body, gen)
        meets = [n for n in walk(body) if n.get("k") == "call" and n.get("op") == "&=" and is_ref(n.get("o")) and
                 strip(n["o"]).get("id") == caller and is_ref(n["a"][0]) and strip(n["a"][0]).get("id") == summ]
        if len(meets) != 1:
            ctx.bad("get_caller_continuation must end with exactly one `caller_dom &= sum_out_dom`", fn, body, sig="cont-meet")
            continue
        st = f.at.get(id(meets[0]), frozenset())
        if "forget-lhs" in st and "forget-locals" in st:
            ctx.ok("caller.forget(cs.get_lhs()); ...; summary.forget(locals); caller &= summary", fn, meets[0])
        else:
            ctx.bad("the final meet of get_caller_continuation is not preceded by %s: stale facts about %s survive the call" %
                    ("caller_dom.forget(cs.get_lhs())" if "forget-lhs" not in st else "sum_out_dom.forget(local_vars)",
                     "the call's left-hand sides" if "forget-lhs" not in st else "callee-local variables"), fn, meets[0],
                    sig="cont-order:%s" % ("lhs" if "forget-lhs" not in st else "locals"))
        # locals = set_difference(sum_out_variables, shared formals + lhs)
        fl = [n for n in walk(body) if is_call(n, name="forget") and is_ref(n.get("o")) and strip(n["o"]).get("id") == summ]
        for n in fl:
            a = resolve_local(body, n["a"][0], decls)
            if is_call(a, name="set_difference") and is_param(a["a"][0], fn, 3):
                ctx.ok("locals = sum_out_variables minus (shared formals + lhs)", fn, n)
            else:
                ctx.bad("the variables forgotten from the summary are `%s`, expected set_difference(sum_out_variables, kept)" % src(a)[:60],
                        fn, n, sig="cont-locals")
        for r, stt in f.returns:
            if r is None:
                continue
            v = strip_move(r.get("v"))
            g = paths.guards(body).get(id(r), ())
            if isinstance(v, dict) and v.get("id") not in (caller, summ):
                ctx.bad("get_caller_continuation returns `%s`" % src(v), fn, r, sig="cont-return")


def r3_sides(ctx):
    ctx.rule("C09.r3", "formal/actual discipline: index-wise pairing of the same kind, opposite sides; no set operation mixes sides", floor=4)
    for name, lhs_side in (("get_callee_entry", "callee"), ("get_caller_continuation", "caller")):
        for fn in _tr_fns(ctx, name):
            body = fn["body"]
            decls = local_decls(body)
            for n, ps in nodes_not_in_log(body, lambda x: is_call(x, name="unify") and len(x.get("a", [])) == 3):
                l = side_of(n["a"][1], fn, body, decls)
                r = side_of(n["a"][2], fn, body, decls)
                if l is None or r is None:
                    ctx.undecided("cannot classify the operands of `%s`" % src(n)[:70], fn, n)
                    continue
                good = l[0] == lhs_side and r[0] != l[0] and l[1] == r[1] and l[2] == r[2] and l[2] not in (None, "?")
                if good:
                    ctx.ok("%s: %s %s[i] := %s %s[i]" % (name, l[0], l[1], r[0], r[1]), fn, n)
                else:
                    ctx.bad("%s unifies %s-%s[%s] := %s-%s[%s]; expected the %s-side parameter to receive the %s-side parameter "
                            "of the same kind and index" % (name, l[0], l[1], "i" if l[2] == r[2] else "i/j", r[0], r[1],
                                                            "i", lhs_side, "callee" if lhs_side == "caller" else "caller"),
                            fn, n, sig="sides-unify:%s" % name)
            for n, ps in nodes_not_in_log(body, lambda x: is_call(x, name="set_intersection") and len(x.get("a", [])) == 2):
                l = side_of(n["a"][0], fn, body, decls)
                r = side_of(n["a"][1], fn, body, decls)
                if l is None or r is None:
                    ctx.undecided("cannot classify the operands of `%s`" % src(n)[:70], fn, n)
                elif l[0] == r[0]:
                    ctx.ok("%s: set_intersection of two %s-side lists" % (name, l[0]), fn, n)
                else:
                    ctx.bad("%s intersects a %s-side list with a %s-side list (`%s`): variable names of the caller and of the "
                            "callee live in different scopes" % (name, l[0], r[0], src(n)[:80]), fn, n, sig="sides-intersection:%s" % name)


def r4_subsumption(ctx):
    ctx.rule("C09.r4", "a stored summary is reused only if the new entry is included in its precondition", floor=3)
    fs = ctx.db.fns(TD, pk=CC + "::is_subsumed")
    ctx.need(fs, "calling_context::is_subsumed")
    for fn in fs:
        body = fn["body"]
        for r in rets(body):
            v = strip(r.get("v"))
            conj = []
            stack = [v]
            while stack:
                x = strip(stack.pop())
                if isinstance(x, dict) and x.get("k") == "bin" and x.get("op") == "&&":
                    stack += [x.get("L"), x.get("R")]
                else:
                    conj.append(x)
            okc = False
            for c in conj:
                p = cmp_parts(c)
                if p and p[0] == "<=" and is_param(p[1], fn, 0):
                    rr = resolve_local(body, p[2])
                    if is_call(rr, name="get_pre_summary") or is_field(rr, "m_pre_summary"):
                        okc = True
            if okc:
                ctx.ok("is_subsumed requires d <= pre_summary", fn, r)
            else:
                ctx.bad("is_subsumed returns `%s`: every answer must include `d <= pre_summary` with the new entry on the LEFT" % src(v)[:80],
                        fn, r, sig="subsumed-direction")
    for fn in _tr_fns(ctx, "analyze_callee"):
        body = fn["body"]
        g = paths.guards(body)
        uses = [n for n in walk(body) if n.get("k") == "call" and n.get("op") == "=" and any(is_call(x, name="get_post_summary") for x in walk(n))]
        if not uses:
            ctx.bad("analyze_callee no longer reuses stored summaries (get_post_summary)", fn, body, sig="reuse-missing")
        for u in uses:
            def sub(c):
                c = strip(c)
                if is_call(c, name="is_subsumed") and c.get("a"):
                    a0 = strip(c["a"][0])
                    return 1 if isinstance(a0, dict) and a0.get("n") == "callee_entry" else 0
                return 0
            if guard_truth(g.get(id(u), ()), sub, body) is True:
                ctx.ok("post summary used only under is_subsumed(callee_entry, .)", fn, u)
            else:
                ctx.bad("a stored post summary is used without the is_subsumed(callee_entry, .) test", fn, u, sig="reuse-unguarded")


def r5_join_contexts(ctx):
    ctx.rule("C09.r5", "joined context = (pre | pre', post | post'); only contexts subsumed in BOTH components are dropped", floor=4)
    fs = ctx.db.fns(TD, pk=CC + "::join_with")
    ctx.need(fs, "calling_context::join_with")
    for fn in fs:
        body = fn["body"]
        news = [n for n in walk(body) if n.get("k") == "new"]
        for nw in news:
            c = strip(nw.get("e"))
            a = [strip_move(x) for x in c.get("a", [])] if isinstance(c, dict) else []
            def is_join_of(e, field, getter):
                if not (is_call(e, op="|") and "o" in e):
                    return False
                l, r = strip(e["o"]), strip(e["a"][0])
                this_side = is_field(l, field, of_this=True) or (is_call(l, name=getter) and is_this(l.get("o")))
                other_side = (is_call(r, name=getter) and is_param(r.get("o"), fn, 0)) or (is_field(r, field) and is_param(deref(r).get("b"), fn, 0))
                return this_side and other_side
            if len(a) >= 3 and is_join_of(a[1], "m_pre_summary", "get_pre_summary") and is_join_of(a[2], "m_post_summary", "get_post_summary"):
                ctx.ok("join_with: (m_pre | other.pre, m_post | other.post)", fn, nw)
            else:
                ctx.bad("calling_context::join_with builds the joined context from `%s` and `%s`; expected this.pre | other.pre and "
                        "this.post | other.post" % (src(a[1])[:50] if len(a) > 1 else "?", src(a[2])[:50] if len(a) > 2 else "?"),
                        fn, nw, sig="join-contexts")
    fs = ctx.db.fns(TD, pk=POL + "::add")
    ctx.need(fs, "default_context_sensitivity_policy::add")
    for fn in fs:
        body = fn["body"]
        g = paths.guards(body)
        # inside the compress loop, a context is kept unless pre <= joined_pre && post <= joined_post
        loops = [l for l in walk(body) if l.get("k") == "for" and any(is_call(x, name="get_pre_summary") for x in walk(l.get("b")))]
        if not loops:
            ctx.undecided("cannot find the compression loop of the context policy", fn, body)
            continue
        keep = [n for n in walk(loops[0].get("b")) if is_call(n, name="push_back")]
        for k in keep:
            conds = [c for c, p in g.get(id(k), ()) if not isinstance(c, tuple)]
            txt = " ".join(src(c) for c in conds)
            both = "get_pre_summary" in txt and "get_post_summary" in txt
            # shape: !(A && B)
            shape = False
            for c, p in g.get(id(k), ()):
                if isinstance(c, tuple):
                    continue
                cc = strip(c)
                neg = False
                while isinstance(cc, dict) and cc.get("k") == "un" and cc.get("op") == "!":
                    cc = strip(cc.get("e"))
                    neg = not neg
                if isinstance(cc, dict) and cc.get("k") == "bin" and cc.get("op") == "&&" and (neg == p):
                    shape = True
                if isinstance(cc, dict) and cc.get("k") == "bin" and cc.get("op") == "||" and (neg != p):
                    shape = True
            if both and shape:
                ctx.ok("a context is dropped only if pre <= joined_pre AND post <= joined_post", fn, k)
            else:
                ctx.bad("the context policy drops a context unless `%s`: a context may be discarded although the joined context "
                        "does not cover both its precondition and its postcondition" % txt[:90], fn, k, sig="policy-drop")


def r6_recursion(ctx):
    ctx.rule("C09.r6", "recursive calls: use the stored pre-fixpoint exit, JOIN the stored entry with the new one; imprecise mode havocs", floor=3)
    for fn in _tr_fns(ctx, "analyze_callee"):
        body = fn["body"]
        decls = local_decls(body)
        se = [n for n, ps in nodes_not_in_log(body, lambda x: is_call(x, name="set_entry"))]
        for s in se:
            a = resolve_local(body, strip_move(s["a"][0]), decls)
            a = strip_move(a)
            vid = a.get("id") if isinstance(a, dict) and a.get("k") == "ref" else None
            joined = False
            if vid is not None:
                for n in walk(body):
                    if n.get("k") == "call" and n.get("op") == "|=" and is_ref(n.get("o")) and strip(n["o"]).get("id") == vid and \
                            any(is_call(x, name="get_entry") for x in walk(n["a"][0])):
                        joined = True
                d = decls.get(vid)
                from_entry = d is not None and "i" in d and any(x.get("k") == "ref" and x.get("n") == "callee_entry" for x in walk(d["i"]))
            else:
                from_entry = False
            if joined and from_entry:
                ctx.ok("stored entry := callee_entry | stored entry", fn, s)
            else:
                ctx.bad("the entry stored for the next fixpoint iteration of a recursive function is `%s`; it must be the JOIN of the "
                        "new callee entry with the stored one" % src(s["a"][0])[:60], fn, s, sig="rec-entry-join")
        ex = [n for n, ps in nodes_not_in_log(body, lambda x: x.get("k") == "call" and x.get("op") == "=" and is_ref(x.get("o")) and
                                                strip(x["o"]).get("n") == "callee_exit" and any(is_call(y, name="get_exit") for y in walk(x)))]
        if ex:
            ctx.ok("recursive call replaced by the stored pre-fixpoint exit", fn, ex[0])
        else:
            ctx.bad("a recursive call no longer uses the stored pre-fixpoint (get_exit)", fn, body, sig="rec-exit")
        tops = [n for n, ps in nodes_not_in_log(body, lambda x: is_call(x, name="set_to_top") and is_ref(x.get("o")) and strip(x["o"]).get("n") == "callee_exit")]
        g = paths.guards(body)
        if tops and any(any(is_call(y, name="find_call_stack") for c, p in g.get(id(t), ()) if not isinstance(c, tuple) and p for y in walk(c)) for t in tops):
            ctx.ok("callee on the call stack (imprecise recursion): exit := top", fn, tops[0])
        else:
            ctx.bad("a call to a function already on the call stack must continue with callee_exit.set_to_top()", fn, body, sig="rec-imprecise-top")


def r7_project_and_store(ctx):
    ctx.rule("C09.r7", "the callee exit is projected on the formal parameters before it is stored or used; summaries stored only once "
                       "every enclosing recursive head has stabilised", floor=4)
    for fn in _tr_fns(ctx, "analyze_callee"):
        body = fn["body"]

        def gen(n):
            if is_call(n, name="project") and is_ref(n.get("o")) and strip(n["o"]).get("n") == "callee_exit":
                return ("projected",)
            return ()
        f = paths.must_events(body, gen)
        adds = [n for n, ps in nodes_not_in_log(body, lambda x: is_call(x, name="add_calling_context"))]
        if not adds:
            ctx.bad("analyze_callee no longer stores calling contexts", fn, body, sig="store-missing")
        for a in adds:
            if "projected" in f.at.get(id(a), ()):
                ctx.ok("callee_exit.project(formals) precedes add_calling_context", fn, a)
            else:
                ctx.bad("a summary is stored before callee_exit is projected on the formal parameters", fn, a, sig="store-unprojected")
        # the continuation: either the reused (already projected) summary or the projected exit
        g = paths.guards(body)
        for a in adds:
            conds = [c for c, p in g.get(id(a), ()) if not isinstance(c, tuple) and p]
            if any(any(x.get("k") == "call" and x.get("op") == "()" or is_call(x, name="has_been_stabilized") for x in walk(c)) for c in conds) or \
                    any("has_been_stabilized" in src(c) for c in conds):
                ctx.ok("summary stored only under has_been_stabilized(callee)", fn, a)
            else:
                ctx.bad("a summary is stored without the has_been_stabilized(callee) test", fn, a, sig="store-unstable")
        # the lambda: checks the node and EVERY enclosing head (loop body must depend on the loop iterator)
        lams = [d for d in local_decls(body).values() if d.get("n") == "has_been_stabilized" and "i" in d]
        for d in lams:
            lam = [x for x in walk(d["i"]) if x.get("k") == "lambda"]
            if not lam:
                continue
            lb = lam[0]["b"]
            loops = [l for l in walk(lb) if l.get("k") in ("for", "rangefor")]
            if not loops:
                ctx.bad("has_been_stabilized no longer inspects the enclosing heads of the callee in the call-graph WTO", fn, d, sig="stabilized-no-loop")
                continue
            for l in loops:
                itv = None
                if l.get("k") == "for" and isinstance(l.get("i"), dict):
                    itv = [x["id"] for x in walk(l["i"]) if x.get("k") == "decl"]
                elif l.get("k") == "rangefor":
                    itv = [l["v"]["id"]]
                finds = [x for x in walk(l.get("b")) if is_call(x, name="find")]
                dep = finds and all(any(y.get("k") == "ref" and y.get("id") in (itv or []) for y in walk(x.get("a", [None])[0])) for x in finds)
                if dep:
                    ctx.ok("has_been_stabilized looks up every enclosing head (*it) in the fixpoint table", fn, l)
                else:
                    ctx.bad("the loop over the enclosing WTO heads in has_been_stabilized never looks at the head it iterates over "
                            "(`%s`): a summary can be stored while an enclosing recursive function is still iterating" %
                            (src(finds[0])[:60] if finds else "no lookup"), fn, l, sig="stabilized-loop-invariant")


def r8_global_tables(ctx):
    ctx.rule("C09.r8", "context-insensitive invariant tables are joined (|=) or inserted, never overwritten; pre and post both updated", floor=3)
    fs = [f for f in ctx.db.fns(TD, pk=GC + "::join_with")]
    ctx.need(fs, "global_context::join_with")
    for fn in fs:
        body = fn["body"]
        ws = [n for n in walk(body) if n.get("k") == "call" and n.get("op") in ("=", "|=", "&=") and "o" in n and
              any(x.get("k") == "mem" and x.get("n") == "second" for x in walk(n["o"]))]
        ins = [n for n in walk(body) if is_call(n, name=("insert", "emplace"))]
        if ws and all(w.get("op") == "|=" for w in ws) and ins:
            ctx.ok("existing block: |= ; new block: insert", fn, ws[0])
        else:
            ctx.bad("global_context::join_with updates an existing block invariant with %s (must be |=) / inserts new blocks: %s" %
                    ([w.get("op") for w in ws], bool(ins)), fn, body, sig="global-join")
    fs = ctx.db.fns(TD, pk=GC + "::join_invariants_with")
    ctx.need(fs, "global_context::join_invariants_with")
    for fn in fs:
        calls = [n for n in walk(fn["body"]) if is_call(n, name="join_with") and len(n.get("a", [])) == 3]
        pairs = []
        for c in calls:
            tbl = [callee(x)["name"] for x in walk(c["a"][0]) if x.get("k") == "call" and callee(x)]
            pairs.append((("pre" if any("pre" in t for t in tbl) else "post" if any("post" in t for t in tbl) else "?"),
                          [i for i in range(len(fn["params"])) if is_param(c["a"][2], fn, i)]))
        if sorted(pairs) == [("post", [2]), ("pre", [1])]:
            ctx.ok("pre table <- pre invariants, post table <- post invariants", fn, calls[0])
        else:
            ctx.bad("join_invariants_with wires the tables as %s; expected pre<-param 2, post<-param 3" % pairs, fn, fn["body"], sig="global-wiring")
    for fn in [f for f in ctx.db.fns(TD, name="analyze_function") if "top_down_inter_impl" in f["pk"]]:
        calls = [n for n in walk(fn["body"]) if is_call(n, name="join_invariants_with")]
        for c in calls:
            a = [callee(strip(x))["name"] if isinstance(strip(x), dict) and strip(x).get("k") == "call" and callee(strip(x)) else "?" for x in c.get("a", [])]
            if a[1:] == ["get_pre_invariants", "get_post_invariants"]:
                ctx.ok("analyze_function stores (pre, post) invariants in that order", fn, c)
            else:
                ctx.bad("analyze_function passes %s to join_invariants_with; expected (node, get_pre_invariants(), get_post_invariants())" % a,
                        fn, c, sig="global-args")


def r9_callsite(ctx):
    ctx.rule("C09.r9", "exec(callsite): every non-bottom path analyses the callee; analyze_callee ends by installing the continuation", floor=2)
    for fn in _tr_fns(ctx, "exec"):
        if "callsite" not in fn["psig"]:
            continue
        body = fn["body"]

        def gen(n):
            if is_call(n, name="analyze_callee"):
                return ("analysed",)
            if n.get("k") == "call" and n.get("op") == "()" and is_ref(n.get("o")) and strip(n["o"]).get("n", "").startswith("analyze_callee"):
                return ("analysed",)
            return ()
        f = paths.must_events(body, gen)
        g = paths.guards(body)
        good = True
        for r, st in f.returns:
            if "analysed" in st:
                continue
            gs = g.get(id(r), ()) if r is not None else ()
            if any(p and any(is_call(x, name="is_bottom") for x in walk(c)) for c, p in gs if not isinstance(c, tuple)):
                continue
            good = False
            ctx.bad("exec(callsite_t&) has a path that neither analyses the callee nor is the bottom early exit", fn, r if r is not None else body,
                    sig="callsite-skip")
        if good:
            ctx.ok("exec(callsite): bottom -> return; otherwise analyze_callee", fn, None)
    for fn in _tr_fns(ctx, "analyze_callee"):
        body = fn["body"]
        sets = [n for n, ps in nodes_not_in_log(body, lambda x: is_call(x, name="set_abs_value") and is_this(x.get("o")))]
        last = sets[-1] if sets else None
        d = local_decls(body)
        if last is not None:
            a = resolve_local(body, strip_move(last["a"][0]), d)
            if is_call(a, name="get_caller_continuation"):
                aa = a.get("a", [])
                names = [strip(x).get("n") if isinstance(strip(x), dict) else None for x in aa]
                if names == ["cs", "fdecl", "caller_dom", "callee_exit_vars", "callee_exit"]:
                    ctx.ok("set_abs_value(get_caller_continuation(cs, fdecl, caller_dom, vars, callee_exit))", fn, last)
                else:
                    ctx.bad("get_caller_continuation is called with %s" % names, fn, last, sig="callsite-cont-args")
            else:
                ctx.bad("analyze_callee does not end by installing the caller continuation", fn, last, sig="callsite-cont")
        else:
            ctx.bad("analyze_callee never updates the abstract state", fn, body, sig="callsite-noset")


RULES = [r1_callee_entry, r2_continuation, r3_sides, r4_subsumption, r5_join_contexts, r6_recursion, r7_project_and_store,
         r8_global_tables, r9_callsite]


def r10_joined_reuse(ctx):
    ctx.rule("C09.r10", "a stored (pre, post) pair is reused for a new entry d only if post was COMPUTED from a precondition that "
             "includes d: a context obtained by joining two contexts (pre|pre', post|post') describes only gamma(pre) U gamma(pre'), "
             "not gamma(pre|pre'), so it must not answer is_subsumed(d) with `d <= pre|pre'`", floor=1)
    fs = ctx.db.fns(TD, pk=CC + "::is_subsumed")
    if not ctx.need(fs, "calling_context::is_subsumed"):
        return
    # constructors that mark a context as joined
    joined_ctors = [f for f in ctx.db.fns(TD, cpk=CC) if f.get("ctor") and
                    any(i.get("field") == "m_exact" and isinstance(strip(i.get("e")), dict) and strip(i.get("e")).get("v") == "false" for i in f.get("inits", []))]
    if not joined_ctors:
        ctx.undecided("no calling_context constructor initialises m_exact to false: the joined/exact distinction moved", fs[0], fs[0]["body"])
        return
    for fn in fs:
        body = fn["body"]
        g = paths.guards(body)
        flagged = None
        for r in rets(body):
            gs = [(c, p) for c, p in g.get(id(r), ()) if not isinstance(c, tuple)]

            def val(c):
                if is_field(c, "m_exact", of_this=True):
                    return False
                return None

            def ev(c):
                c = strip(c)
                if not isinstance(c, dict):
                    return None
                v = val(c)
                if v is not None:
                    return v
                if c.get("k") == "un" and c.get("op") == "!":
                    x = ev(c.get("e"))
                    return None if x is None else (not x)
                if c.get("k") == "bin" and c.get("op") in ("&&", "||"):
                    a, b = ev(c.get("L")), ev(c.get("R"))
                    if c["op"] == "&&":
                        return False if (a is False or b is False) else (True if (a and b) else None)
                    return True if (a is True or b is True) else (False if (a is False and b is False) else None)
                if c.get("k") == "lit" and c.get("v") in ("true", "false"):
                    return c["v"] == "true"
                return None
            if any(ev(c) is (not p) for c, p in gs):
                continue        # not reachable for a joined context
            if ev(r.get("v")) is False:
                continue
            flagged = r
        if flagged is not None:
            ctx.bad("calling_context::is_subsumed answers `%s` for a JOINED context (m_exact == false), whose post summary is post | post' "
                    "and was never computed from pre | pre': a call with an entry inside the join but outside both members reuses a post "
                    "condition that does not cover it" % src(flagged.get("v"))[:60], fn, flagged, sig="joined-context-reused")
        else:
            ctx.ok("joined contexts are never reused as summaries", fn, body)


RULES += [r10_joined_reuse]


def r11_first_iteration_recorded(ctx):
    ctx.rule("C09.r11", "analyze_function: an analysis run whose results are not recorded (return without join_invariants_with) must be "
             "a LATER fixpoint iteration (iteration > 0), whose predecessor records them", floor=1)
    fs = [f for f in ctx.db.fns(TD, name="analyze_function") if (f.get("qn") or "").startswith("crab::analyzer::top_down_inter_impl::analyze_function")]
    if not ctx.need(fs, "top_down_inter_impl::analyze_function"):
        return
    for fn in fs:
        body = fn["body"]
        ps = fn.get("params", [])
        if len(ps) != 4:
            ctx.undecided("analyze_function no longer has (node, fac, transformer, iteration) parameters", fn, body)
            continue
        it_id = ps[3]["id"]

        def gen(n):
            if is_call(n, name="join_invariants_with"):
                return ("recorded",)
            if is_call(n, name="run_forward"):
                return ("ran",)
            return ()
        f = paths.must_events(body, gen)
        g = paths.guards(body)
        bad = None
        n_ret = 0
        for r, st in f.returns:
            if r is None or "ran" not in st or "recorded" in st:
                continue
            v = strip_move(r.get("v"))
            # returning the analyzer obtained from the recursive call is fine: that call recorded
            if any(x.get("k") == "ref" and x.get("rk") == "local" for x in walk(v)):
                continue
            n_ret += 1
            later = False
            for c, p in g.get(id(r), ()):
                if isinstance(c, tuple):
                    continue
                pp = cmp_parts(c)
                if pp and p:
                    op, a, b = pp
                    a, b = strip(a), strip(b)
                    isit = lambda x: isinstance(x, dict) and x.get("k") == "ref" and x.get("id") == it_id
                    lit = lambda x, vals: isinstance(x, dict) and x.get("k") == "lit" and x.get("v") in vals
                    if (isit(a) and ((op == ">" and lit(b, ("0",))) or (op == ">=" and lit(b, ("1",))) or (op == "!=" and lit(b, ("0",))))) or \
                            (isit(b) and ((op == "<" and lit(a, ("0",))) or (op == "<=" and lit(a, ("1",))) or (op == "!=" and lit(a, ("0",))))):
                        later = True
            if later:
                ctx.ok("results dropped only for iteration > 0", fn, r)
            else:
                bad = r
        if bad is not None:
            ctx.bad("analyze_function can return after running the intra-procedural analysis without join_invariants_with even in the "
                    "FIRST fixpoint iteration (no `iteration > 0` test): when the first iteration is already stable (exit bottom) the "
                    "invariants of the function's blocks are never recorded and stay bottom", fn, bad, sig="first-iteration-not-recorded")
        elif n_ret == 0:
            ctx.ok("every run is recorded", fn, body)


def r12_parallel_wiring(ctx):
    ctx.rule("C09.r12", "formal := actual wiring is a SIMULTANEOUS assignment: when caller and callee share variable names a sequential "
             "loop of unify(dom, formal_i, actual_i) lets a later actual read an already overwritten formal", floor=1)
    for fn in _tr_fns(ctx, "get_callee_entry"):
        body = fn["body"]
        loops = [l for l in walk(body) if l.get("k") in ("for", "rangefor", "while") and any(is_call(x, name="unify") for x in walk(l.get("b")))]
        if not loops:
            ctx.undecided("get_callee_entry: the unification loop was not found", fn, body)
            continue
        for l in loops:
            lb = l.get("b")
            # accepted protections: fresh temporaries (a variable-factory call) or an explicit hazard test comparing a formal
            # with the OTHER actuals (a nested loop / std::find over the argument list)
            temps = any(is_call(x, name=("get_var_factory", "get")) and any(is_call(y, name="get_var_factory") for y in walk(x)) for x in walk(body))
            hazard_test = any(x.get("k") in ("for", "rangefor", "while") for x in walk(lb) if x is not l) or \
                any(is_call(x, name=("find", "find_if", "any_of", "count")) and any(is_call(y, name=("get_args", "get_inputs")) for y in walk(x))
                    for x in walk(body))
            if temps or hazard_test:
                ctx.ok("get_callee_entry wires the parameters through temporaries / tests for aliasing", fn, l)
            else:
                ctx.bad("get_callee_entry assigns formal_i := actual_i one after the other in the caller's state: for a call g(b_in, a_in) of "
                        "g(a_in, b_in) (caller and callee share names) the second assignment reads the already overwritten a_in; the callee "
                        "entry becomes a_in = b_in = old b_in", fn, l, sig="sequential-unify:get_callee_entry")


def r13_skipped_recursive_call(ctx):
    ctx.rule("C09.r13", "a call that is neither analysed nor answered from a stored summary (callee already on the call stack and not a "
             "fixpoint head) must weaken the invariants recorded for the callee: they do not cover this entry", floor=1)
    for fn in _tr_fns(ctx, "analyze_callee"):
        body = fn["body"]
        g = paths.guards(body)
        tops = [n for n in walk(body) if is_call(n, name="set_to_top") and is_ref(n.get("o")) and strip(n["o"]).get("n") == "callee_exit"]
        site = None
        for n in tops:
            def on_stack(c):
                return 1 if is_call(strip(c), name="find_call_stack") else 0
            if guard_truth(g.get(id(n), ()), on_stack, body) is True:
                site = n
        if site is None:
            ctx.undecided("analyze_callee: the `callee is on the call stack -> exit := top` branch was not found", fn, body)
            continue
        # the enclosing then-branch
        br = None
        for x in walk(body):
            if x.get("k") == "if" and is_call(strip(x.get("c")), name="find_call_stack") and any(y is site for y in walk(x.get("t"))):
                br = x.get("t")
        weak = br is not None and any(is_call(y, name=("join_invariants_with", "join_with", "analyze_function")) for y in walk(br))
        if weak:
            ctx.ok("skipped recursive call weakens / re-analyses the callee", fn, site)
        else:
            ctx.bad("analyze_callee answers a call whose callee is already on the call stack (and is not a fixpoint head) with exit := top "
                    "and analyses nothing: the invariants recorded for the callee (and for everything it calls) only describe the entry "
                    "it was first analysed with, not this one (mutual recursion a <-> b entered through b: pre(b::entry) = {x_in = 5} "
                    "although b is re-entered with 3 and 1)", fn, site, sig="skipped-recursive-call")


RULES += [r11_first_iteration_recorded, r12_parallel_wiring, r13_skipped_recursive_call]


def r14_sorted_search(ctx, rid="C09.r14"):
    ctx.rule(rid, "top-down call continuation: std::lower_bound / binary_search are applied only to a vector that is SORTED - sorted on "
             "every path before, or produced by a helper that returns the output of std::set_intersection / set_difference / "
             "set_union and not modified since; the list of arguments that the call re-defines is searched to decide which actuals "
             "receive the callee's final input values, and a miss overwrites a returned value with the pre-call one", floor=1)
    from ..paths import MustEvents, Unstructured
    SEARCH = ("binary_search", "lower_bound", "upper_bound", "equal_range")
    SETALG = ("set_intersection", "set_difference", "set_union", "set_symmetric_difference", "merge")
    # helpers of the file whose result is the output range of a std set algorithm (hence sorted)
    producers = set()
    for h in ctx.db.fns(TD):
        b = h.get("body")
        if not b:
            continue
        rs = [r for r in walk(b) if r.get("k") == "ret" and r.get("v") is not None]
        algs = [c for c in walk(b) if c.get("k") == "call" and callee(c) and callee(c)["name"] in SETALG and (callee(c).get("qn") or "").startswith("std::")]
        if not rs or not algs:
            continue
        outs = set()
        for c in algs:
            for y in walk(c["a"][-1]) if c.get("a") else []:
                if isinstance(y, dict) and y.get("k") == "ref" and y.get("rk") == "local":
                    outs.add(y.get("id"))
        if all(isinstance(strip_move(r["v"]), dict) and strip_move(r["v"]).get("id") in outs or
               any(isinstance(y, dict) and y.get("k") == "ref" and y.get("id") in outs for y in walk(r["v"])) for r in rs):
            producers.add(h["name"])
    n = 0
    seen = set()
    for fn in ctx.db.fns(TD):
        body = fn.get("body")
        if not body:
            continue
        calls = [c for c in walk(body) if c.get("k") == "call" and callee(c) and callee(c)["name"] in SEARCH and
                 (callee(c).get("qn") or "").startswith("std::") and c.get("a")]
        if not calls or (fn["pk"], fn["line"]) in seen:
            continue
        seen.add((fn["pk"], fn["line"]))
        decls = local_decls(body)

        def container_of(e):
            for y in walk(e):
                if y.get("k") == "call" and callee(y) and callee(y)["name"] in ("begin", "cbegin") and y.get("o") is not None:
                    o = strip(y["o"])
                    if isinstance(o, dict) and o.get("k") in ("ref", "mem"):
                        return o
            return None

        def gen(x):
            if x.get("k") == "call" and callee(x) and callee(x)["name"] in ("sort", "stable_sort") and x.get("a"):
                o = container_of(x["a"][0])
                if o is not None:
                    return ("sorted:%s" % (o.get("id") or o.get("n")),)
            if x.get("k") == "decl" and "i" in x:
                i = strip_move(x["i"])
                while isinstance(i, dict) and i.get("k") in ("ctor", "construct") and len(i.get("a", [])) == 1:
                    i = strip_move(i["a"][0])
                if isinstance(i, dict) and i.get("k") == "call" and callee(i) and callee(i)["name"] in producers:
                    return ("sorted:%s" % x.get("id"),)
            return ()

        def kill(x):
            if x.get("k") == "call" and callee(x) and callee(x)["name"] in ("push_back", "emplace_back", "insert", "emplace", "operator[]", "swap", "reverse") \
                    and x.get("o") is not None:
                o = strip(x["o"])
                if isinstance(o, dict) and o.get("k") in ("ref", "mem"):
                    return ("sorted:%s" % (o.get("id") or o.get("n")),)
            return ()
        try:
            fl = MustEvents(gen, kill)
            fl.run(body)
        except Unstructured:
            ctx.undecided("%s: unstructured control flow" % fn["name"], fn, body, rid=rid)
            continue
        for c in calls:
            n += 1
            o = container_of(c["a"][0])
            st = fl.at.get(id(c)) or frozenset()
            t = ((o or {}).get("TC") or (o or {}).get("T") or "")
            if o is not None and ("sorted:%s" % (o.get("id") or o.get("n"))) in st:
                ctx.ok("%s: %s on a sorted vector" % (fn["name"], callee(c)["name"]), fn, c, rid=rid)
            elif o is not None and ("std::set" in t or "std::map" in t):
                ctx.ok("%s: %s on an ordered container" % (fn["name"], callee(c)["name"]), fn, c, rid=rid)
            else:
                ctx.bad("%s applies std::%s to `%s`, which is not known to be sorted (filled in call-site order): for `(y, x) := f(x, y)` the "
                        "search misses the re-defined argument x, the continuation unifies x with the callee's final INPUT value and the "
                        "caller goes on with x = 1 instead of the returned 11 - a failing assertion after the call is reported safe"
                        % (fn["name"], callee(c)["name"], src(o)[:30] if o is not None else "?"), fn, c,
                        sig="search-on-unsorted-vector:%s" % fn["name"], rid=rid)
    if n == 0:
        ctx.fail("rule %s: no binary search found in the top-down analyzer" % rid)


RULES += [r14_sorted_search]
