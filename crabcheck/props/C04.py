"""C04 - the inclusion test and the lattice operations agree with concretisation."""
from ..tree import (walk, walk_with_parents, strip, is_call, is_ref, is_this, is_field, deref, same_expr,
                    src, obj, args, callee)
from .. import paths
from ..match import (strip_move, is_param, rets, nodes_not_in_log, resolve_local, local_decls, writes_to, cmp_parts,
                     guard_truth, atom_truth)
from . import _lattice
from . import _containers as cont
from . import _componentwise as cw
from . import _graphns

LEVEL_TEXT = ("Clause-level static rules over every domain and scalar class: the leading decision list of each lattice operator "
              "(<=, |, |=, &, &=, ||, &&, widening_thresholds) is evaluated for the nine cases this/argument in {bottom, top, other}; "
              "wherever the code reaches a verdict it must be the lattice-theoretic one (bottom <= x, x <= top, non-bottom <= bottom is "
              "false, bottom|x = x, x&bottom = bottom, top&x = x ...); product/lifting domains combine their components "
              "component-wise with the same operator, left from this and right from the argument; set_to_bottom/set_to_top make "
              "is_bottom/is_top true; a top value is never stored in an environment map. Inclusion of two non-special values (tree "
              "walks, graph comparison) is NOT decided.")
ASSUMPTIONS = ["is_bottom()/is_top() of a class are correct characterisations of its bottom/top representation (checked for set_to_*, not in general)"]


def domain_files(ctx):
    return [f for f in ctx.db.files() if (f.startswith("include/crab/domains/") or f.startswith("lib/")) and
            not any(x in f for x in ("/apron", "/elina", "/ldd", "boxes.hpp", "dummy_abstract_domain"))]


def r1_prologues(ctx):
    ctx.rule("C04.r1", "lattice operator prologues answer the bottom/top cases as the lattice requires", floor=400)
    _lattice.prologue_rule(ctx, "C04.r1", files=domain_files(ctx), min_classes=25)


def r2_componentwise(ctx):
    ctx.rule("C04.r2", "product and lifting domains combine their components with the same operator, this-left / argument-right", floor=40)
    cw.componentwise_rule(ctx, "C04.r2")


def r3_set_to(ctx):
    ctx.rule("C04.r3", "set_to_bottom()/set_to_top() establish what is_bottom()/is_top() test", floor=20)
    cw.set_to_rule(ctx, "C04.r3", domain_files(ctx))


def r4_top_not_stored(ctx):
    ctx.rule("C04.r4", "a top value is never stored in an environment map (needed for is_top and for <= on equal values)", floor=8)
    cont.top_never_stored(ctx, "C04.r4")


def r5_vertex_namespace(ctx):
    ctx.rule("C04.r5", "graph domains: a vertex id of one operand never indexes the other operand's graph (inclusion / join / meet)", floor=10)
    _graphns.vertex_namespace_rule(ctx, "C04.r5")


RULES = [r1_prologues, r2_componentwise, r3_set_to, r4_top_not_stored, r5_vertex_namespace]
