"""C04 - the inclusion test and the lattice operations agree with concretisation."""
from ..tree import (walk, walk_with_parents, strip, is_call, is_ref, is_this, is_field, deref, same_expr,
                    src, obj, args, callee)
from .. import paths
from ..match import (strip_move, is_param, rets, nodes_not_in_log, resolve_local, local_decls, writes_to, cmp_parts,
                     guard_truth, atom_truth)
from . import _lattice
from . import _containers as cont
from . import _componentwise as cw
from . import _graphns

LEVEL_TEXT = ("Clause-level static rules over every domain and scalar class: the leading decision list of each lattice operator "
              "(<=, |, |=, &, &=, ||, &&, widening_thresholds) is evaluated for the nine cases this/argument in {bottom, top, other}; "
              "wherever the code reaches a verdict it must be the lattice-theoretic one (bottom <= x, x <= top, non-bottom <= bottom is "
              "false, bottom|x = x, x&bottom = bottom, top&x = x ...); product/lifting domains combine their components "
              "component-wise with the same operator, left from this and right from the argument; set_to_bottom/set_to_top make "
              "is_bottom/is_top true; a top value is never stored in an environment map; the inclusion test of a product / lifting compares "
              "every component that its join combines. Inclusion of two non-special values (tree "
              "walks, graph comparison) is NOT decided."
              " An inclusion test that walks a map of the left operand also walks that of the right one; no rename resets a component; no inclusion test joins / smashes parts of its right operand; the zones rename insertion is effective on every path.")
ASSUMPTIONS = ["is_bottom()/is_top() of a class are correct characterisations of its bottom/top representation (checked for set_to_*, not in general)"]


def domain_files(ctx):
    return [f for f in ctx.db.files() if (f.startswith("include/crab/domains/") or f.startswith("lib/")) and
            not any(x in f for x in ("/apron", "/elina", "/ldd", "boxes.hpp", "dummy_abstract_domain"))]


def r1_prologues(ctx):
    ctx.rule("C04.r1", "lattice operator prologues answer the bottom/top cases as the lattice requires", floor=400)
    _lattice.prologue_rule(ctx, "C04.r1", files=domain_files(ctx), min_classes=25)


def r2_componentwise(ctx):
    ctx.rule("C04.r2", "product and lifting domains combine their components with the same operator, this-left / argument-right", floor=40)
    cw.componentwise_rule(ctx, "C04.r2")


def r3_set_to(ctx):
    ctx.rule("C04.r3", "set_to_bottom()/set_to_top() establish what is_bottom()/is_top() test", floor=20)
    cw.set_to_rule(ctx, "C04.r3", domain_files(ctx))


def r4_top_not_stored(ctx):
    ctx.rule("C04.r4", "a top value is never stored in an environment map (needed for is_top and for <= on equal values)", floor=8)
    cont.top_never_stored(ctx, "C04.r4")


def r5_vertex_namespace(ctx):
    ctx.rule("C04.r5", "graph domains: a vertex id of one operand never indexes the other operand's graph (inclusion / join / meet)", floor=10)
    _graphns.vertex_namespace_rule(ctx, "C04.r5")


RULES = [r1_prologues, r2_componentwise, r3_set_to, r4_top_not_stored, r5_vertex_namespace]


# ------------------------------------------------------------------ side symmetry of the join's inferred relations
GRAPH_JOIN_FILES = ("include/crab/domains/split_dbm.hpp", "include/crab/domains/split_oct.hpp")


def _side_of(e, fn, body, d, memo, depth=0):
    """set of operand sides ('X' = first operand / this, 'Y' = second operand) an expression draws its values from"""
    out = set()
    if depth > 8:
        return out
    ps = fn.get("params", [])
    # two leading parameters of the same type: first / second operand (static or helper joins)
    twin_params = {}
    if len(ps) >= 2 and (ps[0].get("T") or "").replace("const ", "") == (ps[1].get("T") or "").replace("const ", ""):
        twin_params = {ps[0]["id"]: "X", ps[1]["id"]: "Y"}
    if "__lambdas__" not in memo:
        memo["__lambdas__"] = {}
        for l in walk(body):
            if l.get("k") == "lambda":
                lp = l.get("params") or []
                if len(lp) >= 2 and (lp[0].get("T") or "").replace("const ", "") == (lp[1].get("T") or "").replace("const ", ""):
                    memo["__lambdas__"][lp[0]["id"]] = "X"
                    memo["__lambdas__"][lp[1]["id"]] = "Y"
    twin_params = dict(twin_params)
    twin_params.update(memo["__lambdas__"])
    for x in walk(e):
        if x.get("k") == "lambda":
            continue
        if x.get("k") == "this" and not memo["__lambdas__"]:
            out.add("X")
        elif x.get("k") == "ref":
            if x.get("rk") == "param":
                if x.get("id") in twin_params:
                    out.add(twin_params[x["id"]])
                elif ps and x.get("id") == ps[0]["id"] and not fn.get("static"):
                    out.add("Y")          # the argument of a binary member operator
            elif x.get("rk") == "local":
                vid = x.get("id")
                if vid in memo:
                    out |= memo[vid]
                    continue
                memo[vid] = set()
                dd = d.get(vid) or {}
                sd = set()
                if "i" in dd:
                    sd |= _side_of(dd["i"], fn, body, d, memo, depth + 1)
                memo[vid] = sd
                out |= sd
    return out


def r6_join_sides(ctx):
    ctx.rule("C04.r6", "zones / octagons join: a relation inferred from the bounds takes max(term over the LEFT operand, the same term "
             "over the RIGHT operand); neither argument of the max may mix the two operands", floor=6)
    n = 0
    for f in GRAPH_JOIN_FILES:
        for fn in ctx.db.fns(f):
            if fn["name"] not in ("operator|", "join", "operator|="):
                continue
            body = fn["body"]
            d = local_decls(body)
            memo = {}
            for c in walk(body):
                if not (c.get("k") == "call" and callee(c) and callee(c).get("qn", "").startswith("std::max") and len(c.get("a", [])) == 2):
                    continue
                sa = _side_of(c["a"][0], fn, body, d, memo)
                sb = _side_of(c["a"][1], fn, body, d, memo)
                if not (sa | sb) >= {"X", "Y"}:
                    continue          # not a left/right combination
                n += 1
                if (sa == {"X"} and sb == {"Y"}) or (sa == {"Y"} and sb == {"X"}):
                    ctx.ok("%s: max(%s, %s)" % (fn["name"], src(c["a"][0])[:40], src(c["a"][1])[:40]), fn, c)
                else:
                    mixed = c["a"][0] if len(sa) > 1 else c["a"][1]
                    ctx.bad("%s::%s infers a relation with max(`%s`, `%s`): the term `%s` mixes values of BOTH operands, so the bound is not "
                            "the maximum of what each operand guarantees and states of one operand are cut off from the join" %
                            (fn["cpk"].split("::")[-1], fn["name"], src(c["a"][0])[:60], src(c["a"][1])[:60], src(mixed)[:60]), fn, c,
                            sig="join-mixed-sides:%s" % src(mixed)[:60])
    if n == 0:
        ctx.fail("rule C04.r6: no max(left term, right term) found in the graph-domain joins")


RULES += [r6_join_sides]


def r7_inclusion_right_operand(ctx):
    ctx.rule("C04.r7", "inclusion tests never over-approximate their RIGHT operand: powerset_domain::operator<= compares against the "
             "disjuncts of `other` themselves, not against their join (smash)", floor=1)
    PW = "include/crab/domains/powerset_domain.hpp"
    fs = ctx.db.fns(PW, pk="crab::domains::powerset_domain::operator<=")
    if not ctx.need(fs, "powerset_domain::operator<="):
        return
    for fn in fs:
        body = fn["body"]
        d = local_decls(body)

        def from_other(e, depth=0):
            for x in walk(e):
                if is_param(x, fn, 0):
                    return True
                if x.get("k") == "ref" and x.get("rk") == "local" and depth < 4:
                    dd = d.get(x.get("id")) or {}
                    if "i" in dd and from_other(dd["i"], depth + 1):
                        return True
            return False
        lossy = [n for n in walk(body) if n.get("k") == "call" and callee(n) and
                 any(w in callee(n)["name"] for w in ("smash", "approx", "hull", "join")) and
                 (any(from_other(a) for a in n.get("a", [])) or ("o" in n and from_other(n["o"])))]
        joins = [n for n in walk(body) if n.get("k") == "call" and n.get("op") in ("|", "|=") and
                 (any(from_other(a) for a in n.get("a", [])) or ("o" in n and from_other(n["o"])))]
        if lossy or joins:
            n0 = (lossy + joins)[0]
            ctx.bad("powerset_domain::operator<= replaces its right operand by `%s` before comparing: the join of the disjuncts contains "
                    "states that are in none of them, so the test can answer yes for a left operand that is not included" % src(n0)[:60],
                    fn, n0, sig="inclusion-right-smashed")
        else:
            ctx.ok("operator<= compares with other's own disjuncts", fn, body)


RULES += [r7_inclusion_right_operand]


def r8_leq_table_sizes(ctx):
    ctx.rule("C04.r8", "zones / octagons inclusion: the answer never depends on the SIZE of the vertex tables, and a variable of the right "
             "operand that is missing on the left refutes the inclusion only if the right operand constrains it (a vertex can "
             "exist for an unconstrained variable, e.g. after widening)", floor=3)
    files = (("include/crab/domains/split_dbm.hpp", "crab::domains::split_dbm_domain"),
             ("include/crab/domains/split_oct.hpp", "crab::domains::split_oct_domain"),
             ("include/crab/domains/sparse_dbm.hpp", "crab::domains::sparse_dbm_domain"))
    for f, cpk in files:
        fs = ctx.db.fns(f, pk=cpk + "::operator<=")
        if not ctx.need(fs, cpk + "::operator<="):
            continue
        for fn in fs:
            body = fn["body"]
            problems = []
            n_missing = 0
            bodies = [body] + [l.get("b") for l in walk(body) if l.get("k") == "lambda" and l.get("b") is not None]
            allrets = []
            for bd in bodies:
                gg = paths.guards(bd)
                for r in rets(bd):
                    allrets.append((r, gg, bd))
            for r, g, bd in allrets:
                v = strip(r.get("v"))
                if not (isinstance(v, dict) and v.get("k") == "lit" and v.get("v") == "false"):
                    continue
                gs = [(c, p) for c, p in g.get(id(r), ()) if not isinstance(c, tuple)]
                for c, p in gs:
                    # (1) size comparison of the vertex tables
                    pp = cmp_parts(c)
                    if pp and pp[0] in ("<", ">", "<=", ">=", "!=", "==") and \
                            all(is_call(strip(x), name="size") and any(y.get("k") == "mem" and "vert_map" in (y.get("n") or "") for y in walk(x))
                                for x in (pp[1], pp[2])):
                        problems.append((r, "answers no from `%s`: the tables also hold vertices of unconstrained variables" % src(c)[:60],
                                         "leq-table-size"))
                    # (2) lookup of a right variable failed on the left
                    if pp and pp[0] == "==" and p and any(is_call(y, name="end") for y in walk(c)):
                        n_missing += 1
                        def unconstrained(cc):
                            cc = strip(cc)
                            if isinstance(cc, dict) and cc.get("k") == "bin" and cc.get("op") == "&&":
                                return 1 if (unconstrained(cc.get("L")) or unconstrained(cc.get("R"))) else 0
                            q = cmp_parts(cc)
                            if q and q[0] == "==" and any(is_call(y, name=("succs", "preds")) for y in walk(cc)) and \
                                    any(isinstance(strip(z), dict) and strip(z).get("k") == "lit" and strip(z).get("v") == "0" for z in (q[1], q[2])):
                                return 1
                            return 0
                        from ..match import guard_truth
                        t = guard_truth(g.get(id(r), ()), unconstrained, bd)
                        if t is not False:
                            problems.append((r, "answers no because a variable of the right operand has no vertex on the left, before "
                                             "testing whether the right operand constrains that variable at all", "leq-missing-unconstrained"))
            if problems:
                r, msg, sig = problems[0]
                ctx.bad("%s::operator<= %s: two values describing the same states can be reported as not included" %
                        (cpk.split("::")[-1], msg), fn, r, sig=sig)
            elif n_missing == 0:
                ctx.undecided("%s::operator<=: the missing-vertex test was not found" % cpk.split("::")[-1], fn, body)
            else:
                ctx.ok("inclusion does not depend on table sizes; missing vertices matter only when constrained", fn, body)


RULES += [r8_leq_table_sizes]


def r10_oct_twin_lookups(ctx, rid="C04.r10"):
    ctx.rule(rid, "octagons (split_oct): a relation between two signed vertices s -> d that is derived from the BOUNDS of the "
             "other operand is the path s -> twin(s) ... twin(d) -> d, so of the two bound lookups one starts at s (`lookup(s, "
             "twin(s))`) and the other ends at d (`lookup(twin(d), d)`), with twin(v) = v + 1 for an even (positive) vertex and "
             "v - 1 for an odd one, in each of the four parity cases of join, widening and inclusion", floor=12)
    SO = "include/crab/domains/split_oct.hpp"
    from ..match import guard_truth
    n = 0
    seen = set()
    for fn in ctx.db.fns(SO):
        if not (fn.get("cpk") or "").endswith("split_oct_domain"):
            continue
        body = fn["body"]
        looks = []
        for c, ps in walk_with_parents(body):
            if not (is_call(c, name="lookup") and len(c.get("a", [])) == 3):
                continue
            a, b = strip(c["a"][0]), strip(c["a"][1])

            def split(e):
                if isinstance(e, dict) and e.get("k") == "ref":
                    return e.get("id"), 0, e.get("n")
                if isinstance(e, dict) and e.get("k") == "bin" and e.get("op") in ("+", "-"):
                    l, r = strip(e.get("L")), strip(e.get("R"))
                    if isinstance(l, dict) and l.get("k") == "ref" and isinstance(r, dict) and r.get("k") == "lit" and r.get("v") == "1":
                        return l.get("id"), (1 if e["op"] == "+" else -1), l.get("n")
                return None, None, None
            va, da, na = split(a)
            vb, db, nb = split(b)
            if va is None or vb is None or va != vb or (da == 0) == (db == 0):
                continue
            looks.append({"c": c, "ps": ps, "var": va, "name": na, "first_is_v": da == 0, "delta": db if da == 0 else da})
        if not looks:
            continue
        key = (fn["name"], fn.get("psig"))
        if key in seen:
            continue
        g = paths.guards(body)
        # pairs: two twin lookups on different variables under the same && / || / ! expression
        pairs = []
        for i, x in enumerate(looks):
            for y in looks[i + 1:]:
                if x["var"] == y["var"]:
                    continue
                common = [p for p in x["ps"] if p.get("k") in ("bin", "un", "if") and any(q is p for q in y["ps"])]
                if common and common[-1].get("k") in ("bin", "un") or (common and common[-1].get("k") == "if" and
                                                                       any(z is x["c"] for z in walk(common[-1].get("c"))) and
                                                                       any(z is y["c"] for z in walk(common[-1].get("c")))):
                    pairs.append((x, y))
        if not pairs:
            continue
        seen.add(key)
        src_votes = {}
        for x, y in pairs:
            for z in (x, y):
                if z["first_is_v"]:
                    src_votes[z["name"]] = src_votes.get(z["name"], 0) + 1
        def _parity(z):
            def even(c, vid=z["var"]):
                p = cmp_parts(c)
                if p and p[0] in ("==", "!=") and isinstance(strip(p[1]), dict) and strip(p[1]).get("k") == "bin" and strip(p[1]).get("op") == "%" and \
                        isinstance(strip(strip(p[1]).get("L")), dict) and strip(strip(p[1]).get("L")).get("id") == vid:
                    return 1 if p[0] == "==" else -1
                return 0
            return guard_truth(g.get(id(z["c"]), ()), even, body)
        # only SIGNED vertices (the enclosing code distinguishes their parity) are subject to the path typing; in
        # add_linear_leq & co. the vertices are the positive vertices of two variables and both bounds are looked up directly
        pairs = [(x, y) for x, y in pairs if _parity(x) is not None and _parity(y) is not None]
        src_votes = {}
        for x, y in pairs:
            for z in (x, y):
                if z["first_is_v"]:
                    src_votes[z["name"]] = src_votes.get(z["name"], 0) + 1
        for x, y in pairs:
            n += 1
            errs = []
            for z in (x, y):
                def even(c, vid=z["var"]):
                    p = cmp_parts(c)
                    if p and p[0] in ("==", "!=") and isinstance(strip(p[1]), dict) and strip(p[1]).get("k") == "bin" and strip(p[1]).get("op") == "%" and \
                            isinstance(strip(strip(p[1]).get("L")), dict) and strip(strip(p[1]).get("L")).get("id") == vid:
                        return 1 if p[0] == "==" else -1
                    return 0
                ev = guard_truth(g.get(id(z["c"]), ()), even, body)
                if ev is True and z["delta"] != 1:
                    errs.append("`%s` is even (positive vertex) here, its twin is %s + 1" % (z["name"], z["name"]))
                if ev is False and z["delta"] != -1:
                    errs.append("`%s` is odd (negative vertex) here, its twin is %s - 1" % (z["name"], z["name"]))
            if x["first_is_v"] == y["first_is_v"]:
                errs.append("both lookups %s at their vertex; one must start at the source vertex and the other end at the destination "
                            "vertex" % ("start" if x["first_is_v"] else "end"))
            else:
                s_name = x["name"] if x["first_is_v"] else y["name"]
                best = max(src_votes, key=src_votes.get) if src_votes else s_name
                if s_name != best and src_votes.get(best, 0) > src_votes.get(s_name, 0):
                    errs.append("`%s` is used as the source vertex here but `%s` is the source in the other cases" % (s_name, best))
            if errs:
                ctx.bad("split_oct_domain::%s derives a relation from the bounds with `%s` and `%s`: %s - the resulting bound mixes a "
                        "lower with an upper bound (join of {x,y in [-10,0]} and {-x-y <= 5} excludes (-10,-10))" %
                        (fn["name"], src(x["c"])[:30], src(y["c"])[:30], "; ".join(errs)), fn, y["c"],
                        sig="oct-twin-lookup:%s" % fn["name"])
            else:
                ctx.ok("%s: %s / %s" % (fn["name"], src(x["c"])[:24], src(y["c"])[:24]), fn, x["c"])
    if n == 0:
        ctx.fail("rule %s: no paired twin lookups found in split_oct.hpp" % rid)


RULES += [r10_oct_twin_lookups]


# maps in which a MISSING key means "no states" (bottom-like): walking the left operand only is then the right direction
_MISSING_MEANS_BOTTOM = {}


def r11_leq_walks_right_map(ctx):
    ctx.rule("C04.r11", "an inclusion test that walks a variable-keyed map of the LEFT operand key by key also walks the same map of the "
             "RIGHT operand (a missing key means `unconstrained`): what only the right operand constrains is otherwise never compared "
             "and the test answers yes for a left operand that describes more states", floor=2)
    files = [f for f in ctx.db.files() if f.startswith("include/crab/domains/")]
    n = 0
    seen = set()
    for f in files:
        for fn in ctx.db.fns(f, name="operator<="):
            body = fn.get("body")
            if not body or not fn.get("cpk") or len(fn.get("params", [])) != 1:
                continue
            decls = local_decls(body)

            def side(e):
                """'L' if e denotes *this or a local copy of it, 'R' for the parameter or a local copy of it"""
                e = strip_move(e)
                for _ in range(3):
                    if is_this(e) or (isinstance(e, dict) and e.get("k") == "un" and e.get("op") == "*" and is_this(strip(e.get("e")))):
                        return "L"
                    if is_param(e, fn, 0):
                        return "R"
                    if isinstance(e, dict) and e.get("k") == "ref" and e.get("rk") == "local":
                        d = decls.get(e.get("id"))
                        if d is None or "i" not in d:
                            return None
                        e = strip_move(d["i"])
                        # copy construction T x(y) / T x = y
                        if isinstance(e, dict) and e.get("k") in ("construct", "ctor") and e.get("a"):
                            e = strip_move(e["a"][0])
                        continue
                    return None
                return None
            walked = {}
            for l in walk(body, into_lambdas=True):
                if l.get("k") != "rangefor":
                    continue
                r = strip(l.get("r"))
                if not (isinstance(r, dict) and r.get("k") == "mem"):
                    continue
                base = r.get("b")
                sd = "L" if (base is None or is_this(strip(base))) else side(base)
                if sd is None:
                    continue
                walked.setdefault(r.get("n"), {}).setdefault(sd, l)
            for fld, sides in sorted(walked.items()):
                if "L" not in sides:
                    continue
                key = (fn["cpk"], fld)
                n += 1
                if key in _MISSING_MEANS_BOTTOM:
                    ctx.exempt("%s::operator<= walks %s of the left operand only: %s" % (fn["cpk"], fld, _MISSING_MEANS_BOTTOM[key]), fn, sides["L"])
                elif "R" in sides:
                    ctx.ok("%s::operator<=: %s of both operands is walked" % (fn["cpk"].split("::")[-1], fld), fn, sides["R"])
                else:
                    ctx.bad("%s::operator<= walks `%s` of the LEFT operand only: a variable that only the right operand constrains is never "
                            "compared, so {y = 1} <= {y = 1, 0 <= x <= 5} answers yes" % (fn["cpk"], fld), fn, sides["L"],
                            sig="leq-left-keys-only:%s" % fld)
    if n == 0:
        ctx.fail("rule C04.r11: no inclusion test walks a map of its left operand (term_domain / uf_domain moved?)")


RULES += [r11_leq_walks_right_map]


def r12_rename_is_exact(ctx):
    ctx.rule("C04.r12", "rename is EXACT in every domain: it never resets a component to top (nor forgets one). The array domains rename the "
             "ghost variables of BOTH operands of an inclusion test; a rename that weakens its value weakens the right operand and "
             "the test answers yes for a left operand that is not included", floor=20)
    n = 0
    seen = set()
    for f in ctx.db.files():
        if not f.startswith("include/crab/domains/"):
            continue
        for fn in ctx.db.fns(f, name="rename"):
            if not fn.get("body") or fn["pk"] in seen or len(fn.get("params", [])) != 2:
                continue
            seen.add(fn["pk"])
            n += 1
            body = fn["body"]
            bad = None
            for x in walk(body):
                lhs = rhs = None
                if x.get("k") == "asg":
                    lhs, rhs = strip(x.get("L")), x.get("R")
                elif x.get("k") == "call" and x.get("op") == "=" and "o" in x and x.get("a"):
                    lhs, rhs = strip(x["o"]), x["a"][0]
                if lhs is not None and is_field(lhs) and is_call(strip_move(rhs), name=("top", "make_top")):
                    bad = (x, "`%s` is reset to top" % lhs.get("n"))
                    break
                if is_call(x, name=("set_to_top",)) and ("o" not in x or is_this(strip(x.get("o"))) or is_field(strip(x.get("o")))):
                    bad = (x, "`%s`" % src(x)[:40])
                    break
            if bad:
                ctx.bad("%s::rename weakens the value (%s): array_adaptive / array_smashing rename the ghost variables of both operands of "
                        "`<=`, so {b = -3} <= {p == q} answers yes through the array domain although p = 1, q = 0 is a state of the left "
                        "operand only" % (fn["cpk"] or fn["pk"], bad[1]), fn, bad[0], sig="rename-resets:%s" % (fn.get("cpk") or "").split("::")[-1])
            else:
                ctx.ok("%s::rename resets nothing" % (fn.get("cpk") or fn["pk"]).split("::")[-1], fn, body)
    if n == 0:
        ctx.fail("rule C04.r12: no rename implementation found")


RULES += [r12_rename_is_exact]


def r13_right_operand_never_joined(ctx):
    ctx.rule("C04.r13", "an inclusion test never replaces (parts of) its RIGHT operand by their join / smashed form: the join of two "
             "partitions or disjuncts also describes what lies between them, so `left <= join(right parts)` does not imply that the "
             "left operand is included in the right one (over-approximating the LEFT operand is fine)", floor=30)
    n = 0
    seen = set()
    for f in ctx.db.files():
        if not f.startswith("include/crab/domains/"):
            continue
        for fn in ctx.db.fns(f, name="operator<="):
            body = fn.get("body")
            if not body or not fn.get("cpk") or len(fn.get("params", [])) != 1 or fn["pk"] + str(fn["line"]) in seen:
                continue
            seen.add(fn["pk"] + str(fn["line"]))
            decls = local_decls(body)
            tainted = set()
            mentions = lambda e: any(isinstance(x, dict) and x.get("k") == "ref" and (is_param(x, fn, 0) or x.get("id") in tainted) for x in walk(e))
            changed = True
            while changed:
                changed = False
                for d in decls.values():
                    if d["id"] not in tainted and "i" in d and mentions(d["i"]):
                        tainted.add(d["id"])
                        changed = True
                for d in decls.values():
                    if d["id"] not in tainted and any(mentions(w) for w in writes_to(body, d["id"])):
                        tainted.add(d["id"])
                        changed = True
            n += 1
            bad = None
            for c in walk(body):
                if c.get("k") != "call":
                    continue
                nm = (callee(c) or {}).get("name") or ""
                isjoin = c.get("op") in ("|", "|=") or nm in ("merge_partitions", "smash", "smash_array", "operator|", "operator|=")
                if not isjoin:
                    continue
                if "ghost" in ((callee(c) or {}).get("cpk") or "").lower():
                    continue        # renaming of ghost variables, checked by C04.r12
                recv = c.get("o")
                operands = ([recv] if recv is not None else []) + list(c.get("a", []))
                if any(mentions(o) for o in operands):
                    bad = c
                    break
            if bad is not None:
                ctx.bad("%s::operator<= joins parts of its RIGHT operand (`%s`) before comparing: {x in [0,6]} <= {x in [0,1]} | {x in [5,6]} "
                        "answers yes although x = 3 is only in the left operand" % (fn["cpk"], src(bad)[:50]), fn, bad,
                        sig="leq-right-joined:%s" % fn["cpk"].split("::")[-1])
            else:
                ctx.ok("%s::operator<= never joins parts of the right operand" % fn["cpk"].split("::")[-1], fn, body)
    if n == 0:
        ctx.fail("rule C04.r13: no inclusion test found")


RULES += [r13_right_operand_never_joined]


def r14_rename_insert_effective(ctx):
    ctx.rule("C04.r14", "zones rename: `vert_map.insert({new_v, dim})` does not overwrite, so on every path that reaches it the target "
             "variable has no entry left (not found, or its stale unconstrained vertex was erased); otherwise the renamed vertex is "
             "reachable by name for printing only and every query sees the target as unconstrained", floor=2)
    n = 0
    for f, cpk in (("include/crab/domains/split_dbm.hpp", "crab::domains::split_dbm_domain"),
                   ("include/crab/domains/sparse_dbm.hpp", "crab::domains::sparse_dbm_domain")):
        fs = [x for x in ctx.db.fns(f, cpk=cpk, name="rename") if x.get("body")]
        if not ctx.need(fs, cpk + "::rename"):
            continue
        fn = fs[0]
        body = fn["body"]
        decls = local_decls(body)
        loops = [l for l in walk(body) if l.get("k") in ("for", "rangefor") and any(is_call(c, name="insert") and is_field(strip(c.get("o")), "vert_map") for c in walk(l.get("b")))]
        if not loops:
            ctx.undecided("%s::rename: the loop that re-inserts the renamed vertex was not found" % cpk, fn, body)
            continue
        loop = loops[0]
        lb = loop.get("b")
        ins = [c for c in walk(lb) if is_call(c, name="insert") and is_field(strip(c.get("o")), "vert_map")][0]
        # the target variable = first component of the inserted pair
        tgt_ids = {x.get("id") for x in walk(ins["a"][0]) if isinstance(x, dict) and x.get("k") == "ref" and x.get("rk") == "local"}
        def unwrap(e):
            e = strip_move(e)
            while isinstance(e, dict) and e.get("k") in ("ctor", "construct") and len(e.get("a", [])) == 1:
                e = strip_move(e["a"][0])
            return e
        finds = {d["id"] for d in walk(lb) if d.get("k") == "decl" and "i" in d and is_call(unwrap(d["i"]), name="find") and
                 is_field(strip(obj(unwrap(d["i"]))), "vert_map") and
                 any(isinstance(x, dict) and x.get("k") == "ref" and x.get("id") in tgt_ids for a in unwrap(d["i"]).get("a", []) for x in walk(a))}

        def gen(x):
            if is_call(x, name="erase") and is_field(strip(x.get("o")), "vert_map") and x.get("a") and \
                    any(isinstance(y, dict) and y.get("k") == "ref" and (y.get("id") in finds or y.get("id") in tgt_ids) for y in walk(x["a"][0])):
                return ("gone",)
            return ()

        def refine(cond, pol):
            p = cmp_parts(cond)
            if p and p[0] in ("==", "!=") and any(isinstance(strip(z), dict) and strip(z).get("id") in finds for z in (p[1], p[2])) and \
                    any(is_call(strip(z), name="end") for z in (p[1], p[2])):
                notfound = (p[0] == "==") == bool(pol)
                return ("gone",) if notfound else ()
            return ()
        fl = paths.MustEvents(gen, refine=refine)
        try:
            fl.run({"k": "seq", "b": [loop]})
        except paths.Unstructured:
            ctx.undecided("%s::rename: unstructured control flow" % cpk, fn, loop)
            continue
        st = fl.at.get(id(ins))
        n += 1
        if st is not None and "gone" in st:
            ctx.ok("%s::rename: the target has no entry when the renamed vertex is inserted" % cpk.split("::")[-1], fn, ins)
        else:
            ctx.bad("%s::rename inserts {new_v, dim} into vert_map while new_v can still have its stale (edge-less) vertex there: the insertion "
                    "is a no-op, rev_map says the renamed vertex is new_v but vert_map[new_v] is the stale one - z <= 7 renamed to y prints "
                    "y <= 7 while d[y] is top and entails(y <= 7) is false" % cpk, fn, ins, sig="rename-insert-noop:%s" % cpk.split("::")[-1])
    if n == 0:
        ctx.fail("rule C04.r14: nothing decided")


RULES += [r14_rename_insert_effective]


def r15_boolnum_is_top_reads_implications(ctx):
    ctx.rule("C04.r15", "flat_boolean_numerical_domain::is_top answers yes only if the product AND the three tables of remembered "
             "implications (Boolean => linear constraints / reference constraints / Booleans) are top: forget(vector), project, rename "
             "and expand return early on is_top(), and `b1 := b0` constrains the state while the product stays top", floor=1)
    FB = "include/crab/domains/flat_boolean_domain.hpp"
    fs = [f for f in ctx.db.fns(FB, name="is_top") if (f.get("cpk") or "").endswith("flat_boolean_numerical_domain") and f.get("body")]
    if not ctx.need(fs, "flat_boolean_numerical_domain::is_top"):
        return
    fn = fs[0]
    read = {deref(x).get("n") if isinstance(x, dict) and x.get("k") != "mem" else x.get("n") for x in walk(fn["body"]) if isinstance(x, dict) and x.get("k") == "mem"}
    need = {"m_product", "m_bool_to_lincsts", "m_bool_to_refcsts", "m_bool_to_bools"}
    missing = sorted(need - read)
    if missing:
        ctx.bad("flat_boolean_numerical_domain::is_top ignores %s: b1 := b0; forget({b0}); assume(b1); assume(!b0) is bottom because forget(vector) "
                "returns early on a `top` value that still remembers b1 => b0" % ", ".join(missing), fn, fn["body"], sig="boolnum-is-top-partial")
    else:
        ctx.ok("is_top reads the product and the three implication tables", fn, fn["body"])


RULES += [r15_boolnum_is_top_reads_implications]
