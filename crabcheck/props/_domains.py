"""Rules over the abstract-domain classes (siblings implementing
abstract_domain_api): lhs-kill coverage (C03.r1), enum-dispatch agreement
(C03.r2), forwarding to the base domain (C12.r1)."""
from ..tree import (walk, walk_with_parents, strip, is_call, is_ref, is_this, is_field, deref, same_expr,
                    src, obj, args, callee)
from .. import paths
from ..match import (strip_move, is_param, rets, nodes_not_in_log, resolve_local, local_decls, writes_to, cmp_parts,
                     guard_truth, atom_truth)
from ._stmts import API

API_BASE = "crab::domains::abstract_domain_api"
# variable-keyed container operations that (re)define the key
ENV_KILL = {"set": 0, "join": 0, "operator-=": 0, "remove": 0, "forget": 0, "erase": 0, "set_bool": 0}


def domain_classes(db, files=None):
    """instantiated classes deriving from abstract_domain_api: qn -> class record"""
    out = {}
    for f in (files or [x for x in db.files() if x.startswith("include/crab/domains/")]):
        for c in db.classes(f, dependent=False):
            if any(b.get("pk") == API_BASE for b in c.get("bases", [])):
                out[c["qn"]] = c
    return out


def written_params(fn):
    """indices of fn's parameters that the API says are (re)defined"""
    nm = fn["name"]
    base = nm[len("backward_"):] if nm.startswith("backward_") else nm
    if base not in API:
        return None
    w, r = API[base]
    np_ = len(fn.get("params", []))
    if base == "apply":
        t0 = (fn["params"][0].get("T") or "") if fn.get("params") else ""
        if "int_conv" in t0:
            return [1]
        return [1]
    return [i for i in w if i < np_]


def _macro_generated(fn):
    m = fn.get("macro") or ""
    return "NOT_IMPLEMENTED" in m


def rooted_at_this(e, decls=None, loopvars=None, depth=0):
    """the expression denotes (a part of) the receiver: this, a field of this,
    the result of an accessor applied to such a part, a local REFERENCE bound to
    one, or the loop variable of a range-for over such a container"""
    e = deref(e)
    if e is None:
        return True
    if not isinstance(e, dict) or depth > 10:
        return False
    k = e.get("k")
    if k == "this":
        return True
    if k == "mem":
        return rooted_at_this(e.get("b"), decls, loopvars, depth + 1)
    if k == "call":
        if "o" in e:
            return rooted_at_this(e["o"], decls, loopvars, depth + 1)
        return False
    if k == "ref" and e.get("rk") == "local":
        if loopvars is not None and e.get("id") in loopvars:
            return rooted_at_this(loopvars[e["id"]], decls, loopvars, depth + 1)
        d = (decls or {}).get(e.get("id"))
        t = (d.get("T") or "") if d is not None else ""
        if d is not None and "i" in d and t.rstrip().endswith("&"):
            return rooted_at_this(d["i"], decls, loopvars, depth + 1)
        if d is not None and ("shared_ptr" in t or t.rstrip().endswith("*")) and decls is not None and "__body__" in decls:
            # a pointer into the receiver's own storage obtained from one of its own methods
            for n in walk(decls["__body__"]):
                rhs = None
                if n.get("k") == "asg" and is_ref(n.get("L")) and strip(n["L"]).get("id") == e.get("id"):
                    rhs = n.get("R")
                elif n.get("k") == "call" and n.get("op") == "=" and is_ref(n.get("o")) and strip(n["o"]).get("id") == e.get("id") and n.get("a"):
                    rhs = n["a"][0]
                if rhs is not None:
                    r = strip_move(rhs)
                    if isinstance(r, dict) and r.get("k") == "call" and rooted_at_this(r, None, None, depth + 1):
                        return True
            if "i" in d:
                r = strip_move(d["i"])
                if isinstance(r, dict) and r.get("k") == "call" and rooted_at_this(r, None, None, depth + 1):
                    return True
    return False


# classes whose variables all live in ONE sub-domain field: an update of an auxiliary (cache) table of such a class does not
# redefine the variable (finding F41: backward_assign_bool_cst cleared the three caches and never touched the product)
PRINCIPAL_FIELD = {"crab::domains::flat_boolean_numerical_domain": "m_product"}


def _root_field(e, decls=None, depth=0):
    """name of the field of *this that the expression is rooted at ('*' for this itself), or None"""
    e = deref(e)
    if e is None:
        return "*"
    if not isinstance(e, dict) or depth > 8:
        return None
    k = e.get("k")
    if k == "this":
        return "*"
    if k == "mem":
        b = deref(e.get("b"))
        if b is None or (isinstance(b, dict) and b.get("k") == "this"):
            return e.get("n")
        return _root_field(e.get("b"), decls, depth + 1)
    if k == "call" and "o" in e:
        return _root_field(e["o"], decls, depth + 1)
    if k == "ref" and e.get("rk") == "local" and decls:
        d = decls.get(e.get("id"))
        if d is not None and "i" in d and (d.get("T") or "").rstrip().endswith("&"):
            return _root_field(d["i"], decls, depth + 1)
    return None


_HELPER_MEMO = {}


def _helper_kills(db, cal, arg_index, depth):
    """does the helper (a function record found through the resolved callee) overwrite / forget its arg_index-th parameter on
    every non-bottom path?  True / False; None when the helper's body is not available (treated as `does not`)"""
    if db is None or depth > 3:
        return None
    key = (cal.get("file"), cal.get("pk"), cal.get("psig"), cal.get("cls"), arg_index)
    if key in _HELPER_MEMO:
        return _HELPER_MEMO[key]
    _HELPER_MEMO[key] = False          # recursion guard
    res = None
    if cal.get("file") and db.has_file(cal["file"]):
        cands = [f for f in db.fns(cal["file"], pk=cal.get("pk")) if f.get("psig") == cal.get("psig") and f.get("cls") == cal.get("cls")]
        if cands:
            h = cands[0]
            if arg_index < len(h.get("params", [])):
                if h.get("const"):
                    res = False
                else:
                    pid = h["params"][arg_index]["id"]
                    try:
                        # a static / traits helper receives the abstract value as a (non-const reference) parameter
                        sp = {pp["id"] for j, pp in enumerate(h.get("params", [])) if j != arg_index and
                              (pp.get("T") or "").rstrip().endswith("&") and not (pp.get("T") or "").lstrip().startswith("const")}
                        allp = [pp["id"] for pp in h.get("params", []) if "variable" in (pp.get("TC") or pp.get("T") or "") and
                                "vector" not in (pp.get("TC") or "")]
                        if pid not in allp:
                            allp.append(pid)
                        g2, lv = kill_events(h, h.get("cls"), allp, db, depth + 1, state_params=sp)
                        fl = _KillFlow(g2, _bottom_refine(h, sp), h)
                        fl.run(h["body"])
                        res = bool(fl.returns) and all(("kill:%s" % pid) in st for r, st in fl.returns)
                    except paths.Unstructured:
                        res = None
    _HELPER_MEMO[key] = res
    return res


def kill_events(fn, cls_qn, wp_ids, db=None, depth=0, state_params=()):
    """gen function for MustEvents: labels 'kill:<param id>'"""
    decls = dict(local_decls(fn["body"]))
    decls["__body__"] = fn["body"]
    loopvars = {}
    for n in walk(fn["body"]):
        if n.get("k") == "rangefor" and isinstance(n.get("v"), dict):
            loopvars[n["v"]["id"]] = n.get("r")
    loopvars.pop("__body__", None)

    def params_in(e):
        out = [x["id"] for x in walk(e) if x.get("k") == "ref" and x.get("rk") == "param" and x.get("id") in wp_ids]
        # region domain: a local bound to the ghost variables of a parameter stands for the parameter
        for x in walk(e):
            if x.get("k") == "ref" and x.get("rk") == "local":
                dd = decls.get(x.get("id"))
                i = dd.get("i") if isinstance(dd, dict) else None
                if i is not None and any(is_call(y, name=("get_or_insert_gvars", "get_gvars")) for y in walk(i)):
                    out += [y["id"] for y in walk(i) if y.get("k") == "ref" and y.get("rk") == "param" and y.get("id") in wp_ids]
        return out

    def gen(n):
        out = []
        k = n.get("k")
        if k == "call" and callee(n):
            nm = callee(n)["name"]
            a = n.get("a", [])
            recv = n.get("o")
            on_this = recv is None or is_this(recv)
            rooted = rooted_at_this(recv, decls, loopvars) if recv is not None else True
            if recv is not None and not rooted and state_params:
                r0 = deref(recv)
                if isinstance(r0, dict) and r0.get("k") == "ref" and r0.get("id") in state_params:
                    rooted = True
                    on_this = True
            if nm in ("set_to_top", "set_to_bottom") and on_this:
                out.extend("kill:%s" % p for p in wp_ids)
            if nm == "operator=" and recv is not None and is_this(recv):
                out.extend("kill:%s" % p for p in wp_ids)
            base = nm[len("backward_"):] if nm.startswith("backward_") else nm
            pos = None
            if base in API and rooted and (recv is not None or (callee(n).get("cls") == cls_qn and not callee(n).get("static"))):
                pos = list(API[base][0])
                if base == "apply":
                    pos = [1]
            elif nm in ENV_KILL and rooted and recv is not None:
                pos = [ENV_KILL[nm]]
            elif nm in ENV_KILL and recv is None and callee(n).get("cls") == cls_qn:
                pos = [ENV_KILL[nm]]
            pf = PRINCIPAL_FIELD.get((cls_qn or "").split("<")[0])
            if pos is not None and pf is not None and recv is not None and _root_field(recv, decls) not in (pf, "*"):
                pos = None          # an auxiliary table of a class whose variables live in `pf`
            if nm in ("assign", "forget") and recv is not None and callee(n).get("cls") != cls_qn:
                # region domain: ghost variables of a program variable, `get_or_insert_gvars(P)` (directly or through a local),
                # assigned / forgotten in the base domain
                r0 = recv
                for _ in range(3):
                    r1 = resolve_local(decls["__body__"], r0, decls)
                    if r1 is r0:
                        break
                    r0 = r1
                if any(is_call(y, name=("get_or_insert_gvars", "get_gvars")) for y in walk(r0)):
                    out.extend("kill:%s" % p for p in params_in(r0))
            if pos is None and nm in ("insert", "emplace", "insert_or_assign") and recv is not None and rooted:
                # (re)binding the parameter as a key of one of the value's own tables
                for x in a:
                    out.extend("kill:%s" % p for p in params_in(x))
            if pos is not None:
                for i in pos:
                    if i < len(a):
                        out.extend("kill:%s" % p for p in params_in(a[i]))
            elif (on_this and callee(n).get("cls") == cls_qn) or (recv is None and any(is_this(x) for x in a)):
                # delegation: a private helper of the same class, or a static helper / traits function that
                # receives *this together with the parameter
                for ai, x in enumerate(a):
                    xs = strip(x)
                    if isinstance(xs, dict) and xs.get("k") == "ref" and xs.get("id") in wp_ids:
                        hk = _helper_kills(db, callee(n), ai, depth)
                        if hk is True or (hk is None and db is None):
                            out.append("kill:%s" % xs["id"])
        if k in ("asg",) and is_this(n.get("L")):
            out.extend("kill:%s" % p for p in wp_ids)
        return out
    return gen, loopvars


def _bottom_refine(fn, state_params=()):
    def atom(c):
        c = strip(c)
        if isinstance(c, dict) and c.get("k") == "call" and callee(c) and callee(c)["name"] == "is_bottom":
            if c.get("o") is None or rooted_at_this(c.get("o")):
                return 1
            r0 = deref(c.get("o"))
            if isinstance(r0, dict) and r0.get("k") == "ref" and r0.get("id") in state_params:
                return 1
        return 0

    # single named exemption: array_adaptive_domain::get_scalar(a, cell) cannot fail for a cell that mk_named_cell has just
    # created (all callers of the backward helpers do); its failure branch only prints a warning
    d0 = local_decls(fn["body"])

    def lookup_failed(c):
        c = strip(c)
        if isinstance(c, dict) and c.get("k") == "call" and callee(c) and callee(c)["name"] == "operator bool":
            c = strip(c.get("o"))
        if isinstance(c, dict) and c.get("k") == "ref" and c.get("rk") == "local":
            dd = d0.get(c.get("id")) or {}
            if "i" in dd and any(is_call(y, name="get_scalar") for y in walk(dd["i"])):
                return -1          # the atom is "lookup failed"; the reference itself is its negation
        return 0

    def refine(cond, pol):
        if atom_truth(cond, pol, atom, fn["body"]) is True:
            return None           # accepted early exit: bottom stays bottom
        if atom_truth(cond, pol, lookup_failed, fn["body"]) is True:
            return None
        return ()
    return refine


class _KillFlow(paths.MustEvents):
    """MustEvents + `if (x == y)` aliasing: on the branch where two variable parameters are equal a kill of one is a kill
    of the other (x := y op k with x == y kills y and means x)"""

    def __init__(self, gen, refine, fn):
        paths.MustEvents.__init__(self, gen, refine=refine)
        self._pids = {p["id"] for p in fn.get("params", [])}

    def refine(self, cond, st, pol):
        out = paths.MustEvents.refine(self, cond, st, pol)
        if out is None:
            return None
        c, p = strip(cond), pol
        while isinstance(c, dict) and c.get("k") == "un" and c.get("op") == "!":
            c, p = strip(c.get("e")), not p
        pp = cmp_parts(c)
        if pp and ((pp[0] == "==" and p) or (pp[0] == "!=" and not p)):
            a, b = strip(pp[1]), strip(pp[2])
            if all(isinstance(x, dict) and x.get("k") == "ref" and x.get("id") in self._pids for x in (a, b)):
                extra = set()
                if ("kill:%s" % a["id"]) in out:
                    extra.add("kill:%s" % b["id"])
                if ("kill:%s" % b["id"]) in out:
                    extra.add("kill:%s" % a["id"])
                out = out | frozenset(extra)
        return out


def _witness_flags(body, fl, wp_ids):
    """{flag id: kill labels} for local bools initialised to false whose only writes are `flag = true` at points where the
    labels already hold"""
    d = local_decls(body)
    out = {}
    for dd in d.values():
        i = strip(dd.get("i")) if "i" in dd else None
        if not (isinstance(i, dict) and i.get("k") == "lit" and i.get("v") == "false"):
            continue
        ws = writes_to(body, dd["id"])
        if not ws:
            continue
        labs = None
        okf = True
        for w in ws:
            r = strip(w.get("R")) if w.get("k") == "asg" else None
            if not (isinstance(r, dict) and r.get("k") == "lit" and r.get("v") == "true"):
                okf = False
                break
            st = fl.at.get(id(w))
            if st is None:
                continue
            cur = {l for l in st if l.startswith("kill:")}
            labs = cur if labs is None else (labs & cur)
        if okf and labs:
            out[dd["id"]] = sorted(labs)
    return out


KILL_EXEMPT = {
    "numerical_packing_domain::apply(crab::domains::int_conv_operation_t": "x := cast(x) with src == dst is skipped on purpose: the domain "
        "ignores bit-widths, so the cast of a variable onto itself is the identity",
}


def lhs_kill_rule(ctx, rid, classes=None, out_of_fragment=None, backward=False, only=None):
    """on every non-bottom path to a normal return the written parameter of a
    transfer function is redefined / forgotten"""
    out_of_fragment = out_of_fragment or {}
    dom = domain_classes(ctx.db)
    n_cls = set()
    # C11 quantifies over domains that implement backward operations: a class whose backward_assign has no effect at all
    # (empty, statistics or a "not implemented" warning only) declares that it does not
    no_backward = {}
    if backward:
        for f in sorted(set(c["file"] for c in dom.values())):
            for fn in ctx.db.fns(f, name="backward_assign"):
                if fn.get("cls") not in dom:
                    continue
                eff = [n for n, ps in nodes_not_in_log(fn["body"], lambda x: x.get("k") in ("call", "asg"))
                       if not (n.get("k") == "call" and callee(n) and
                               (callee(n)["name"] in ("count", "domain_name", "operator+", "ScopedCrabStats", "basic_string", "c_str", "is_bottom", "is_top") or
                                (callee(n).get("qn") or "").startswith("std::") or
                                (callee(n).get("cpk") or "").startswith("crab::ScopedCrabStats") or
                                (callee(n).get("cpk") or "").startswith("crab::CrabStats")))]
                if not eff:
                    no_backward[fn["cpk"]] = fn
    for f in sorted(set(c["file"] for c in dom.values())):
        for fn in ctx.db.fns(f):
            if fn.get("cls") not in dom or fn.get("static"):
                continue
            cname = fn["cpk"].split("::")[-1]
            if classes and cname not in classes:
                continue
            if only is not None and fn["name"] not in only:
                continue
            wp = written_params(fn)
            if not wp or fn["name"] in ("forget", "intrinsic", "backward_intrinsic", "operator-=", "set_to_bottom"):
                continue
            if fn["name"].startswith("weak_") or fn["name"] == "ref_store" or (fn["name"].startswith("array_") and fn["name"] != "array_load"):
                # weak updates join with the old value (nothing is killed); array variables live in the array
                # domains' own maps (C14)
                continue
            if fn["name"].startswith("backward_") != backward:
                continue
            if backward and fn["cpk"] in no_backward:
                ctx.exempt(cname, "backward_assign has no effect: the domain does not implement backward operations (outside C11's "
                           "quantifier `all domains implementing backward operations`)", rid=rid)
                continue
            if backward and fn["name"].startswith("backward_array_") and fn["name"] != "backward_array_load":
                # the written operand is an array variable: numerical domains do not track it, and the array domains never
                # transfer a constraint of the postcondition to the array's contents in their backward operations
                continue
            key = "%s|%s|%s(%s)" % (rid, fn["cpk"], fn["name"], fn["psig"])
            if cname in out_of_fragment:
                ctx.skipped(key, rid=rid)
                continue
            ex = [v for k, v in KILL_EXEMPT.items() if ("%s::%s(%s" % (cname, fn["name"], fn["psig"])).startswith(k)]
            if ex:
                ctx.exempt("%s::%s" % (cname, fn["name"]), ex[0], rid=rid)
                continue
            if "DEFAULT_SELECT" in (fn.get("macro") or ""):
                ctx.skipped(key, rid=rid)      # lambda-based kernel, decided by the select-kernel rule
                continue
            if _macro_generated(fn) and only is None and not (backward and "ARRAY_OPERATIONS_NOT_IMPLEMENTED" in (fn.get("macro") or "")):
                ctx.exempt("%s::%s" % (cname, fn["name"]), "generated by %s: statement kind documented as unsupported by the domain" % fn.get("macro"), rid=rid)
                continue
            wp_ids = [fn["params"][i]["id"] for i in wp if "variable" in (fn["params"][i].get("TC") or fn["params"][i].get("T") or "") and
                      "vector" not in (fn["params"][i].get("TC") or "")]
            if not wp_ids:
                continue
            body = fn["body"]
            try:
                gen, loopvars = kill_events(fn, fn["cls"], wp_ids, ctx.db)
                def _install(flobj, _gen=gen, _loopvars=loopvars):
                    # a range-for over a container of sub-values (disjuncts, packs) that kills the parameter in each
                    # element kills it in the whole value (an empty container is bottom)
                    orig = flobj._loop

                    def _loop(n, st, _o=orig):
                        out = _o(n, st)
                        if out is not None and ((n.get("k") == "rangefor" and isinstance(n.get("v"), dict) and
                                                 rooted_at_this(n.get("r"), local_decls(body), _loopvars)) or n.get("k") == "for"):
                            inner = paths.MustEvents(_gen)
                            inner._brk, inner._cont, inner._gotos, inner._labels_seen = [[]], [[]], {}, set()
                            end = inner.stmt(n.get("b"), frozenset())
                            sts = [x for x in [end] + inner._cont[0] if x is not None]
                            if sts:
                                common = frozenset.intersection(*sts)
                                out = out | common
                        return out
                    flobj._loop = _loop
                fl = paths.MustEvents(gen, refine=_bottom_refine(fn))
                _install(fl)
                fl.run(body)
                # witness flags:  bool done = false; ... { kill(x); done = true; } ... if (!done) { ... }
                # every `flag = true` happens where the parameter is already killed, so `flag` implies killed
                flags = _witness_flags(body, fl, wp_ids)
                if flags and any(("kill:%s" % pid) not in st for pid in wp_ids for r, st in fl.returns):
                    base_refine = _bottom_refine(fn)

                    def refine2(cond, pol, _f=flags, _b=base_refine):
                        r = _b(cond, pol)
                        if r is None:
                            return None
                        c, p = strip(cond), pol
                        while isinstance(c, dict) and c.get("k") == "un" and c.get("op") == "!":
                            c, p = strip(c.get("e")), not p
                        if isinstance(c, dict) and c.get("k") == "ref" and c.get("id") in _f and p:
                            return tuple(r) + tuple(_f[c["id"]])
                        return r
                    fl = paths.MustEvents(gen, refine=refine2)
                    _install(fl)
                    fl.run(body)
            except paths.Unstructured as e:
                ctx.skipped(key, rid=rid)
                continue
            n_cls.add(cname)
            for pid in wp_ids:
                pname = [p["n"] for p in fn["params"] if p["id"] == pid][0]
                miss = [(r, st) for r, st in fl.returns if ("kill:%s" % pid) not in st]
                if not miss:
                    ctx.ok("%s::%s redefines %s on every non-bottom path" % (cname, fn["name"], pname), fn, None, rid=rid, key=key + "|" + pname)
                else:
                    r = miss[0][0]
                    ctx.bad("%s::%s can return (on a non-bottom path) without redefining or forgetting its result parameter `%s`: the "
                            "abstract value keeps what was known about `%s` before the operation, which is unsound for every input" %
                            (cname, fn["name"], pname, pname), fn, r if r is not None else body,
                            sig="lhs-not-killed:%s::%s(%s):%s" % (fn["cpk"], fn["name"], fn["psig"], pname), rid=rid, key=key + "|" + pname)
    return n_cls


# ------------------------------------------------------------------ C03.r2
from . import _enumswitch as es

OPS_TABLE = {
    "OP_ADDITION": {"+", "+="}, "OP_SUBTRACTION": {"-", "-="}, "OP_MULTIPLICATION": {"*", "*="}, "OP_SDIV": {"/", "/=", "SDiv"},
    "OP_UDIV": {"UDiv"}, "OP_SREM": {"SRem"}, "OP_UREM": {"URem"},
    "OP_AND": {"And", "BitwiseAnd", "&"}, "OP_OR": {"Or", "BitwiseOr", "|"}, "OP_XOR": {"Xor", "BitwiseXor", "^"},
    "OP_SHL": {"Shl", "BitwiseShl"}, "OP_LSHR": {"LShr", "BitwiseLShr"}, "OP_ASHR": {"AShr", "BitwiseAShr"},
    "OP_BAND": {"And", "&", "operator&"}, "OP_BOR": {"Or", "|"}, "OP_BXOR": {"Xor", "^"},
}
ALL_SCALAR_OPS = set().union(*OPS_TABLE.values())


def _scalar_ops_in(stmts, fn):
    out = set()
    for s in stmts:
        for n in walk(s):
            if n.get("k") != "call" or not callee(n):
                continue
            nm = callee(n)["name"]
            op = n.get("op")
            # only operations on VALUES (scalars such as intervals), not on the domain itself or on streams
            cpk = callee(n).get("cpk") or ""
            if cpk.startswith("crab::crab_os") or cpk.startswith("std::"):
                continue
            if nm in ALL_SCALAR_OPS:
                out.add(nm)
            elif op in ALL_SCALAR_OPS and nm.startswith("operator"):
                ps = callee(n).get("psig") or ""
                if "crab_os" in ps or "linear_expression" in ps or "variable" in ps or "linear_constraint" in ps:
                    continue
                out.add(op)
    return out


def enum_dispatch_rule(ctx, rid):
    """case OP_X of apply(op, ...) invokes the scalar operation of the same meaning"""
    dom = domain_classes(ctx.db)
    n = 0
    for f in sorted(set(c["file"] for c in dom.values())):
        for fn in ctx.db.fns(f):
            if fn.get("cls") not in dom or fn["name"] not in ("apply", "apply_binary_bool"):
                continue
            sw = es.find_switch_on_param(fn, 0)
            if sw is None:
                continue
            cname = fn["cpk"].split("::")[-1]
            named = set()
            enum_t = fn["params"][0].get("TC") or ""
            items = None
            for e in ctx.db.enums("include/crab/domains/abstract_domain_operators.hpp"):
                if e["pk"] in enum_t:
                    items = [i["n"] for i in e["items"]]
            for labels, stmts in es.switch_cases(sw):
                ops = _scalar_ops_in(stmts, fn)
                for lab in labels:
                    labs = [lab]
                    if lab == "default":
                        labs = [i for i in (items or []) if i not in named]
                        if len(labs) != 1:
                            continue
                    for l2 in labs:
                        named.add(l2)
                        want = OPS_TABLE.get(l2)
                        if want is None or not ops:
                            continue
                        n += 1
                        key = "%s|%s|%s|%s" % (rid, fn["pk"], fn["psig"], l2)
                        if ops & want:
                            ctx.ok("%s::apply[%s] uses %s" % (cname, l2, sorted(ops & want)), fn, stmts[0] if stmts else sw, rid=rid, key=key)
                        else:
                            ctx.bad("%s::%s handles %s with the scalar operation(s) %s; the operation of that meaning is %s" %
                                    (cname, fn["name"], l2, sorted(ops), sorted(want)), fn, stmts[0] if stmts else sw,
                                    sig="enum-dispatch:%s:%s:%s" % (fn["pk"], fn["psig"][:40], l2), rid=rid, key=key)
    if n == 0:
        ctx.fail("rule %s: no operator switch found in the domain classes" % rid)


# ------------------------------------------------------------------ C03.r5
FB = "include/crab/domains/flat_boolean_domain.hpp"
FBN = "crab::domains::flat_boolean_numerical_domain"
BOOL_MAPS = ("m_bool_to_lincsts", "m_bool_to_refcsts", "m_bool_to_bools")
USES = "the implication sets of the other Booleans (m_bool_to_bools values)"
ALL_CACHES = BOOL_MAPS + (USES,)
BOOL_WRITERS = {"set_bool": 0, "assign_bool_cst": 0, "assign_bool_ref_cst": 0, "assign_bool_var": 0, "apply_binary_bool": 1,
                "select_bool": 0}


class _MayMust(paths.Flow):
    """path-set analysis: the state is a set of label sets, one per class of
    paths (labels accumulated along the path); join = union of the classes.
    Exact for the finitely many event labels used here."""

    def __init__(self, gen_may, gen_must, refine=None):
        paths.Flow.__init__(self)
        self.gen_may, self.gen_must, self._ref = gen_may, gen_must, refine

    def initial(self):
        return frozenset([frozenset()])

    def join(self, a, b):
        return a | b

    def transfer(self, n, st):
        g = list(self.gen_may(n)) + list(self.gen_must(n))
        if g:
            g = frozenset(g)
            return frozenset(p | g for p in st)
        return st

    def refine(self, cond, st, pol):
        if self._ref is not None and self._ref(cond, pol) is None:
            return None
        return st


_MAP_HELPER_MEMO = {}


def _map_helper_updates(db, cal, map_idx, key_idx):
    """does the helper (re)bind or remove, in its map_idx-th parameter, the key given as its key_idx-th parameter on every path?"""
    k = (cal.get("file"), cal.get("pk"), cal.get("psig"), map_idx, key_idx)
    if k in _MAP_HELPER_MEMO:
        return _MAP_HELPER_MEMO[k]
    res = False
    if cal.get("file") and db.has_file(cal["file"]):
        hs = [f for f in db.fns(cal["file"], pk=cal.get("pk")) if f.get("psig") == cal.get("psig")]
        if hs and len(hs[0].get("params", [])) > max(map_idx, key_idx):
            h = hs[0]
            mid, kid = h["params"][map_idx]["id"], h["params"][key_idx]["id"]

            def gen(n):
                if n.get("k") == "call" and callee(n) and callee(n)["name"] in ("set", "operator-=", "remove") and n.get("o") is not None and n.get("a"):
                    o, a0 = strip(n["o"]), strip(n["a"][0])
                    if isinstance(o, dict) and o.get("k") == "ref" and o.get("id") == mid and isinstance(a0, dict) and a0.get("id") == kid:
                        return ("upd",)
                return ()
            try:
                fl = paths.MustEvents(gen)
                fl.run(h["body"])
                res = bool(fl.returns) and all("upd" in st for r, st in fl.returns)
            except paths.Unstructured:
                res = False
    _MAP_HELPER_MEMO[k] = res
    return res


def cache_invalidation_rule(ctx, rid):
    """flat_boolean_numerical_domain: on every path that (re)defines a Boolean
    variable in the Boolean component, each of the three maps caching facts
    about the variable's previous definition is updated for that variable"""
    fns = [f for f in ctx.db.fns(FB, cpk=FBN) if not f.get("static")]
    if not ctx.need(fns, "flat_boolean_numerical_domain methods", rid):
        return
    by_cls = {}
    for f in fns:
        by_cls.setdefault(f["cls"], []).append(f)
    n_obl = 0
    for cls, fs in by_cls.items():
        summ = {}      # (name, psig) -> {param idx: (writes_bool_may, maps_must)}

        def analyse(fn):
            body = fn["body"]
            pids = {p["id"]: i for i, p in enumerate(fn.get("params", []))}

            def pidx(e):
                e = strip(e)
                if isinstance(e, dict) and e.get("k") == "ref" and e.get("id") in pids:
                    return pids[e["id"]]
                return None

            def gen_may(n):
                out = []
                if n.get("k") == "call" and callee(n):
                    nm = callee(n)["name"]
                    a = n.get("a", [])
                    if nm in BOOL_WRITERS and n.get("o") is not None and rooted_at_this(n["o"]) and \
                            any(x.get("k") == "mem" and x.get("n") == "m_product" for x in walk(n["o"])):
                        i = BOOL_WRITERS[nm]
                        if i < len(a) and pidx(a[i]) is not None:
                            out.append("bw:%d" % pidx(a[i]))
                    if (n.get("o") is None or is_this(n.get("o"))) and callee(n).get("cls") == cls:
                        hs = summ.get((nm, callee(n).get("psig")))
                        if hs:
                            for j, (w, maps) in hs.items():
                                if j < len(a) and pidx(a[j]) is not None and w:
                                    out.append("bw:%d" % pidx(a[j]))
                return out

            def gen_must(n):
                out = []
                if n.get("k") == "call" and callee(n):
                    nm = callee(n)["name"]
                    a = n.get("a", [])
                    o = n.get("o")
                    if o is not None and is_field(o) and deref(o).get("n") in BOOL_MAPS and is_this(deref(o).get("b")):
                        if nm in ("set", "operator-=", "remove") and a and pidx(a[0]) is not None:
                            out.append("upd:%s:%d" % (deref(o)["n"], pidx(a[0])))
                    if (o is None or is_this(o)) and callee(n).get("cls") == cls:
                        hs = summ.get((nm, callee(n).get("psig")))
                        if hs:
                            for j, (w, maps) in hs.items():
                                if j < len(a) and pidx(a[j]) is not None:
                                    out.extend("upd:%s:%d" % (m, pidx(a[j])) for m in maps)
                        # occurrences of the Boolean inside the implication sets of OTHER Booleans: a helper (or an inline
                        # transform_if) that filters m_bool_to_bools and removes the variable from the sets
                        if nm == "transform_if" and a and is_field(a[0]) and deref(a[0]).get("n") == "m_bool_to_bools" and \
                                any(is_call(y, name="operator-=") for x in a[1:] for y in walk(x)):
                            for x in a[1:]:
                                for y in walk(x):
                                    if y.get("k") == "ref" and y.get("id") in pids:
                                        out.append("upd:%s:%d" % (USES, pids[y["id"]]))
                        # helper taking the map itself by reference: propagate_assign_bool_var(MAP, x, y, neg).  Credited only
                        # when the helper's own body updates the map for that key on EVERY path (finding F68: the negated branch
                        # did nothing when y has no cached constraint)
                        for j, x in enumerate(a):
                            if is_field(x) and deref(x).get("n") in BOOL_MAPS:
                                for y in a[j + 1:j + 2]:
                                    if pidx(y) is not None and _map_helper_updates(ctx.db, callee(n), j, j + 1):
                                        out.append("upd:%s:%d" % (deref(x)["n"], pidx(y)))
                return out
            fl = _MayMust(gen_may, gen_must, refine=_bottom_refine(fn))
            try:
                fl.run(body)
            except paths.Unstructured:
                return None, None
            return fl, pids

        for _round in range(3):
            for fn in fs:
                fl, pids = analyse(fn)
                if fl is None:
                    continue
                res = {}
                allp = [p for r, st in fl.returns for p in st]
                for i in range(len(fn.get("params", []))):
                    w = any(("bw:%d" % i) in p for p in allp)
                    maps = set(ALL_CACHES)
                    for p in allp:
                        maps &= set(m for m in ALL_CACHES if ("upd:%s:%d" % (m, i)) in p)
                    res[i] = (w, maps if allp else set())
                summ[(fn["name"], fn["psig"])] = res
        for fn in fs:
            fl, pids = analyse(fn)
            if fl is None:
                continue
            for i, p in enumerate(fn.get("params", [])):
                for r, st in fl.returns:
                    for path in st:
                        if ("bw:%d" % i) not in path:
                            continue
                        missing = [m for m in ALL_CACHES if ("upd:%s:%d" % (m, i)) not in path]
                        n_obl += 1
                        if not missing:
                            ctx.ok("%s(%s): Boolean `%s` rewritten and all cached facts about it updated" % (fn["name"], fn["psig"][:30], p["n"]),
                                   fn, r, rid=rid)
                        else:
                            ctx.bad("flat_boolean_numerical_domain::%s can redefine the Boolean `%s` and return without updating %s for it: "
                                    "the constraints cached for the PREVIOUS definition of `%s` are re-applied by a later assume_bool(%s)" %
                                    (fn["name"], p["n"], ", ".join(missing), p["n"], p["n"]), fn, r if r is not None else fn["body"],
                                    sig="stale-cache:%s(%s):%s" % (fn["name"], fn["psig"][:50], ",".join(missing)), rid=rid)
    if n_obl == 0:
        ctx.fail("rule %s: no Boolean writer found in flat_boolean_numerical_domain" % rid)


# ------------------------------------------------------------------ C03.r4 default kernels
def _const_bool_locals(body):
    out = {}
    for d in local_decls(body).values():
        if "i" in d and not writes_to(body, d["id"]):
            i = strip(d["i"])
            if isinstance(i, dict) and i.get("k") == "lit" and i.get("v") in ("true", "false"):
                out[d["id"]] = (i["v"] == "true")
    return out


def _bool_value(e, consts):
    e = strip(e)
    if not isinstance(e, dict):
        return None
    if e.get("k") == "lit" and e.get("v") in ("true", "false"):
        return e["v"] == "true"
    if e.get("k") == "ref" and e.get("id") in consts:
        return consts[e["id"]]
    if e.get("k") == "un" and e.get("op") == "!":
        v = _bool_value(e.get("e"), consts)
        return None if v is None else (not v)
    return None


def select_kernel_rule(ctx, rid):
    """select / select_bool: the copy constrained with cond is paired with the
    THEN value and the copy constrained with not(cond) with the ELSE value; an
    infeasible branch selects the other value; the general case joins"""
    dom = domain_classes(ctx.db)
    n = 0
    for f in sorted(set(c["file"] for c in dom.values())):
        for fn in ctx.db.fns(f):
            if fn.get("cls") not in dom or fn["name"] not in ("select", "select_bool") or len(fn.get("params", [])) != 4:
                continue
            body = fn["body"]
            decls = local_decls(body)
            consts = _const_bool_locals(body)
            cond_id = fn["params"][1]["id"]
            then_id, else_id = fn["params"][2]["id"], fn["params"][3]["id"]
            cname = fn["cpk"].split("::")[-1]
            # copies of *this and their polarity
            pol = {}
            for d in decls.values():
                if "i" not in d:
                    continue
                i = strip_move(d["i"])
                is_copy = is_this(i) or (isinstance(d["i"], dict) and d["i"].get("k") == "ctor" and d["i"].get("a") and is_this(d["i"]["a"][0]))
                if not is_copy:
                    continue
                for x in walk(body):
                    if x.get("k") == "call" and is_ref(x.get("o")) and strip(x["o"]).get("id") == d["id"] and callee(x):
                        nm = callee(x)["name"]
                        a = x.get("a", [])
                        if nm == "operator+=" and a and any(y.get("k") == "ref" and y.get("id") == cond_id for y in walk(a[0])):
                            pol[d["id"]] = -1 if any(is_call(y, name="negate") for y in walk(a[0])) else 1
                        if nm == "assume_bool" and len(a) == 2 and is_ref(a[0]) and strip(a[0]).get("id") == cond_id:
                            v = _bool_value(a[1], consts)
                            if v is not None:
                                pol[d["id"]] = -1 if v else 1
            if len(pol) < 2:
                continue          # a domain-specific implementation outside the kernel shape
            n += 1
            g = paths.guards(body)

            def which(e):
                ids = set(y.get("id") for y in walk(e) if y.get("k") == "ref")
                if then_id in ids and else_id not in ids:
                    return 1
                if else_id in ids and then_id not in ids:
                    return -1
                return 0
            good = True
            for x, ps in nodes_not_in_log(body, lambda y: y.get("k") == "call" and callee(y) and callee(y)["name"] in
                                          ("assign", "assign_bool_var", "set", "set_bool") and len(y.get("a", [])) >= 2 and
                                          is_ref(y["a"][0]) and strip(y["a"][0]).get("id") == fn["params"][0]["id"]):
                w = which(x["a"][1])
                if w == 0:
                    continue
                recv = x.get("o")
                if recv is not None and is_ref(recv) and strip(recv).get("id") in pol:
                    p = pol[strip(recv)["id"]]
                    if p == w:
                        ctx.ok("%s::%s: copy with %scond gets the %s value" % (cname, fn["name"], "" if p > 0 else "not ", "then" if w > 0 else "else"), fn, x, rid=rid)
                    else:
                        good = False
                        ctx.bad("%s::%s assigns the %s value to the copy of the state that assumed %s: the two branches of the select "
                                "are crossed" % (cname, fn["name"], "then" if w > 0 else "else", "cond" if p > 0 else "not(cond)"), fn, x,
                                sig="select-crossed:%s::%s" % (fn["pk"], "then" if w > 0 else "else"), rid=rid)
                elif recv is None or is_this(recv):
                    # shortcut: guarded by COPY.is_bottom()
                    for c, gp in g.get(id(x), ()):
                        if isinstance(c, tuple) or not gp:
                            continue
                        cc = strip(c)
                        if is_call(cc, name="is_bottom") and is_ref(cc.get("o")) and strip(cc["o"]).get("id") in pol:
                            p = pol[strip(cc["o"])["id"]]
                            if w == -p:
                                ctx.ok("%s::%s: %s infeasible -> %s value" % (cname, fn["name"], "cond" if p > 0 else "not(cond)", "else" if w < 0 else "then"), fn, x, rid=rid)
                            else:
                                good = False
                                ctx.bad("%s::%s: when %s is infeasible the result is the %s value - the value of the infeasible branch" %
                                        (cname, fn["name"], "cond" if p > 0 else "not(cond)", "then" if w > 0 else "else"), fn, x,
                                        sig="select-shortcut:%s::%s" % (fn["pk"], "then" if w > 0 else "else"), rid=rid)
            # general case joins
            asg = [x for x in walk(body) if x.get("k") == "call" and x.get("op") == "=" and is_this(x.get("o"))]
            for a in asg:
                v = strip_move(a["a"][0])
                if isinstance(v, dict) and v.get("k") == "call" and v.get("op") in ("|", "&", "||", "&&"):
                    if v["op"] == "|":
                        ctx.ok("%s::%s: *this = copy1 | copy2" % (cname, fn["name"]), fn, a, rid=rid)
                    else:
                        ctx.bad("%s::%s combines the two branch states with `%s`; a select must JOIN them" % (cname, fn["name"], v["op"]), fn, a,
                                sig="select-combine:%s" % fn["pk"], rid=rid)
    if n == 0:
        ctx.fail("rule %s: no select kernel found" % rid)


def weak_kernel_rule(ctx, rid):
    """weak_* : the strong operation is applied to a COPY which is then joined into *this"""
    dom = domain_classes(ctx.db)
    n = 0
    for f in sorted(set(c["file"] for c in dom.values())):
        for fn in ctx.db.fns(f):
            if fn.get("cls") not in dom or not fn["name"].startswith("weak_assign"):
                continue
            if "DEFAULT_WEAK" not in (fn.get("macro") or ""):
                continue
            body = fn["body"]
            decls = local_decls(body)
            strong = fn["name"][len("weak_"):]
            copies = [d["id"] for d in decls.values() if "i" in d and (is_this(strip_move(d["i"])) or
                      (d["i"].get("k") == "ctor" and d["i"].get("a") and is_this(d["i"]["a"][0])))]
            n += 1
            calls = [x for x in walk(body) if is_call(x, name=strong)]
            on_copy = calls and all(is_ref(c.get("o")) and strip(c["o"]).get("id") in copies for c in calls)
            joins = [x for x in walk(body) if x.get("k") == "call" and x.get("op") in ("|=", "&=", "=") and is_this(x.get("o"))]
            okj = len(joins) == 1 and joins[0]["op"] == "|=" and is_ref(joins[0]["a"][0]) and strip(joins[0]["a"][0]).get("id") in copies
            cname = fn["cpk"].split("::")[-1]
            if on_copy and okj:
                ctx.ok("%s::%s: copy.%s(...); *this |= copy" % (cname, fn["name"], strong), fn, joins[0], rid=rid)
            else:
                ctx.bad("%s::%s must apply %s to a COPY of the state and join the copy into *this (found %s on %s, combined with %s)" %
                        (cname, fn["name"], strong, strong if calls else "no call", "a copy" if on_copy else "the state itself",
                         [j["op"] for j in joins]), fn, body, sig="weak-kernel:%s::%s" % (fn["cpk"], fn["name"]), rid=rid)
    if n == 0:
        ctx.fail("rule %s: no DEFAULT_WEAK_* expansion found" % rid)


def entails_kernel_rule(ctx, rid):
    """DEFAULT_ENTAILS: bottom -> true, tautology -> true, contradiction -> false, else is_bottom(copy + not c)"""
    dom = domain_classes(ctx.db)
    n = 0
    for f in sorted(set(c["file"] for c in dom.values())):
        for fn in ctx.db.fns(f):
            if fn.get("cls") not in dom or fn["name"] != "entails" or "DEFAULT_ENTAILS" not in (fn.get("macro") or ""):
                continue
            body = fn["body"]
            g = paths.guards(body)
            n += 1
            cname = fn["cpk"].split("::")[-1]
            good = True
            for r in rets(body):
                v = strip(r.get("v"))
                if not (isinstance(v, dict) and v.get("k") == "lit"):
                    continue
                val = v["v"] == "true"

                def mk(nm, on_param):
                    def atom(c):
                        c = strip(c)
                        if is_call(c, name=nm) and ((on_param and is_param(c.get("o"), fn, 0)) or (not on_param and (c.get("o") is None or is_this(c.get("o"))))):
                            return 1
                        return 0
                    return atom
                reasons = [("is_bottom", False, True), ("is_tautology", True, True), ("is_contradiction", True, False)]
                okr = any(guard_truth(g.get(id(r), ()), mk(nm, onp), body) is True and val == want for nm, onp, want in reasons)
                if okr:
                    ctx.ok("%s::entails: constant answer `%s` under the right special case" % (cname, v["v"]), fn, r, rid=rid)
                else:
                    good = False
                    ctx.bad("%s::entails answers `%s` under %s; expected bottom -> true, tautology -> true, contradiction -> false" %
                            (cname, v["v"], [src(c)[:30] for c, p in g.get(id(r), ()) if not isinstance(c, tuple)]), fn, r,
                            sig="entails-const:%s:%s" % (fn["cpk"], v["v"]), rid=rid)
            lam = [x for x in walk(body) if x.get("k") == "lambda"]
            okl = False
            for l in lam:
                lb = l["b"]
                neg = any(is_call(x, name="negate") for x in walk(lb))
                ret_bot = any(is_call(strip(r.get("v")), name="is_bottom") for r in rets(lb, into_lambdas=True))
                okl = okl or (neg and ret_bot)
            if okl:
                ctx.ok("%s::entails: is_bottom(copy + not c)" % cname, fn, lam[0], rid=rid)
            else:
                ctx.bad("%s::entails must decide entailment as is_bottom() of a copy constrained with the NEGATED constraint" % cname, fn, body,
                        sig="entails-kernel:%s" % fn["cpk"], rid=rid)
    if n == 0:
        ctx.fail("rule %s: no DEFAULT_ENTAILS expansion found" % rid)
