"""C18 - liveness and assertion-dependence facts over-approximate real dependences."""
from ..tree import (walk, walk_with_parents, strip, is_call, is_ref, is_this, is_field, deref, same_expr,
                    src, obj, args, callee)
from .. import paths
from ..match import (strip_move, is_param, rets, nodes_not_in_log, resolve_local, local_decls, writes_to, cmp_parts,
                     guard_truth)
from . import _stmts

LEVEL_TEXT = ("Clause-level static rules: every variable-bearing operand of each of the 33 statement classes is registered as def or "
              "use in its constructor (and every operand the forward transformer reads is registered as use); the kill/gen sets are "
              "built scanning statements backwards with defs processed before uses, and applied as (in - kill) + gen; merge is union, "
              "the boundary is the function outputs, direction backward; dead = block variables - live-out; the assertion crawler "
              "overrides visit for every statement kind that has a def or a use (the visitor defaults are empty) and rewrites a "
              "dependence set as (d - defs) + uses. Control-dependence graph construction and inter-procedural summary "
              "application are NOT decided."
              " The backward boundary value is given to the exit block whatever else holds; the fact of an assertion is joined with the incoming fact; set renaming is simultaneous; per-statement results are replayed from the exit facts.")
ASSUMPTIONS = ["the kill/gen fixpoint iterator visits every block until stabilisation (graph algorithm, not decided)"]

LIVE = "include/crab/analysis/dataflow/liveness.hpp"
CRAWL = "include/crab/analysis/dataflow/assertion_crawler.hpp"
KG = "include/crab/fixpoint/killgen_fixpoint_iterator.hpp"
OPS = "crab::analyzer::liveness_analysis_operations"


def r1_registration(ctx):
    ctx.rule("C18.r1", "every variable-bearing operand of a statement is registered as def or use", floor=70)
    _stmts.registration_rule(ctx, "C18.r1")


def _range_uses(loop, names):
    r = loop.get("r") if loop.get("k") == "rangefor" else None
    return r is not None and all(any(is_call(x, name=n) for x in walk(r)) for n in names)


def r2_killgen(ctx):
    ctx.rule("C18.r2", "kill/gen: statements scanned backwards; defs (kill += d; gen -= d) before uses (gen += u); analyze = (in - kill) + gen", floor=3)
    fs = ctx.db.fns(LIVE, pk=OPS + "::init_fixpoint")
    ctx.need(fs, "liveness init_fixpoint")
    for fn in fs:
        body = fn["body"]
        loops = [l for l in walk(body) if l.get("k") == "rangefor"]
        stmt_loops = [l for l in loops if isinstance(l.get("v"), dict) and
                      any(is_call(x, name="get_live") and is_ref(x.get("o")) and strip(x["o"]).get("id") == l["v"]["id"]
                          for x in walk(l.get("b")))]
        if len(stmt_loops) != 1:
            ctx.undecided("cannot find the statement loop of init_fixpoint", fn, body)
            continue
        sl = stmt_loops[0]
        if _range_uses(sl, ("rbegin", "rend")):
            ctx.ok("statements scanned from last to first (rbegin..rend)", fn, sl)
        else:
            ctx.bad("liveness scans the statements of a block forwards (`%s`): a use after a redefinition in the same block "
                    "is attributed to the block entry" % src(sl.get("r")), fn, sl, sig="liveness-forward-scan")
        defl = [l for l in walk(sl.get("b")) if l.get("k") == "rangefor" and _range_uses(l, ("defs_begin", "defs_end"))]
        usel = [l for l in walk(sl.get("b")) if l.get("k") == "rangefor" and _range_uses(l, ("uses_begin", "uses_end"))]
        if len(defl) != 1 or len(usel) != 1:
            ctx.bad("init_fixpoint must process the defs and the uses of every statement (found %d def loops, %d use loops)" %
                    (len(defl), len(usel)), fn, sl, sig="liveness-loops")
            continue
        dl, ul = defl[0], usel[0]
        dv, uv = dl["v"]["id"], ul["v"]["id"]
        decls = local_decls(body)

        def upd(loop, vid):
            out = []
            for n in walk(loop.get("b")):
                if n.get("k") == "call" and n.get("op") in ("+=", "-=") and "o" in n and is_ref(n["o"]):
                    a = strip(n["a"][0])
                    if isinstance(a, dict) and a.get("id") == vid:
                        out.append((strip(n["o"]).get("n"), n["op"]))
            return sorted(out)
        du, uu = upd(dl, dv), upd(ul, uv)
        names = {d["n"] for d in decls.values()}
        kills = [x for x in du if x[1] == "+="]
        gens_minus = [x for x in du if x[1] == "-="]
        gens_plus = [x for x in uu if x[1] == "+="]
        okshape = len(kills) == 1 and len(gens_minus) == 1 and len(gens_plus) == 1 and len(uu) == 1 and len(du) == 2 and \
            gens_minus[0][0] == gens_plus[0][0] and kills[0][0] != gens_plus[0][0]
        if okshape:
            ctx.ok("defs: %s += d; %s -= d / uses: %s += u" % (kills[0][0], gens_minus[0][0], gens_plus[0][0]), fn, dl)
        else:
            ctx.bad("kill/gen update is %s for defs and %s for uses; expected kill += d, gen -= d and gen += u" % (du, uu), fn, dl,
                    sig="liveness-killgen-shape")
        # order: def loop before use loop in the statement loop body
        order = [x for x in walk(sl.get("b")) if x is dl or x is ul]
        if order and order[0] is dl:
            ctx.ok("defs processed before uses (x = x + 1 keeps x live)", fn, dl)
        else:
            ctx.bad("uses are processed before defs: `x = x + 1` would remove x from gen although the statement reads it",
                    fn, ul, sig="liveness-use-before-def")
        # unreachable statement stops the scan and leaves the block out of the map
    for fn in ctx.db.fns(LIVE, pk=OPS + "::analyze"):
        body = fn["body"]
        ups = [n for n in walk(body) if n.get("k") == "call" and n.get("op") in ("+=", "-=") and "o" in n and is_param(n["o"], fn, 1)]
        seq = [(n["op"], (deref(strip(n["a"][0])) or {}).get("n")) for n in ups]
        if seq == [("-=", "first"), ("+=", "second")]:
            ctx.ok("analyze: in -= kill; in += gen", fn, ups[0])
        else:
            ctx.bad("liveness analyze applies %s; expected `in -= kill` followed by `in += gen`" % seq, fn, body, sig="liveness-analyze-order")


def r3_boundary(ctx):
    ctx.rule("C18.r3", "liveness: backward, merge = union, boundary = function outputs; iterator merges all successors", floor=4)
    for fn in ctx.db.fns(LIVE, pk=OPS + "::is_forward"):
        rs = rets(fn["body"])
        if len(rs) == 1 and strip(rs[0]["v"]).get("v") == "false":
            ctx.ok("is_forward() == false", fn, rs[0])
        else:
            ctx.bad("liveness must be a backward analysis (is_forward() returns `%s`)" % src(rs[0].get("v") if rs else None), fn, fn["body"], sig="liveness-direction")
    for fn in ctx.db.fns(LIVE, pk=OPS + "::merge"):
        rs = rets(fn["body"])
        v = strip_move(rs[0].get("v")) if rs else None
        if is_call(v, op="|") :
            ctx.ok("merge = d1 | d2", fn, rs[0])
        else:
            ctx.bad("liveness merge is `%s`, expected the union d1 | d2 (a variable live on some successor is live)" % src(v), fn, fn["body"], sig="liveness-merge")
    for fn in ctx.db.fns(LIVE, pk=OPS + "::entry"):
        body = fn["body"]
        adds = [n for n in walk(body) if n.get("k") == "call" and n.get("op") == "+=" and any(is_call(x, name="get_output_name") for x in walk(n))]
        loops = [l for l in walk(body) if l.get("k") == "for" and any(is_call(x, name="get_num_outputs") for x in walk(l))]
        if adds and loops:
            ctx.ok("entry(): every function output is live at exit", fn, adds[0])
        else:
            ctx.bad("the boundary value of liveness no longer contains every function output", fn, body, sig="liveness-boundary")
    fs = ctx.db.fns(KG, name="run_bwd_fixpo")
    ctx.need(fs, "killgen run_bwd_fixpo")
    for fn in fs:
        body = fn["body"]
        loops = [l for l in walk(body) if l.get("k") == "rangefor" and any(is_call(x, name="next_nodes") for x in walk(resolve_local(body, l.get("r"))))]
        good = False
        for l in loops:
            if any(is_call(x, name="merge") for x in walk(l.get("b"))) and not any(x.get("k") in ("continue", "break") for x in walk(l.get("b"))):
                good = True
                ctx.ok("backward iterator merges the IN of every successor", fn, l)
        if not good:
            ctx.bad("the backward kill/gen iterator does not merge the facts of all successors (next_nodes)", fn, body, sig="killgen-succ-merge")


def r4_dead(ctx):
    ctx.rule("C18.r4", "dead(bb) = variables of bb - live_out(bb)", floor=1)
    fs = ctx.db.fns(LIVE, pk="crab::analyzer::live_and_dead_analysis::exec")
    ctx.need(fs, "live_and_dead_analysis::exec")
    for fn in fs:
        body = fn["body"]
        d = local_decls(body)
        subs = [n for n in walk(body) if n.get("k") == "call" and n.get("op") == "-=" and "o" in n and is_ref(n["o"])]
        okk = False
        for s in subs:
            lhs = d.get(strip(s["o"]).get("id"))
            rhs = d.get(strip(s["a"][0]).get("id")) if is_ref(s["a"][0]) else None
            if lhs and rhs and "i" in lhs and "i" in rhs:
                l_ok = any(is_call(x, name="live") for x in walk(lhs["i"]))
                r_ok = any(is_call(x, name="get") and is_field(obj(x), "m_live") for x in walk(rhs["i"]))
                if l_ok and r_ok:
                    okk = True
                    ctx.ok("dead_set = bb.live(); dead_set -= live_out", fn, s)
                elif any(is_call(x, name="get") for x in walk(lhs["i"])) and any(is_call(x, name="live") for x in walk(rhs["i"])):
                    ctx.bad("dead variables computed as live_out - block variables (operands swapped): live variables are reported dead",
                            fn, s, sig="dead-swapped")
                    okk = True
        if not okk:
            ctx.bad("cannot find `dead = bb.live() - live_out`", fn, body, sig="dead-shape")


REQUIRED_EMPTY_OK = {"unreachable_stmt": "no operand"}


def r5_crawler_visits(ctx):
    ctx.rule("C18.r5", "the assertion crawler overrides visit for every statement kind with a def or a use", floor=25)
    infos = _stmts.statement_table(ctx.db)
    fs = [f for f in ctx.db.fns(CRAWL, name="visit") if (f.get("cpk") or "").endswith("::transfer_function")]
    if not ctx.need(fs, "assertion crawler transfer_function::visit"):
        return
    have = {}
    for fn in fs:
        info = _stmts.stmt_info_for(fn, infos)
        if info is not None:
            have[info.name] = fn
    for info in sorted(infos.values(), key=lambda i: i.name):
        if not (info.defs or info.uses):
            continue
        fn = have.get(info.name)
        if fn is None:
            ctx.bad("assertion_crawler::transfer_function has no visit(%s&): the empty statement_visitor default is used, so the "
                    "dependences flowing through this statement kind (defs %s <- uses %s) are dropped" %
                    (info.name, sorted(info.defs), sorted(info.uses)), fs[0], None,
                    sig="crawler-missing-visit:%s" % info.name)
            continue
        calls = [callee(x)["name"] for x in walk(fn["body"]) if x.get("k") == "call" and is_this(x.get("o")) and callee(x)]
        if any(c in ("propagate_data", "propagate_data_and_control", "process_assertion") for c in calls) or info.name in ("havoc_stmt", "callsite_stmt"):
            ctx.ok("visit(%s) propagates dependences" % info.name, fn, None)
        else:
            ctx.bad("visit(%s&) of the assertion crawler does not propagate data dependences" % info.name, fn, fn["body"],
                    sig="crawler-empty-visit:%s" % info.name)


def r6_data_deps(ctx):
    ctx.rule("C18.r6", "add_data_deps: on a def hit the set becomes (d - defs) + uses, in that order", floor=1)
    fs = [f for f in ctx.db.fns(CRAWL, name="operator()") if (f.get("cpk") or "").endswith("::add_data_deps")]
    ctx.need(fs, "add_data_deps::operator()")
    for fn in fs:
        body = fn["body"]
        g = paths.guards(body)
        ups = [n for n in walk(body) if n.get("k") == "call" and n.get("op") in ("+=", "-=") and "o" in n and is_param(n["o"], fn, 0)]
        # updates guarded by `!(d & m_defs).is_bottom()`
        def def_hit(c):
            c = strip(c)
            if is_call(c, name="is_bottom") and any(is_field(x, "m_defs") for x in walk(obj(c))) and any(is_param(x, fn, 0) for x in walk(obj(c)) if x.get("k") == "ref"):
                return -1
            return 0
        hit = [n for n in ups if guard_truth(g.get(id(n), ()), def_hit, body) is True]
        seq = [(n["op"], (deref(strip(n["a"][0])) or {}).get("n")) for n in hit]
        if seq == [("-=", "m_defs"), ("+=", "m_uses")]:
            ctx.ok("def hit: d -= m_defs; d += m_uses", fn, hit[0])
        else:
            ctx.bad("on a def hit add_data_deps applies %s; expected d -= m_defs then d += m_uses (a variable both used and "
                    "defined, x = x + 1, must stay in the dependence set)" % seq, fn, body, sig="datadeps-order")


RULES = [r1_registration, r2_killgen, r3_boundary, r4_dead, r5_crawler_visits, r6_data_deps]


def r7_accumulate(ctx):
    ctx.rule("C18.r7", "kill/gen fixpoint: when the new fact is not included in the stored one, the stored fact becomes merge(new, old) - "
             "facts are never dropped between sweeps (the assertion crawler's transfer function registers an assertion only on its first "
             "visit, so it is not idempotent across sweeps)", floor=2)
    # Is any client transfer function "first visit only" (finding F75: process_assertion returned early for a registered
    # assertion)?  Only then does the solver have to accumulate with merge; with re-generating (monotone) transfer functions
    # `stored = new` under `!(new <= old)` is the same fixpoint and must not be reported.
    first_visit_only = False
    for pf in ctx.db.fns(CRAWL, name="process_assertion"):
        gp = paths.guards(pf["body"])
        dpf = local_decls(pf["body"])

        def mentions_find(c, dpf=dpf):
            for y in walk(c):
                if is_call(y, name="find"):
                    return True
                if y.get("k") == "ref" and y.get("rk") == "local":
                    dd = dpf.get(y.get("id")) or {}
                    if "i" in dd and any(is_call(z, name="find") for z in walk(dd["i"])):
                        return True
            return False
        for r in rets(pf["body"]):
            for c, pol in gp.get(id(r), ()):
                if not isinstance(c, tuple) and mentions_find(c):
                    first_visit_only = True
    for name, mp in (("run_fwd_fixpo", "m_out_map"), ("run_bwd_fixpo", "m_in_map")):
        fs = ctx.db.fns(KG, name=name)
        if not ctx.need(fs, "killgen " + name):
            continue
        for fn in fs:
            body = fn["body"]
            d = local_decls(body)
            g = paths.guards(body)
            found = False
            for a in walk(body):
                if not (a.get("k") == "call" and a.get("op") == "=" and "o" in a and a.get("a")):
                    continue
                L = strip(a["o"])
                if not (isinstance(L, dict) and L.get("k") == "call" and L.get("op") == "[]" and is_field(L.get("o"), mp)):
                    continue
                # the guard  !(NEW <= OLD)
                new = old = None
                for c, p in g.get(id(a), ()):
                    if isinstance(c, tuple):
                        continue
                    cc, pol = strip(c), p
                    while isinstance(cc, dict) and ((cc.get("k") == "un" and cc.get("op") == "!") or
                                                    (cc.get("k") == "call" and cc.get("op") == "!" and "o" in cc and not cc.get("a"))):
                        cc = strip(cc.get("e") if cc.get("k") == "un" else cc.get("o"))
                        pol = not pol
                    pp = cmp_parts(cc)
                    if pp and pp[0] == "<=" and not pol:
                        new, old = strip(pp[1]), strip(pp[2])
                if new is None:
                    continue
                found = True
                R = strip_move(a["a"][0])
                okm = is_call(R, name="merge") and len(R.get("a", [])) == 2 and \
                    ((same_expr(strip(R["a"][0]), new) and same_expr(strip(R["a"][1]), old)) or
                     (same_expr(strip(R["a"][0]), old) and same_expr(strip(R["a"][1]), new)))
                # old must be the previously stored value of the same entry
                ro = resolve_local(body, old, d)
                okold = isinstance(strip(ro), dict) and strip(ro).get("op") == "[]" and is_field(strip(ro).get("o"), mp)
                if okm and okold:
                    ctx.ok("%s: %s = merge(%s, %s)" % (name, src(L)[:30], src(new), src(old)), fn, a)
                elif not first_visit_only and same_expr(strip(R), new):
                    ctx.ok("%s: %s = %s (every transfer function re-generates its facts, so replacing is the same fixpoint)" %
                           (name, src(L)[:30], src(new)), fn, a)
                else:
                    ctx.bad("%s stores `%s` when the new fact is not included in the old one; it must store merge(%s, %s): otherwise facts "
                            "found in an earlier sweep are forgotten (the assertion crawler adds an assertion's own operands only the first "
                            "time it visits the assertion) and a non-monotone transfer function may oscillate" %
                            (name, src(R)[:50], src(new), src(old)), fn, a, sig="killgen-no-accumulate:%s" % name)
            if not found:
                ctx.undecided("%s: cannot find the guarded update of %s" % (name, mp), fn, body)


RULES += [r7_accumulate]


def r8_boundary_at_exit(ctx):
    ctx.rule("C18.r8", "backward kill/gen fixpoint: the boundary value (analysis.entry(): the function outputs are live) is given to the "
             "EXIT block of the CFG, not to whichever block comes first in the iteration order", floor=1)
    fs = ctx.db.fns(KG, name="run_bwd_fixpo")
    if not ctx.need(fs, "killgen run_bwd_fixpo"):
        return
    for fn in fs:
        body = fn["body"]
        d = local_decls(body)
        conds = [x for x in walk(body) if x.get("k") == "cond" and is_call(strip_move(x.get("t")), name="entry")]
        if len(conds) != 1:
            ctx.undecided("run_bwd_fixpo: the selection of the boundary value (`cond ? analysis.entry() : bottom`) was not found", fn, body)
            continue
        c = conds[0]

        def ev(e, env, depth=0):
            e = strip(resolve_local(body, e, d))
            if not isinstance(e, dict) or depth > 8:
                return None
            if e.get("k") == "cond":
                t = ev(e.get("c"), env, depth + 1)
                if t is None:
                    return None
                return ev(e.get("t") if t else e.get("e"), env, depth + 1)
            if e.get("k") == "un" and e.get("op") == "!":
                r = ev(e.get("e"), env, depth + 1)
                return None if r is None else (not r)
            if e.get("k") == "bin" and e.get("op") in ("&&", "||"):
                a, b = ev(e.get("L"), env, depth + 1), ev(e.get("R"), env, depth + 1)
                if e["op"] == "&&":
                    return False if (a is False or b is False) else (True if (a and b) else None)
                return True if (a is True or b is True) else (False if (a is False and b is False) else None)
            if is_call(e, name="has_exit"):
                return env["has_exit"]
            pp = cmp_parts(e)
            if pp and pp[0] == "==":
                if any(is_call(y, name="exit") for y in walk(e)):
                    return env["is_exit"]
                if any(isinstance(strip(z), dict) and strip(z).get("k") == "lit" and strip(z).get("v") == "0" for z in (pp[1], pp[2])):
                    return env["first"]
            # any other condition is a free Boolean: the verdict must not depend on it
            key = src(e)
            env.setdefault("seen", set()).add(key)
            return env.get("free", {}).get(key)

        def all_values(base):
            probe = dict(base)
            ev(c.get("c"), probe)
            names = sorted(probe.get("seen", ()))
            if len(names) > 5:
                return None, names
            out = set()
            for m in range(1 << len(names)):
                env = dict(base)
                env["free"] = {nm: bool((m >> i) & 1) for i, nm in enumerate(names)}
                out.add(ev(c.get("c"), env))
            return out, names
        v1, free1 = all_values({"has_exit": True, "is_exit": True, "first": False})
        v2, free2 = all_values({"has_exit": True, "is_exit": False, "first": True})
        r1 = None if v1 is None or None in v1 else (True if v1 == {True} else False if v1 == {False} else "mixed")
        r2 = None if v2 is None or None in v2 else (True if v2 == {True} else False if v2 == {False} else "mixed")
        if r1 is True and r2 is False:
            ctx.ok("boundary value given to m_cfg.exit()", fn, c)
        elif r1 is None or r2 is None:
            ctx.undecided("run_bwd_fixpo: cannot evaluate the boundary condition `%s`" % src(c.get("c"))[:60], fn, c)
        elif r1 == "mixed" or (r1 is False and r2 is False):
            ctx.bad("run_bwd_fixpo gives the boundary value to the exit block only when `%s` also holds: when it does not (an exit block "
                    "with a successor, e.g. a function that returns from its loop header) the function outputs are dead at the end of "
                    "every block that does not read them and the inter-procedural assertion crawler loses the `output -> {output}` seed"
                    % "`, `".join(free1)[:120], fn, c, sig="boundary-exit-conditional")
        else:
            ctx.bad("run_bwd_fixpo gives the boundary value under `%s`, i.e. to the first block of the iteration order even when that is not "
                    "the exit block (a sink block that does not reach the exit sorts first): nothing is live at the end of the real exit "
                    "block and DCE removes assignments to function outputs" % src(resolve_local(body, c.get("c"), d))[:60], fn, c,
                    sig="boundary-not-at-exit")


RULES += [r8_boundary_at_exit]


def r9_unreachable_statement(ctx):
    ctx.rule("C18.r9", "liveness: the kill/gen sets of a block are built from ALL the statements that precede an `unreachable` statement "
             "- the backward walk over the statements never stops at it (no break / return in the loop) and every block gets a "
             "kill/gen entry; `b: assert(x >= 1); unreachable;` uses x", floor=2)
    fs = [f for f in ctx.db.fns(LIVE, name="init_fixpoint")]
    if not ctx.need(fs, "liveness_analysis_operations::init_fixpoint", "C18.r9"):
        return
    from .. import paths as _p
    for fn in fs[:1]:
        body = fn["body"]
        inner = [l for l in walk(body) if l.get("k") in ("rangefor", "for") and any(is_call(c, name=("get_live", "is_unreachable")) for c in walk(l.get("b")))]
        inner = [l for l in inner if not any(m is not l and m in inner for m in walk(l.get("b")) if isinstance(m, dict))] or inner
        if not inner:
            ctx.fail("rule C18.r9: statement loop not found in liveness init_fixpoint")
            return
        stmt_loop = inner[-1]
        brk = [x for x in walk(stmt_loop.get("b")) if x.get("k") in ("break", "ret")]
        if brk:
            ctx.bad("liveness init_fixpoint leaves the backward walk over the statements of a block (`%s`) - presumably at an "
                    "`unreachable` statement: the uses of the statements BEFORE it are lost, so x is dead before "
                    "`b: assert(x >= 1); unreachable;`" % brk[0].get("k"), fn, brk[0], sig="liveness-walk-stops-at-unreachable")
        else:
            ctx.ok("the statement walk is never left early", fn, stmt_loop)
        g = _p.guards(body)
        ins = [c for c in walk(body) if is_call(c, name=("insert", "emplace")) and is_field(obj(c), "m_liveness_map")]
        for c in ins:
            conds = [cnd for cnd, pol in g.get(id(c), ()) if not isinstance(cnd, tuple)]
            if conds:
                ctx.bad("liveness init_fixpoint records the kill/gen sets of a block only under `%s`: a block without an entry is "
                        "analysed as if it used nothing" % src(conds[-1])[:40], fn, c, sig="liveness-entry-conditional")
            else:
                ctx.ok("every block gets a kill/gen entry", fn, c)
        if not ins:
            ctx.fail("rule C18.r9: m_liveness_map is never filled")


RULES += [r9_unreachable_statement]



def r10_assertion_regenerated(ctx):
    ctx.rule("C18.r10", "assertion crawler: process_assertion produces the fact `assertion -> its operands` on EVERY visit of the "
             "statement (the id is allocated once, the fact is not): a recursive function is analysed several times with the same id "
             "map and each analysis replaces the previous results", floor=1)
    fs = ctx.db.fns(CRAWL, name="process_assertion")
    if not ctx.need(fs, "assertion_crawler process_assertion", "C18.r10"):
        return
    seen = set()
    for fn in fs:
        if fn.get("cpk") in seen:
            continue
        seen.add(fn.get("cpk"))
        body = fn["body"]

        def gen(n):
            if n.get("k") == "call" and callee(n) and callee(n)["name"] == "set" and n.get("o") is not None and any(is_call(y, name="get_first") for y in walk(n["o"])):
                return ("fact",)
            return ()
        try:
            fl = paths.MustEvents(gen)
            fl.run(body)
        except paths.Unstructured:
            ctx.skipped("C18.r10", rid="C18.r10")
            continue
        miss = [r for r, st in fl.returns if "fact" not in st]
        if miss:
            r = miss[0]
            ctx.bad("assertion crawler: process_assertion can return without recording the assertion's own operands (a first-visit-only "
                    "early return): in the second analysis of a recursive function its assertions are never generated again and "
                    "f:exit, which contains assert(r >= 0), reports {}", fn, r if r is not None else body, sig="assertion-fact-first-visit-only")
        else:
            ctx.ok("process_assertion records the fact on every path", fn, body)


RULES += [r10_assertion_regenerated]


def r11_assertion_fact_joined(ctx):
    ctx.rule("C18.r11", "assertion crawler: the fact stored for an assertion at the assertion itself is the JOIN of its operands with the "
             "fact that reaches the statement from its successors for the same assertion (inside a loop the variables that flow into "
             "it through the back edge arrive there); a plain overwrite `set(a, uses)` loses them", floor=1)
    fs = ctx.db.fns(CRAWL, name="process_assertion")
    if not ctx.need(fs, "assertion_crawler process_assertion", "C18.r11"):
        return
    seen = set()
    for fn in fs:
        if fn.get("cpk") in seen:
            continue
        seen.add(fn.get("cpk"))
        body = fn["body"]
        decls = local_decls(body)
        sets = [n for n in walk(body) if n.get("k") == "call" and callee(n) and callee(n)["name"] == "set" and n.get("o") is not None
                and any(is_call(y, name="get_first") for y in walk(n["o"])) and len(n.get("a", [])) == 2]
        for s in sets:
            key, val = s["a"]
            # every expression that flows into the stored value: the argument itself and, if it is a local, all that is written to it
            srcs = [val]
            v = strip_move(val)
            if isinstance(v, dict) and v.get("k") == "ref" and v.get("rk") == "local":
                d = decls.get(v.get("id"))
                if d is not None and "i" in d:
                    srcs.append(d["i"])
                for w in writes_to(body, v["id"]):
                    srcs.append(w)
            # one more step of local def-use: locals mentioned there stand for their initialisers
            for e in list(srcs):
                for x in walk(e):
                    if isinstance(x, dict) and x.get("k") == "ref" and x.get("rk") == "local" and x.get("id") in decls and "i" in decls[x["id"]]:
                        srcs.append(decls[x["id"]]["i"])
            old = [c for e in srcs for c in walk(e) if isinstance(c, dict) and c.get("k") == "call" and callee(c) and
                   callee(c)["name"] in ("operator[]", "at", "lookup") and c.get("o") is not None and any(is_call(y, name="get_first") for y in walk(c["o"]))
                   and c.get("a") and same_expr(strip(c["a"][0]), strip(key))]
            if old:
                ctx.ok("set(a, uses | first[a]): the incoming fact of the same assertion is kept", fn, s)
            else:
                ctx.bad("assertion crawler: process_assertion OVERWRITES the fact of the assertion with its own operands: in "
                        "`body: assert(x >= 1); x := y; goto head` the variable y reaches the assertion through the back edge, arrives at "
                        "the assertion from its successors and is dropped there - {x} is reported at every block instead of {x, y}",
                        fn, s, sig="assertion-fact-overwritten")
        if not sets:
            ctx.undecided("process_assertion: no `first.set(assertion, fact)` found", fn, body)


RULES += [r11_assertion_fact_joined]


def r12_simultaneous_rename(ctx):
    ctx.rule("C18.r12", "renaming the variables of a dependence set (caller/callee names at a call site) is SIMULTANEOUS: no new name is added "
             "to the set while memberships of old names are still being tested, otherwise swapped names (`first(p,q)` called as "
             "`first(q,p)`) are renamed twice and the assertion is reported to depend on the wrong variable", floor=2)
    DD = "include/crab/domains/discrete_domains.hpp"
    fs = [f for f in ctx.db.fns(DD, name="rename") if len(f.get("params", [])) == 2 and f.get("body")]
    if not ctx.need(fs, "discrete_domain / set_domain rename", "C18.r12"):
        return
    seen = set()
    for fn in fs:
        if fn.get("cpk") in seen:
            continue
        seen.add(fn.get("cpk"))
        body = fn["body"]
        uses_param = lambda e, idx: any(is_param(x, fn, idx) for x in walk(e) if isinstance(x, dict) and x.get("k") == "ref")
        bad = None
        tests = 0
        for l in [x for x in walk(body) if x.get("k") in ("for", "rangefor", "while")]:
            lb = l.get("b")
            test = [c for c in walk(lb) if c.get("k") == "call" and callee(c) and callee(c)["name"] in ("contain", "count", "find", "contains")
                    and any(uses_param(a, 0) for a in c.get("a", []))]
            ins = [c for c in walk(lb) if c.get("k") == "call" and callee(c) and callee(c)["name"] in ("operator+=", "insert", "emplace", "add")
                   and ("o" not in c or is_this(strip(c.get("o"))) or is_field(strip(c.get("o"))))
                   and any(uses_param(a, 1) for a in c.get("a", []))]
            tests += len(test)
            if test and ins:
                bad = ins[0]
        if bad is not None:
            ctx.bad("%s::rename adds to[i] to the set inside the loop that tests the membership of from[i]: with from = [p,q], to = [q,p] the "
                    "set {p} becomes {q} and then {p} again" % fn["cpk"], fn, bad, sig="rename-sequential:%s" % fn["cpk"].split("::")[-1])
        elif tests:
            ctx.ok("%s::rename: memberships are tested before any new name is added" % fn["cpk"].split("::")[-1], fn, body)
        else:
            ctx.undecided("%s::rename: no membership test of the old names found" % fn["cpk"], fn, body)


RULES += [r12_simultaneous_rename]


def r13_per_statement_replay(ctx):
    ctx.rule("C18.r13", "assertion crawler, per-statement results: the backward replay of the statements of a block starts from the facts at "
             "the EXIT of the block (the table filled from the solver's OUT map), not from the facts at its entry", floor=1)
    fs = [f for f in ctx.db.fns(CRAWL, name="get_results") if len(f.get("params", [])) == 2 and f.get("body")
          and any(x.get("k") == "rangefor" or x.get("k") == "for" for x in walk(f["body"]))]
    ex = [f for f in ctx.db.fns(CRAWL, name="exec") if f.get("body")]
    if not ctx.need(fs, "assertion_crawler::get_results(block, map)", "C18.r13") or not ctx.need(ex, "assertion_crawler::exec", "C18.r13"):
        return
    # which table is filled from which side of the solver
    filled = {}
    for l in [x for x in walk(ex[0]["body"]) if x.get("k") == "rangefor"]:
        side_ = "out" if any(is_call(c, name=("out_begin", "out_end")) for c in walk(l.get("r"))) else \
                "in" if any(is_call(c, name=("in_begin", "in_end")) for c in walk(l.get("r"))) else None
        for c in walk(l.get("b")):
            if is_call(c, name=("insert", "emplace")) and is_field(strip(c.get("o"))):
                filled[strip(c["o"]).get("n")] = side_
    seen = set()
    for fn in fs:
        if fn.get("cpk") in seen:
            continue
        seen.add(fn.get("cpk"))
        body = fn["body"]
        decls = local_decls(body)
        vis = [d for d in decls.values() if "transfer_function" in (d.get("t") or d.get("T") or "") or (d.get("n") == "vis")]
        vis = [d for d in vis if isinstance(strip(d.get("i")), dict) and strip(d["i"]).get("a")]
        if not vis:
            ctx.undecided("get_results(block, map): the transfer function of the replay was not found", fn, body)
            continue
        seed = strip(strip(vis[0]["i"])["a"][0])
        flds = []
        for x in walk(seed):
            if isinstance(x, dict) and x.get("k") == "ref" and x.get("rk") == "local":
                r = resolve_local(body, x, decls)
                flds += [strip(c["o"]).get("n") for c in walk(r) if is_call(c, name=("find", "at", "operator[]")) and is_field(strip(c.get("o")))]
        flds += [strip(c["o"]).get("n") for c in walk(seed) if is_call(c, name=("find", "at", "operator[]")) and is_field(strip(c.get("o")))]
        sides = {filled.get(f) for f in flds}
        if sides == {"out"}:
            ctx.ok("the replay starts from %s (filled from the OUT map)" % flds[0], fn, vis[0])
        elif "in" in sides:
            ctx.bad("assertion_crawler::get_results(block, map) replays the statements of the block backwards starting from `%s`, the facts at "
                    "the ENTRY of the block: for b1: y := z; x := y; assert(x >= 1) the pre-state of `x := y` is reported as {z} "
                    "instead of {y}" % [f for f in flds if filled.get(f) == "in"][0], fn, vis[0], sig="per-stmt-replay-from-entry")
        else:
            ctx.undecided("get_results(block, map): cannot tell which table `%s` seeds the replay" % src(seed)[:40], fn, vis[0])


RULES += [r13_per_statement_replay]
