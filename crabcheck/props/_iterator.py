"""Rules over the interleaved forward fixpoint iterator, shared by C01/C05/C06.

Anchor: include/crab/fixpoint/interleaved_fixpoint_iterator.hpp
"""
from ..tree import (walk, walk_with_parents, strip, is_call, is_ref, is_this, is_field, deref,
                    same_expr, same_var, src, children, callee, callee_name, args, obj)
from .. import paths
from ..match import (resolve_local, local_decls, writes_to, cmp_parts, guard_truth,
                     rets, is_param, strip_move, nodes_not_in_log, exits_of_loop, in_log)

FILE = "include/crab/fixpoint/interleaved_fixpoint_iterator.hpp"
ITER = "ikos::interleaved_fwd_fixpoint_iterator"
WTOIT = "ikos::interleaved_fwd_fixpoint_iterator_impl::wto_iterator"


def _fns(ctx, pk, psig_contains=None):
    fs = ctx.db.fns(FILE, pk=pk)
    if psig_contains is not None:
        fs = [f for f in fs if psig_contains in f["psig"]]
    ctx.need(fs, "no instantiation of %s" % pk)
    return fs


# ------------------------------------------------------------ extrapolate
def _delay_atom(fn):
    """atom: `iteration <= m_params.get_widening_delay()` on the 2nd parameter"""
    def atom(c):
        p = cmp_parts(c)
        if not p:
            return 0
        op, l, r = p
        def is_it(x):
            return is_param(x, fn, 1)
        def is_delay(x):
            x = resolve_local(fn["body"], x)        # `const unsigned delay = m_params.get_widening_delay();`
            return is_call(x, name="get_widening_delay") and is_field(obj(x), "m_params")
        if is_it(l) and is_delay(r):
            return {"<=": 1, ">": -1}.get(op, 0)
        if is_delay(l) and is_it(r):
            return {">=": 1, "<": -1}.get(op, 0)
        return 0
    return atom


def _mentions_delay(c, fn):
    if any(is_call(x, name="get_widening_delay") for x in walk(c)):
        return True
    for x in walk(c):
        if x.get("k") == "ref" and x.get("rk") == "local":
            r = resolve_local(fn["body"], x)
            if r is not x and any(is_call(y, name="get_widening_delay") for y in walk(r)):
                return True
    return False


def extrapolate_rule(ctx, rid_join, rid_widen):
    """rid_join  (C06.r1): the join branch is taken iff iteration <= delay
       rid_widen (C05.r1): otherwise the result is before.widening_thresholds(after,.)
                           or before || after  -- receiver is the OLD iterate"""
    for fn in _fns(ctx, ITER + "::extrapolate"):
        body = fn["body"]
        g = paths.guards(body)
        atom = _delay_atom(fn)
        rs = rets(body)
        if not ctx.need(rs, "extrapolate has no return"):
            continue
        # every comparison against the delay must be the exact atom
        for n, ps in nodes_not_in_log(body, lambda x: cmp_parts(x) is not None):
            if _mentions_delay(n, fn) and atom(n) == 0:
                ctx.bad("extrapolation guard is `%s`, expected `iteration <= widening_delay` "
                        "(extrapolation must not start before the delay has elapsed, nor be "
                        "delayed further)" % src(n), fn, n, sig="delay-guard", rid=rid_join or rid_widen)
        for r in rs:
            t = guard_truth(g[id(r)], atom, body)
            val = strip_move(resolve_local(body, r.get("v")))
            if t is None or t == "contradiction":
                ctx.undecided("return not classified by the delay test: %s" % src(r), fn, r, rid=rid_join or rid_widen)
                continue
            before, after = 2, 3
            if t is True:
                if rid_join is None:
                    continue
                if is_call(val, op="|") and "o" in val:
                    o, a = obj(val), args(val)[0]
                    if (is_param(o, fn, before) and is_param(a, fn, after)) or \
                       (is_param(o, fn, after) and is_param(a, fn, before)):
                        ctx.ok("within the delay the iterates are joined: %s" % src(val), fn, r, rid=rid_join)
                        continue
                ctx.bad("within the widening delay extrapolate returns `%s`, expected the join "
                        "`before | after`" % src(val), fn, r, sig="join-branch", rid=rid_join)
            else:
                if rid_widen is None:
                    continue
                okv = False
                if is_call(val, op="||") and "o" in val:
                    okv = is_param(obj(val), fn, before) and is_param(args(val)[0], fn, after)
                elif is_call(val, name="widening_thresholds"):
                    okv = is_param(obj(val), fn, before) and is_param(args(val)[0], fn, after)
                if okv:
                    ctx.ok("after the delay the old iterate is widened with the new one: %s" % src(val), fn, r, rid=rid_widen)
                else:
                    ctx.bad("after the widening delay extrapolate returns `%s`; expected "
                            "`before || after` or `before.widening_thresholds(after, ts)` with the "
                            "OLD iterate as receiver (a join or swapped operands need not stabilise)"
                            % src(val), fn, r, sig="widen-branch", rid=rid_widen)


# ------------------------------------------------------------ refine
def refine_rule(ctx, rid):
    """C06.r4: first descending iteration meets, later ones narrow"""
    for fn in _fns(ctx, ITER + "::refine"):
        body = fn["body"]
        g = paths.guards(body)

        def atom(c):
            p = cmp_parts(c)
            if not p:
                return 0
            op, l, r = p
            if is_param(l, fn, 1) and isinstance(r, dict) and r.get("k") == "lit" and r.get("v") == "1":
                return {"==": 1, "!=": -1}.get(op, 0)
            return 0
        for r in rets(body):
            t = guard_truth(g[id(r)], atom, body)
            val = strip_move(resolve_local(body, r.get("v")))
            if t is None or t == "contradiction":
                ctx.undecided("return of refine not classified by `iteration == 1`: %s" % src(r), fn, r, rid=rid)
                continue
            want = "&" if t else "&&"
            if is_call(val, op=want) and "o" in val and is_param(obj(val), fn, 2) and is_param(args(val)[0], fn, 3):
                ctx.ok("refine(iteration%s1) = before %s after" % ("==" if t else "!=", want), fn, r, rid=rid)
            else:
                ctx.bad("refine returns `%s` when iteration %s 1, expected `before %s after`"
                        % (src(val), "==" if t else "!=", want), fn, r, sig="refine-%s" % want, rid=rid)


# ------------------------------------------------------------ helpers for visit
def _get_post_of(n, var_id=None):
    """m_iterator->get_post(prev)"""
    n = strip_move(n)
    if is_call(n, name="get_post") and len(n.get("a", [])) == 1:
        a = strip(n["a"][0])
        if isinstance(a, dict) and a.get("k") == "ref" and (var_id is None or a.get("id") == var_id):
            return True
    return False


def _is_make_bottom(n):
    n = strip_move(n)
    return is_call(n, name="make_bottom")


def _is_seed(n):
    """the value a predecessor join starts from: make_bottom(), or - at the block the analysis starts at - the initial states,
    which enter that block like the post of one more predecessor:  `X == m_entry ? m_init : make_bottom()`  (finding F52: the
    initial value used to be taken for the first visit only and was lost when the start block lies on a cycle)"""
    def unwrap(x):
        x = strip_move(x)
        for _ in range(3):
            if isinstance(x, dict) and x.get("k") == "ctor" and len(x.get("a", [])) == 1:
                x = strip_move(x["a"][0])
        return x
    n = unwrap(n)
    if _is_make_bottom(n):
        return True
    if isinstance(n, dict) and n.get("k") == "cond":
        p = cmp_parts(n.get("c"))
        t, e = unwrap(n.get("t")), unwrap(n.get("e"))
        if p and p[0] == "==" and (is_field(p[1], "m_entry") or is_field(p[2], "m_entry")) and is_field(t, "m_init") and _is_make_bottom(e):
            return True
    return False


def _join_loop_info(loop, fn):
    """for (prev : RANGE) { [if (COND)] ACC |= get_post(prev); }
       -> dict(acc id, range expr, filter cond or None) or None"""
    if loop.get("k") != "rangefor":
        return None
    v = loop.get("v") or {}
    body = loop.get("b")
    stmts = body.get("b", []) if isinstance(body, dict) and body.get("k") == "seq" else [body]
    stmts = [s for s in stmts if isinstance(s, dict)]
    # local definitions in front of the join (e.g. `nesting_t prev_nesting = get_nesting(prev);`) are looked through
    while len(stmts) > 1 and stmts[0].get("k") == "decl":
        stmts = stmts[1:]
    if len(stmts) != 1:
        return None
    s = stmts[0]
    cond = None
    if s.get("k") == "if" and "e" not in s:
        cond = s.get("c")
        t = s.get("t")
        ts = t.get("b", []) if isinstance(t, dict) and t.get("k") == "seq" else [t]
        if len(ts) != 1:
            return None
        s = ts[0]
    if is_call(s, op="|=") and "o" in s:
        o = strip(s["o"])
        if isinstance(o, dict) and o.get("k") == "ref" and _get_post_of(s["a"][0], v.get("id")):
            return {"acc": o.get("id"), "accname": o.get("n"), "range": strip(loop.get("r")),
                    "filter": cond, "stmt": s, "prevvar": v.get("id")}
    return None


def _is_prev_nodes(e, body, nodevar_pred):
    e = resolve_local(body, e)
    if is_call(e, name="prev_nodes") and len(e.get("a", [])) == 1:
        return nodevar_pred(strip(e["a"][0]))
    return False


# ------------------------------------------------------------ visit(vertex)
def vertex_rule(ctx, rid):
    """C01.r1 / C06.r3: a non-entry vertex starts from bottom and joins the
    post of ALL predecessors, then set_pre + compute_post with that value"""
    fs = _fns(ctx, WTOIT + "::visit", psig_contains="wto_vertex")
    for fn in fs:
        body = fn["body"]
        decls = local_decls(body)
        # node = vertex.node()
        node_ids = [d["id"] for d in decls.values()
                    if "i" in d and is_call(strip(d["i"]), name="node") and is_param(obj(strip(d["i"])), fn, 0)]
        if not node_ids:
            ctx.undecided("cannot find `node = vertex.node()`", fn, body, rid=rid)
            continue
        nid = node_ids[0]
        isnode = lambda x: isinstance(x, dict) and x.get("k") == "ref" and x.get("id") == nid
        loops = [(l, _join_loop_info(l, fn)) for l in walk(body) if l.get("k") == "rangefor"]
        jl = [(l, i) for l, i in loops if i is not None]
        if len(jl) != 1:
            # a predecessor loop that is not the plain join idiom
            cand = [l for l, i in loops if any(is_call(x, name="get_post") for x in walk(l))]
            if cand:
                ctx.bad("predecessor loop is not `for (prev : prev_nodes(node)) pre |= get_post(prev);` "
                        "(a predecessor is filtered or skipped): %s" % src(cand[0].get("b")), fn, cand[0],
                        sig="vertex-join-shape", rid=rid)
            else:
                ctx.bad("vertex visit does not join the post-states of the predecessors", fn, body,
                        sig="vertex-join-missing", rid=rid)
            continue
        loop, info = jl[0]
        if info["filter"] is not None:
            ctx.bad("predecessor join is filtered by `%s`: some incoming edge is ignored" % src(info["filter"]),
                    fn, loop, sig="vertex-join-filter", rid=rid)
            continue
        if not _is_prev_nodes(info["range"], body, isnode):
            ctx.bad("join loop ranges over `%s`, expected m_cfg.prev_nodes(node)" % src(info["range"]), fn, loop,
                    sig="vertex-join-range", rid=rid)
            continue
        acc = info["acc"]
        # event analysis: bottom-init -> join loop -> set_pre(node, acc) -> compute_post(node, acc)
        def gen(n):
            if n is loop:
                return ()
            if n.get("k") in ("asg",) or (n.get("k") == "call" and n.get("op") == "="):
                l = strip(n.get("L") if n.get("k") == "asg" else n.get("o"))
                r = n.get("R") if n.get("k") == "asg" else (n["a"][0] if n.get("a") else None)
                if isinstance(l, dict) and l.get("k") == "ref" and l.get("id") == acc and _is_seed(r):
                    return ("bottom",)
            if n.get("k") == "decl" and n.get("id") == acc and "i" in n and _is_seed(n["i"]):
                return ("bottom",)
            if n.get("k") == "rangefor" and n is loop:
                return ("joined",)
            if is_call(n, name="set_pre") and len(n.get("a", [])) == 2 and isnode(strip(n["a"][0])):
                a1 = strip_move(n["a"][1])
                if isinstance(a1, dict) and a1.get("id") == acc:
                    return ("set_pre",)
            return ()

        class F(paths.MustEvents):
            pass
        # the rangefor node itself is a statement: mark "joined" after it via kill/gen on record_after
        f = paths.MustEvents(gen)
        orig_loop = f._loop

        def _loop(n, st):
            out = orig_loop(n, st)
            if n is loop and out is not None:
                out = out | frozenset(["joined"])
            return out
        f._loop = _loop
        try:
            f.run(body)
        except paths.Unstructured as e:
            ctx.undecided("unstructured control flow: %s" % e, fn, body, rid=rid)
            continue
        st_loop = f.at.get(id(loop))
        if st_loop is None or "bottom" not in st_loop:
            ctx.bad("the accumulator `%s` is not reset to make_bottom() before the predecessor join"
                    % info["accname"], fn, loop, sig="vertex-no-bottom", rid=rid)
            continue
        # compute_post(node, acc) must be reached on every non-skipped path: on the path
        # through the join loop it must come after it
        cps = [n for n, ps in nodes_not_in_log(body, lambda x: is_call(x, name="compute_post"))]
        if not cps:
            ctx.bad("vertex visit never calls compute_post", fn, body, sig="vertex-no-post", rid=rid)
            continue
        good = True
        for cp in cps:
            a = cp.get("a", [])
            a1 = strip_move(a[1]) if len(a) == 2 else None
            if not (len(a) == 2 and isnode(strip(a[0])) and isinstance(a1, dict) and a1.get("id") == acc):
                ctx.bad("compute_post is called with `%s`, expected (node, %s)" % (src(a), info["accname"]), fn, cp,
                        sig="vertex-post-args", rid=rid)
                good = False
        # set_pre on the join path
        sps = [n for n, ps in nodes_not_in_log(body, lambda x: is_call(x, name="set_pre"))]
        after_loop_setpre = [n for n in sps if "joined" in (f.at.get(id(n)) or ())]
        if not after_loop_setpre:
            ctx.bad("the joined pre-state is never stored with set_pre(node, %s)" % info["accname"], fn, loop,
                    sig="vertex-no-setpre", rid=rid)
            good = False
        # nothing may overwrite the accumulator between the join and compute_post except strengthen(node, acc)
        for w in writes_to(body, acc):
            stw = f.at.get(id(w))
            if stw is not None and "joined" in stw:
                rhs = w.get("R") if w.get("k") == "asg" else (w["a"][0] if w.get("a") else None)
                rhs = strip_move(rhs)
                if is_call(rhs, name="strengthen") and len(rhs.get("a", [])) == 2 and \
                        isinstance(strip(rhs["a"][1]), dict) and strip(rhs["a"][1]).get("id") == acc:
                    continue
                ctx.bad("the joined pre-state is overwritten by `%s` before the block is analysed" % src(w), fn, w,
                        sig="vertex-acc-overwritten", rid=rid)
                good = False
        if good:
            ctx.ok("vertex: pre = bottom; for all prev in prev_nodes(node): pre |= get_post(prev); set_pre; compute_post",
                   fn, loop, rid=rid)


# ------------------------------------------------------------ visit(cycle)
def _cycle_parts(ctx, fn, rid):
    """locate head, prev_nodes local, the ascending and descending for(;;)"""
    body = fn["body"]
    decls = local_decls(body)
    head = [d for d in decls.values() if "i" in d and is_call(strip(d["i"]), name="head") and is_param(obj(strip(d["i"])), fn, 0)]
    if not head:
        ctx.undecided("cannot find `head = cycle.head()`", fn, body, rid=rid)
        return None
    hid = head[0]["id"]
    forever = [l for l in walk(body, into_lambdas=False) if l.get("k") == "for" and "c" not in l]
    top = body.get("b", [])
    forever = [l for l in forever if any(l is s for s in top)]
    if len(forever) != 2:
        ctx.undecided("expected two top-level `for(;;)` loops (ascending, descending), found %d" % len(forever),
                      fn, body, rid=rid)
        return None
    return {"body": body, "decls": decls, "hid": hid, "asc": forever[0], "desc": forever[1]}


def _loop_counter(loop):
    i = loop.get("i")
    if isinstance(i, dict) and i.get("k") == "decl" and strip(i.get("i", {})).get("k") == "lit":
        return i
    return None


def _component_loop(loop_body):
    """for (it = cycle.begin(); it != cycle.end(); ++it) it->accept(this);"""
    for l in walk(loop_body, into_lambdas=False):
        if l.get("k") in ("for", "rangefor") and any(is_call(x, name="accept") and any(is_this(a) for a in x.get("a", [])) for x in walk(l.get("b"))):
            return l
    return None


def _analyse_iteration_loop(ctx, fn, parts, loop, rid, which):
    """common shape of both loops.  Returns dict with new_pre id, pre id, the
    test (op,l,r) the exits are guarded by, or None after reporting."""
    body = parts["body"]
    hid = parts["hid"]
    ishead = lambda x: isinstance(x, dict) and x.get("k") == "ref" and x.get("id") == hid
    lb = loop.get("b")
    comp = _component_loop(lb)
    if comp is None:
        ctx.bad("%s loop does not visit the components of the cycle (it->accept(this))" % which, fn, loop,
                sig="%s-no-components" % which, rid=rid)
        return None
    joins = [(l, _join_loop_info(l, fn)) for l in walk(lb, into_lambdas=False) if l.get("k") == "rangefor"]
    joins = [(l, i) for l, i in joins if i is not None]
    if len(joins) != 1:
        ctx.bad("%s loop: expected exactly one `new_pre |= get_post(prev)` loop over the predecessors of the head, found %d"
                % (which, len(joins)), fn, loop, sig="%s-join-count" % which, rid=rid)
        return None
    jl, info = joins[0]
    if info["filter"] is not None:
        ctx.bad("%s loop: predecessor join filtered by `%s`" % (which, src(info["filter"])), fn, jl,
                sig="%s-join-filter" % which, rid=rid)
        return None
    if not _is_prev_nodes(info["range"], body, ishead):
        ctx.bad("%s loop: join ranges over `%s`, expected prev_nodes(head)" % (which, src(info["range"])), fn, jl,
                sig="%s-join-range" % which, rid=rid)
        return None
    newpre = info["acc"]
    d = parts["decls"].get(newpre)
    if d is None or "i" not in d or not _is_seed(d["i"]):
        ctx.bad("%s loop: `%s` does not start from make_bottom()" % (which, info["accname"]), fn, jl,
                sig="%s-newpre-init" % which, rid=rid)
        return None
    # order inside the loop body: compute_post(head, pre) -> components -> join
    order = []
    for n in walk(lb, into_lambdas=False):
        if n is comp:
            order.append("comp")
        elif n is jl:
            order.append("join")
        elif is_call(n, name="compute_post") and len(n.get("a", [])) == 2 and ishead(strip(n["a"][0])):
            order.append("post")
    exp = ["post", "comp", "join"]
    if [x for x in order if x in exp][:3] != exp:
        ctx.bad("%s loop: expected compute_post(head, pre); visit components; join predecessors in this order, found %s"
                % (which, order), fn, loop, sig="%s-order" % which, rid=rid)
        return None
    cps = [n for n in walk(lb, into_lambdas=False) if is_call(n, name="compute_post") and ishead(strip(n["a"][0]))]
    pre = strip_move(cps[0]["a"][1])
    if not (isinstance(pre, dict) and pre.get("k") == "ref"):
        ctx.undecided("%s loop: compute_post argument is not a variable" % which, fn, cps[0], rid=rid)
        return None
    return {"newpre": newpre, "newpre_name": info["accname"], "pre": pre.get("id"), "pre_name": pre.get("n"),
            "join": jl, "comp": comp}


def _cmp_atom(lid, rid_):
    """atom: `L <= R` on two local variables (by id)"""
    def atom(c):
        p = cmp_parts(c)
        if not p:
            return 0
        op, l, r = p
        if not (isinstance(l, dict) and isinstance(r, dict) and l.get("k") == "ref" and r.get("k") == "ref"):
            return 0
        if l.get("id") == lid and r.get("id") == rid_ and op == "<=":
            return 1
        if l.get("id") == rid_ and r.get("id") == lid and op == ">=":
            return 1
        return 0
    return atom


def ascending_rule(ctx, rid_exit, rid_extrap, rid_counter=None):
    """C01.r2: the ascending loop is left only at a post-fixpoint new_pre <= pre,
       with new_pre the join over all predecessors computed after the body.
       C05.r1b: otherwise pre = extrapolate(head, iteration, pre, new_pre)."""
    for fn in _fns(ctx, WTOIT + "::visit", psig_contains="wto_cycle"):
        parts = _cycle_parts(ctx, fn, rid_exit or rid_extrap)
        if parts is None:
            continue
        loop = parts["asc"]
        body = parts["body"]
        info = _analyse_iteration_loop(ctx, fn, parts, loop, rid_exit or rid_extrap, "ascending")
        if info is None:
            continue
        g = paths.guards(loop.get("b"))
        atom = _cmp_atom(info["newpre"], info["pre"])
        rev_atom = _cmp_atom(info["pre"], info["newpre"])
        if rid_exit:
            exits = exits_of_loop(loop)
            if not exits:
                ctx.bad("ascending loop has no exit", fn, loop, sig="asc-no-exit", rid=rid_exit)
            for e in exits:
                t = guard_truth(g.get(id(e), ()), atom, body)
                if t is True:
                    ctx.ok("ascending loop left only when %s <= %s (post-fixpoint)" % (info["newpre_name"], info["pre_name"]),
                           fn, e, rid=rid_exit)
                else:
                    t2 = guard_truth(g.get(id(e), ()), rev_atom, body)
                    why = "under the reversed test %s <= %s" % (info["pre_name"], info["newpre_name"]) if t2 is True else \
                          "without the post-fixpoint test %s <= %s" % (info["newpre_name"], info["pre_name"])
                    ctx.bad("ascending loop can be left %s: the stored invariant need not be a post-fixpoint" % why,
                            fn, e, sig="asc-exit-guard", rid=rid_exit)
        if rid_extrap:
            # on the non-fixpoint path: pre = extrapolate(head, iteration, pre, new_pre)
            exs = [n for n in walk(loop.get("b"), into_lambdas=False) if is_call(n, name="extrapolate")]
            if not exs:
                ctx.bad("ascending loop never extrapolates", fn, loop, sig="asc-no-extrapolate", rid=rid_extrap)
            cnt = _loop_counter(loop)
            for e in exs:
                a = [strip_move(x) for x in e.get("a", [])]
                okargs = (len(a) == 4 and a[0].get("id") == parts["hid"] and cnt is not None and a[1].get("id") == cnt["id"]
                          and a[2].get("id") == info["pre"] and a[3].get("id") == info["newpre"])
                if okargs:
                    ctx.ok("extrapolate(head, iteration, old=%s, new=%s)" % (info["pre_name"], info["newpre_name"]), fn, e, rid=rid_extrap)
                else:
                    ctx.bad("extrapolate called with (%s); expected (head, iteration, %s /*old*/, %s /*new*/)"
                            % (src(e.get("a")), info["pre_name"], info["newpre_name"]), fn, e, sig="asc-extrapolate-args", rid=rid_extrap)
                t = guard_truth(g.get(id(e), ()), atom, body)
                if t is not False:
                    ctx.bad("extrapolate is not on the `!(new_pre <= pre)` path", fn, e, sig="asc-extrapolate-guard", rid=rid_extrap)
            # the result must be stored back into pre
            stored = False
            for w in writes_to(loop.get("b"), info["pre"]):
                rhs = w.get("R") if w.get("k") == "asg" else (w["a"][0] if w.get("a") else None)
                if is_call(strip_move(rhs), name="extrapolate"):
                    stored = True
            if exs and not stored:
                ctx.bad("the extrapolated value is not stored back into `%s`" % info["pre_name"], fn, loop,
                        sig="asc-extrapolate-unused", rid=rid_extrap)
        if rid_counter:
            cnt = _loop_counter(loop)
            inc = strip(loop.get("n"))
            okc = (cnt is not None and strip(cnt["i"]).get("v") == "1" and isinstance(inc, dict) and inc.get("k") == "un"
                   and inc.get("op") in ("pre++", "post++") and strip(inc.get("e")).get("id") == cnt["id"]
                   and not writes_to(loop.get("b"), cnt["id"]))
            if okc:
                ctx.ok("iteration counter starts at 1 and is incremented once per iteration", fn, loop, rid=rid_counter)
            else:
                ctx.bad("iteration counter of the ascending loop is not `for (iteration = 1;; ++iteration)` "
                        "(the widening delay is counted from it)", fn, loop, sig="asc-counter", rid=rid_counter)


def descending_rule(ctx, rid):
    """C05.r2: the descending loop ends when pre <= new_pre or after
    get_descending_iterations() rounds; the counter is only advanced by the
    loop header"""
    for fn in _fns(ctx, WTOIT + "::visit", psig_contains="wto_cycle"):
        parts = _cycle_parts(ctx, fn, rid)
        if parts is None:
            continue
        loop = parts["desc"]
        body = parts["body"]
        info = _analyse_iteration_loop(ctx, fn, parts, loop, rid, "descending")
        if info is None:
            continue
        cnt = _loop_counter(loop)
        inc = strip(loop.get("n"))
        okc = (cnt is not None and isinstance(inc, dict) and inc.get("k") == "un" and inc.get("op") in ("pre++", "post++")
               and strip(inc.get("e")).get("id") == cnt["id"] and not writes_to(loop.get("b"), cnt["id"]))
        if not okc:
            ctx.bad("descending loop counter is not advanced exactly once per iteration by the loop header", fn, loop,
                    sig="desc-counter", rid=rid)
            continue
        g = paths.guards(loop.get("b"))
        stable = _cmp_atom(info["pre"], info["newpre"])

        def bound(c):
            p = cmp_parts(c)
            if not p:
                return 0
            op, l, r = p
            isc = lambda x: isinstance(x, dict) and x.get("k") == "ref" and x.get("id") == cnt["id"]
            isb = lambda x: is_call(x, name="get_descending_iterations")
            if isc(l) and isb(r):
                return {">": 1, ">=": 1, "<=": -1, "<": -1}.get(op, 0)
            if isb(l) and isc(r):
                return {"<": 1, "<=": 1, ">=": -1, ">": -1}.get(op, 0)
            return 0
        exits = exits_of_loop(loop)
        kinds = set()
        for e in exits:
            if guard_truth(g.get(id(e), ()), stable, body) is True:
                kinds.add("stable")
            elif guard_truth(g.get(id(e), ()), bound, body) is True:
                kinds.add("bound")
            else:
                kinds.add("other")
        if "bound" in kinds:
            ctx.ok("descending loop is bounded by get_descending_iterations()", fn, loop, rid=rid)
        else:
            ctx.bad("descending loop has no exit guarded by `iteration > get_descending_iterations()`: "
                    "narrowing may not terminate", fn, loop, sig="desc-no-bound", rid=rid)
        # the refine call: pre = refine(head, iteration, pre, new_pre)
        rf = [n for n in walk(loop.get("b"), into_lambdas=False) if is_call(n, name="refine")]
        for e in rf:
            a = [strip_move(x) for x in e.get("a", [])]
            if len(a) == 4 and a[1].get("id") == cnt["id"] and a[2].get("id") == info["pre"] and a[3].get("id") == info["newpre"]:
                ctx.ok("refine(head, iteration, %s, %s)" % (info["pre_name"], info["newpre_name"]), fn, e, rid=rid)
            else:
                ctx.bad("refine called with (%s); expected (head, iteration, %s, %s)" % (src(e.get("a")), info["pre_name"], info["newpre_name"]),
                        fn, e, sig="desc-refine-args", rid=rid)
        # whole narrowing phase is skipped only when descending iterations == 0 (no other early return between loops)


# ------------------------------------------------------------ cycle entry
def cycle_entry_rule(ctx, rid):
    """C06.r2: the initial pre of a cycle joins get_post(prev) for exactly the
    predecessors that are NOT inside the cycle: !(nesting(prev) > nesting(head))"""
    for fn in _fns(ctx, WTOIT + "::visit", psig_contains="wto_cycle"):
        parts = _cycle_parts(ctx, fn, rid)
        if parts is None:
            continue
        body = parts["body"]
        hid = parts["hid"]
        ishead = lambda x: isinstance(x, dict) and x.get("k") == "ref" and x.get("id") == hid
        asc = parts["asc"]
        pre_loops = []
        for s in body.get("b", []):
            if s is asc:
                break
            for l in walk(s, into_lambdas=False):
                if l.get("k") == "rangefor":
                    i = _join_loop_info(l, fn)
                    if i is not None:
                        pre_loops.append((l, i))
        if len(pre_loops) != 1:
            ctx.bad("expected one predecessor join before the ascending loop, found %d" % len(pre_loops), fn, body,
                    sig="entry-join-count", rid=rid)
            continue
        l, info = pre_loops[0]
        if not _is_prev_nodes(info["range"], body, ishead):
            ctx.bad("initial join ranges over `%s`, expected prev_nodes(head)" % src(info["range"]), fn, l,
                    sig="entry-join-range", rid=rid)
            continue
        flt = strip(info["filter"]) if info["filter"] is not None else None
        # The filter is INTERPRETED on a model of nestings: the head H has nesting N = (O,); a predecessor is joined into the entry
        # value iff it does not lie inside the cycle of H.  Predecessors: outside at the same level (N), in a sibling cycle A
        # (N + (A,)), outside the enclosing cycle (()), the head itself through a self loop (N)  -> joined;  directly inside the cycle
        # (N + (H,)) and inside a cycle nested in it (N + (H, B))  -> left out.
        N = ("O",)
        cases = [("a block outside the cycle at the same level", N, True), ("a block of a SIBLING cycle at the same level", N + ("A",), True),
                 ("a block outside the enclosing cycle", (), True), ("the head itself (self loop)", N, True),
                 ("a block directly inside the cycle", N + ("H",), False), ("a block of a cycle nested inside it", N + ("H", "B"), False)]

        class Stuck(Exception):
            pass

        def nest_cmp(a, b):            # wto_nesting::compare
            i = 0
            while i < len(a):
                if i >= len(b):
                    return 1
                if a[i] != b[i]:
                    return 2
                i += 1
            return 0 if len(b) == len(a) else -1
        decls = parts["decls"]

        def val(e, prevn, depth=0):
            e = strip_move(e)
            while isinstance(e, dict) and e.get("k") in ("ctor", "construct") and len(e.get("a", [])) == 1:
                e = strip_move(e["a"][0])
            if depth > 8 or not isinstance(e, dict):
                raise Stuck("?")
            if e.get("k") == "ref" and e.get("rk") == "local":
                if e.get("id") == hid:
                    return "H"
                if e.get("id") == info["prevvar"]:
                    return ("node", prevn)
                d = decls.get(e.get("id"))
                if d is not None and "i" in d and not writes_to(body, e["id"]):
                    return val(d["i"], prevn, depth + 1)
                if d is not None and "i" in d and d.get("id") in {x.get("id") for x in walk(l) if x.get("k") == "decl"}:
                    return val(d["i"], prevn, depth + 1)      # a local of the loop body
                raise Stuck(src(e)[:30])
            if e.get("k") == "call":
                nm = (callee(e) or {}).get("name")
                args = e.get("a", [])
                if (nm in ("get_nesting", "nesting") or e.get("op") == "()") and args:
                    x = val(args[0], prevn, depth + 1)
                    if x == "H":
                        return N
                    if isinstance(x, tuple) and x and x[0] == "node":
                        return x[1]
                    raise Stuck(src(e)[:30])
                if e.get("op") == "+" and "o" in e and args:
                    a, b = val(e["o"], prevn, depth + 1), val(args[0], prevn, depth + 1)
                    if isinstance(a, tuple) and b == "H":
                        return a + ("H",)
                    raise Stuck(src(e)[:30])
                if e.get("op") in (">", "<", "==", "<=") and "o" in e and args:
                    a, b = val(e["o"], prevn, depth + 1), val(args[0], prevn, depth + 1)
                    if not (isinstance(a, tuple) and isinstance(b, tuple)):
                        raise Stuck(src(e)[:30])
                    c = nest_cmp(a, b)
                    return {">": c == 1, "==": c == 0, "<=": c <= 0, "<": c == -1}[e["op"]]
                if e.get("op") == "!" and "o" in e:
                    return not val(e["o"], prevn, depth + 1)
            if e.get("k") == "un" and e.get("op") == "!":
                return not val(e.get("e"), prevn, depth + 1)
            if e.get("k") == "bin" and e.get("op") in ("&&", "||"):
                a = val(e.get("L"), prevn, depth + 1)
                b = val(e.get("R"), prevn, depth + 1)
                return (a and b) if e["op"] == "&&" else (a or b)
            raise Stuck(src(e)[:30])
        if flt is None:
            ctx.bad("initial value of a cycle must join get_post(prev) iff prev is not inside the cycle; no filter: back edges from inside "
                    "the cycle would be joined into the entry value", fn, l, sig="entry-filter", rid=rid)
            continue
        wrong = None
        try:
            for what, prevn, expect in cases:
                got = val(flt, prevn)
                if not isinstance(got, bool):
                    raise Stuck("not a Boolean")
                if got != expect and wrong is None:
                    wrong = (what, got)
        except Stuck as ex:
            ctx.undecided("cycle entry: cannot interpret the filter `%s` (%s)" % (src(flt)[:50], ex), fn, l, rid=rid)
            continue
        if wrong is None:
            ctx.ok("cycle entry joins exactly the predecessors that do not lie inside the cycle (6 nesting cases interpreted)", fn, l, rid=rid)
        else:
            ctx.bad("the entry value of a cycle %s the post-state of %s (filter `%s` interpreted on the nesting model): the first "
                    "iteration of the loop runs without the states that enter through it, one unit of the widening delay is wasted and a loop "
                    "whose join-only iteration stabilises within the delay is widened" %
                    ("leaves out" if not wrong[1] else "joins", wrong[0], src(flt)[:50]), fn, l,
                    sig="entry-filter:%s" % ("misses-entry" if not wrong[1] else "joins-back-edge"), rid=rid)


# ------------------------------------------------------------ skipping / entry
def skip_rule(ctx, rid):
    """C06.r5: m_skip is cleared only when node == m_entry (vertex) or when the
    entry is a member of the cycle; the entry uses get_pre(node); strengthen is
    a meet with the assumption."""
    for fn in _fns(ctx, WTOIT + "::visit", psig_contains="wto_vertex"):
        body = fn["body"]
        g = paths.guards(body)
        for n, ps in nodes_not_in_log(body, lambda x: x.get("k") == "asg" and is_field(x.get("L"), "m_skip")):
            gs = g.get(id(n), ())

            def atom(c):
                p = cmp_parts(c)
                if p and p[0] == "==" and ((is_field(p[2], "m_entry") and is_ref(p[1])) or (is_field(p[1], "m_entry") and is_ref(p[2]))):
                    return 1
                return 0
            if is_lit_false(n.get("R")) and guard_truth(gs, atom, body) is True:
                ctx.ok("vertex: m_skip cleared only when node == m_entry", fn, n, rid=rid)
            else:
                ctx.bad("m_skip is written by `%s` outside the `node == m_entry` test" % src(n), fn, n, sig="skip-vertex", rid=rid)
        # entry node: pre = get_pre(node) under node == m_entry
    for fn in _fns(ctx, WTOIT + "::strengthen"):
        body = fn["body"]
        ws = [n for n, ps in nodes_not_in_log(body, lambda x: (x.get("k") == "asg" or is_call(x, op="=")))]
        found = False
        for w in ws:
            rhs = strip_move(w.get("R") if w.get("k") == "asg" else w["a"][0])
            if is_call(rhs, op="&") and "o" in rhs and is_param(obj(rhs), fn, 1):
                found = True
                ctx.ok("strengthen: inv = inv & assumption", fn, w, rid=rid)
            else:
                ctx.bad("strengthen combines the invariant with `%s`, expected a meet `inv & assumption`" % src(rhs), fn, w,
                        sig="strengthen-op", rid=rid)
        if not found and not ws:
            ctx.bad("strengthen no longer meets the invariant with the assumption", fn, body, sig="strengthen-missing", rid=rid)
        for r in rets(body):
            if not is_param(strip_move(r.get("v")), fn, 1):
                ctx.bad("strengthen returns `%s`, expected the strengthened invariant" % src(r.get("v")), fn, r, sig="strengthen-ret", rid=rid)


def is_lit_false(n):
    n = strip(n)
    return isinstance(n, dict) and n.get("k") == "lit" and n.get("v") == "false"


# ------------------------------------------------------------ run / compute_post
def run_rule(ctx, rid):
    """C06.r6: initialize_invariant_tables() (every label -> bottom) precedes
    set_pre(entry, init) precedes m_wto.accept(iterator)"""
    fs = _fns(ctx, ITER + "::run")
    for fn in fs:
        body = fn["body"]

        def gen(n):
            if is_call(n, name="initialize_invariant_tables"):
                return ("init",)
            if is_call(n, name="set_pre"):
                return ("set_pre",)
            return ()
        f = paths.must_events(body, gen)
        accs = [n for n, ps in nodes_not_in_log(body, lambda x: is_call(x, name="accept") and is_field(obj(x), "m_wto"))]
        if not accs:
            ctx.bad("run never traverses the WTO", fn, body, sig="run-no-accept", rid=rid)
            continue
        first = accs[0]
        st = f.at.get(id(first), frozenset())
        if "init" in st and "set_pre" in st:
            ctx.ok("run: initialize_invariant_tables(); set_pre(entry, init); m_wto.accept(iterator)", fn, first, rid=rid)
        else:
            ctx.bad("m_wto.accept(iterator) is not preceded by %s" %
                    " and ".join(x for x in ("initialize_invariant_tables()", "set_pre(entry, init)")
                                 if {"initialize_invariant_tables()": "init", "set_pre(entry, init)": "set_pre"}[x] not in st),
                    fn, first, sig="run-order", rid=rid)
        sp = [n for n, ps in nodes_not_in_log(body, lambda x: is_call(x, name="set_pre"))]
        for s in sp:
            a = s.get("a", [])
            np_ = len(fn["params"])
            initp = 0 if np_ == 1 else 1
            if len(a) == 2 and is_param(strip_move(a[1]), fn, initp):
                pass
            else:
                ctx.bad("run stores `%s` as the entry value instead of the caller's initial value" % src(a), fn, s,
                        sig="run-entry-value", rid=rid)
    for fn in _fns(ctx, ITER + "::initialize_invariant_tables"):
        body = fn["body"]
        em = [n for n in walk(body) if is_call(n, name="emplace") or is_call(n, name="insert")]
        okb = [n for n in em if any(is_call(x, name="make_bottom") for x in walk(n))]
        tables = set()
        for n in okb:
            o = obj(n)
            if is_field(o):
                tables.add(o.get("n"))
        # emplace/insert never overwrite: the tables must be emptied first (re-running the same iterator object
        # from a block in the middle of the CFG must not see the previous run's values for skipped blocks)
        def gen(n):
            if is_call(n, name="clear") and (is_this(n.get("o")) or is_field(obj(n))):
                if is_this(n.get("o")):
                    return ("clr:m_pre", "clr:m_post")
                return ("clr:" + obj(n).get("n", ""),)
            if is_call(n, name=("clear_pre",)) and is_this(n.get("o")):
                return ("clr:m_pre",)
            if is_call(n, name=("clear_post",)) and is_this(n.get("o")):
                return ("clr:m_post",)
            return ()
        f = paths.must_events(body, gen)
        stale = []
        for n in okb:
            o = obj(n)
            if is_field(o) and ("clr:" + o.get("n")) not in f.at.get(id(n), ()):
                stale.append(o.get("n"))
        if stale:
            ctx.bad("initialize_invariant_tables fills %s with emplace/insert (which keep an existing entry) without clearing the "
                    "table first: a second run() on the same iterator keeps the previous run's invariants for blocks it skips"
                    % sorted(set(stale)), fn, okb[0], sig="init-tables-not-cleared", rid=rid)
        elif tables >= {"m_pre", "m_post"} and len(em) == len(okb):
            ctx.ok("tables cleared, then every label starts at bottom in m_pre and m_post", fn, body, rid=rid)
        else:
            ctx.bad("invariant tables are not initialised to make_bottom() for both m_pre and m_post", fn, body,
                    sig="init-tables", rid=rid)


def compute_post_rule(ctx, rid):
    """C01.r3: what set_post stores is the result of analyze(node, inv)"""
    for fn in _fns(ctx, WTOIT + "::compute_post"):
        body = fn["body"]
        inv = fn["params"][1]["id"]
        ws = writes_to(body, inv)
        an = [w for w in ws if is_call(strip_move(w.get("R") if w.get("k") == "asg" else w["a"][0]), name="analyze")]
        sp = [n for n, ps in nodes_not_in_log(body, lambda x: is_call(x, name="set_post"))]
        if len(an) != 1 or len(ws) != 1 or len(sp) != 1:
            # alternative shape: set_post(node, analyze(node, inv))
            if len(sp) == 1 and is_call(strip_move(sp[0]["a"][1]), name="analyze"):
                ctx.ok("set_post(node, analyze(node, inv))", fn, sp[0], rid=rid)
            else:
                ctx.bad("compute_post must store exactly the result of m_iterator->analyze(node, inv) with set_post", fn, body,
                        sig="compute-post-shape", rid=rid)
            continue
        a = strip_move(an[0].get("R") if an[0].get("k") == "asg" else an[0]["a"][0])
        aa = a.get("a", [])
        if not (len(aa) == 2 and is_param(aa[0], fn, 0) and is_param(strip_move(aa[1]), fn, 1)):
            ctx.bad("analyze called with (%s), expected (node, inv)" % src(aa), fn, a, sig="compute-post-args", rid=rid)
            continue
        spa = sp[0].get("a", [])

        def gen(n):
            return ("analyzed",) if n is an[0] else ()
        f = paths.must_events(body, gen)
        if is_param(spa[0], fn, 0) and is_param(strip_move(spa[1]), fn, 1) and "analyzed" in f.at.get(id(sp[0]), ()):
            ctx.ok("inv = analyze(node, inv); set_post(node, inv)", fn, sp[0], rid=rid)
        else:
            ctx.bad("set_post(%s) does not store the analysed post-state of `node`" % src(spa), fn, sp[0],
                    sig="compute-post-store", rid=rid)


# ------------------------------------------------------------ initial states at the start block (finding F52)
def initial_states_rule(ctx, rid):
    """every predecessor join of wto_iterator::visit also receives the initial states when the block is the one the
    analysis starts at, and no visit reads the stored pre-state of a block as the value to analyse it with"""
    n = 0
    for fn in _fns(ctx, WTOIT + "::visit"):
        body = fn["body"]
        g = paths.guards(body)
        d = local_decls(body)
        for loop in walk(body):
            info = _join_loop_info(loop, fn) if loop.get("k") == "rangefor" else None
            if info is None:
                continue
            n += 1
            acc = info["acc"]
            dd = d.get(acc) or {}
            seeded = False
            if "i" in dd and _is_seed(dd["i"]) and not _is_make_bottom(dd["i"]):
                seeded = True
            for c in walk(body):
                if is_call(c, op="|=") and "o" in c and c.get("a"):
                    o = strip(c["o"])
                    if isinstance(o, dict) and o.get("k") == "ref" and o.get("id") == acc and is_field(strip_move(c["a"][0]), "m_init"):
                        def atom(x):
                            p = cmp_parts(x)
                            return 1 if (p and p[0] == "==" and (is_field(p[1], "m_entry") or is_field(p[2], "m_entry"))) else 0
                        if guard_truth(g.get(id(c), ()), atom, body) is True:
                            seeded = True
            if seeded:
                ctx.ok("predecessor join into `%s` also receives the initial states at the start block" % info["accname"], fn, loop, rid=rid)
            else:
                ctx.bad("wto_iterator::visit joins the posts of the predecessors into `%s` without the initial states of the block the "
                        "analysis starts at: when that block lies on a cycle (a loop head that is the CFG entry, or run(entry, ...) with "
                        "an entry inside a loop) the value replaces the initial one and the states the analysis started from are lost "
                        "(H: goto B or ret; B: x:=x+1; goto H from x=0 reports pre(H) = [2,+oo])" % info["accname"], fn, loop,
                        sig="join-without-initial-states:%s" % info["accname"], rid=rid)
        for c, ps in nodes_not_in_log(body, lambda x: is_call(x, name="get_pre")):
            n += 1
            ctx.bad("wto_iterator::visit uses the stored pre-state `%s` as the value to analyse a block with: the pre-state of the start "
                    "block is the initial value only until the block is reached again through a predecessor" % src(c)[:50], fn, c,
                    sig="visit-reads-stored-pre", rid=rid)
    # the iterator object copies the initial states from the table when it is constructed: set_pre(entry, init) comes first
    for fn in _fns(ctx, ITER + "::run"):
        body = fn["body"]
        f = paths.must_events(body, lambda x: ("set_pre",) if is_call(x, name="set_pre") else ())
        for dcl in walk(body):
            if dcl.get("k") == "decl" and "wto_iterator" in ((dcl.get("T") or "") + (dcl.get("TC") or "")):
                n += 1
                st = f.at.get(id(dcl))
                if st is not None and "set_pre" in st:
                    ctx.ok("run: set_pre(entry, init) precedes the construction of the WTO iterator", fn, dcl, rid=rid)
                else:
                    ctx.bad("run constructs the WTO iterator (which copies the initial states of the start block from the invariant "
                            "table) before set_pre(entry, init): the analysis starts from bottom", fn, dcl,
                            sig="iterator-before-set-pre", rid=rid)
    if n == 0:
        ctx.fail("rule %s: no predecessor join found in wto_iterator::visit" % rid)


# ------------------------------------------------------------ assumptions cover every stored / propagated pre-state
class _Strengthened(paths.Flow):
    """state: frozenset of (value var id, block var id): the value is inside the assumption attached to the block
    (it went through `v = strengthen(b, v)`, is bottom, or there is no assumption map on this path)."""

    def __init__(self, body, universe_v, universe_b):
        paths.Flow.__init__(self)
        self.body = body
        self.decls = local_decls(body)
        self.all = frozenset((v, b) for v in universe_v for b in universe_b)
        self.bs = universe_b

    def initial(self):
        return frozenset()

    def join(self, a, b):
        return a & b

    def _val(self, rhs, st):
        """set of block ids for which the value of expression rhs is inside the assumption"""
        r = strip_move(rhs)
        if not isinstance(r, dict):
            return frozenset()
        if _is_make_bottom(r):
            return frozenset(self.bs)
        if r.get("k") == "ref":
            return frozenset(b for (v, b) in st if v == r.get("id"))
        if is_call(r, name="strengthen") and len(r.get("a", [])) == 2:
            b = strip(r["a"][0])
            inner = self._val(r["a"][1], st)
            if isinstance(b, dict) and b.get("k") == "ref":
                return inner | frozenset([b.get("id")])
            return inner
        if is_call(r, name=("extrapolate", "refine")) and len(r.get("a", [])) == 4:
            return self._val(r["a"][2], st) & self._val(r["a"][3], st)
        if r.get("k") == "cond":
            return self._val(r.get("t"), st) & self._val(r.get("e"), st)
        return frozenset()

    def transfer(self, n, st):
        k = n.get("k")
        tgt = rhs = None
        if k == "decl" and "i" in n:
            tgt, rhs = n.get("id"), n["i"]
        elif k == "asg" and isinstance(strip(n.get("L")), dict) and strip(n["L"]).get("k") == "ref":
            tgt, rhs = strip(n["L"]).get("id"), n.get("R")
        elif k == "call" and n.get("op") == "=" and "o" in n and isinstance(strip(n["o"]), dict) and strip(n["o"]).get("k") == "ref" and n.get("a"):
            tgt, rhs = strip(n["o"]).get("id"), n["a"][0]
        elif k == "call" and n.get("op") in ("|=", "&=", "+=", "-=") and "o" in n and isinstance(strip(n["o"]), dict) and strip(n["o"]).get("k") == "ref":
            t = strip(n["o"]).get("id")
            if n.get("op") == "&=":
                return st                       # a meet stays inside
            return frozenset(x for x in st if x[0] != t)
        if tgt is None:
            return st
        keep = frozenset(x for x in st if x[0] != tgt)
        return keep | frozenset((tgt, b) for b in self._val(rhs, st))

    def _no_assumptions(self, cond, pol, depth=0):
        """does `cond == pol` imply that there is no (or an empty) assumption map?"""
        c = strip(cond)
        if not isinstance(c, dict) or depth > 6:
            return False
        if c.get("k") == "ref" and c.get("rk") == "local":
            r = resolve_local(self.body, c, self.decls)
            return r is not c and self._no_assumptions(r, pol, depth + 1)
        if is_field(c, "m_assumptions") or (is_field(deref(c) if isinstance(c, dict) else c, "m_assumptions")):
            return pol is False
        if is_call(c, name="empty") and is_field(deref(obj(c)) if obj(c) else None, "m_assumptions"):
            return pol is True
        if (c.get("k") == "un" and c.get("op") == "!"):
            return self._no_assumptions(c.get("e"), not pol, depth + 1)
        if c.get("k") == "call" and c.get("op") == "!" and "o" in c:
            return self._no_assumptions(c.get("o"), not pol, depth + 1)
        if c.get("k") == "bin" and c.get("op") == "&&" and pol is False:
            return self._no_assumptions(c.get("L"), False, depth + 1) and self._no_assumptions(c.get("R"), False, depth + 1)
        if c.get("k") == "bin" and c.get("op") == "||" and pol is True:
            return self._no_assumptions(c.get("L"), True, depth + 1) and self._no_assumptions(c.get("R"), True, depth + 1)
        if c.get("k") == "bin" and c.get("op") in ("==", "!=") and any(is_field(strip(x), "m_assumptions") for x in (c.get("L"), c.get("R"))) \
                and any(isinstance(strip(x), dict) and strip(x).get("k") in ("nullptr", "lit") for x in (c.get("L"), c.get("R"))):
            return pol is (c["op"] == "==")
        return False

    def refine(self, cond, st, pol):
        if st is not None and self._no_assumptions(cond, pol):
            return self.all
        return st


def assumption_rule(ctx, rid):
    """every pre-state that the iterator stores (set_pre) or propagates (compute_post) for a block went through
    strengthen(block, .) after the last join of predecessor states, unless no assumption map was given"""
    n_obl = 0
    for kind in ("wto_vertex", "wto_cycle"):
        for fn in _fns(ctx, WTOIT + "::visit", psig_contains=kind):
            body = fn["body"]
            uses = [c for c, ps in nodes_not_in_log(body, lambda x: is_call(x, name=("set_pre", "compute_post")) and len(x.get("a", [])) == 2)]
            strs = [c for c in walk(body) if is_call(c, name="strengthen") and len(c.get("a", [])) == 2]
            if not strs:
                ctx.bad("visit(%s) never strengthens the joined states with the assumption of the block" % kind, fn, body,
                        sig="assume-never:%s" % kind, rid=rid)
                continue
            uv, ub = set(), set()
            for c in uses + strs:
                b, v = strip(c["a"][0]), strip_move(c["a"][1])
                if isinstance(b, dict) and b.get("k") == "ref":
                    ub.add(b.get("id"))
                if isinstance(v, dict) and v.get("k") == "ref":
                    uv.add(v.get("id"))
            for d in local_decls(body).values():
                uv.add(d["id"])
            f = _Strengthened(body, uv, ub)
            try:
                f.run(body)
            except paths.Unstructured as e:
                ctx.undecided("unstructured control flow: %s" % e, fn, body, rid=rid)
                continue
            for c in uses:
                st = f.at.get(id(c))
                if st is None:
                    continue
                b, v = strip(c["a"][0]), strip_move(c["a"][1])
                if not (isinstance(b, dict) and b.get("k") == "ref" and isinstance(v, dict) and v.get("k") == "ref"):
                    ctx.undecided("%s(%s): arguments are not variables" % (callee(c)["name"], src(c.get("a"))), fn, c, rid=rid)
                    continue
                n_obl += 1
                if (v.get("id"), b.get("id")) in st:
                    ctx.ok("%s(%s, %s): the value is inside the assumption of the block on every path" % (callee(c)["name"], b.get("n"), v.get("n")),
                           fn, c, rid=rid)
                else:
                    ctx.bad("visit(%s): `%s(%s, %s)` %s a state that was joined from predecessor posts and not met with the assumption "
                            "attached to `%s` (strengthen): with an assumption at a loop head the states coming back along the back edges "
                            "escape it and the result is above the least solution under the assumption map"
                            % (kind, callee(c)["name"], b.get("n"), v.get("n"), "stores" if callee(c)["name"] == "set_pre" else "propagates", b.get("n")),
                            fn, c, sig="assume-missed:%s:%s:%s" % (kind, callee(c)["name"], v.get("n")), rid=rid)
    return n_obl


def start_covered_rule(ctx, rid):
    """run(start, init, assumptions) walks m_wto, which the constructor builds from the CFG entry: a start block that the CFG
    entry does not reach is in no component and nothing is analysed.  Accepted: the start block is looked up in the WTO
    (m_wto.nesting(start) / a membership visitor) before the traversal, or the traversed WTO is built from the start block."""
    n = 0
    for fn in _fns(ctx, ITER + "::run"):
        if len(fn.get("params", [])) < 2:
            continue
        body = fn["body"]
        n += 1
        accs = [c for c, ps in nodes_not_in_log(body, lambda x: is_call(x, name="accept") and is_field(obj(x), "m_wto"))]
        if not accs:
            continue        # reported by run_rule
        mentions = lambda e: any(is_param(x, fn, 0) for x in walk(e) if isinstance(x, dict) and x.get("k") == "ref")
        looked_up = [c for c, ps in nodes_not_in_log(body, lambda x: x.get("k") == "call" and callee(x) and callee(x)["name"] not in ("accept",)
                                                     and "o" in x and is_field(obj(x), "m_wto") and any(mentions(a) for a in x.get("a", [])))]
        rebuilt = [d for d in local_decls(body).values() if "wto" in (d.get("t") or "").lower() and "wto_iterator" not in (d.get("t") or "")
                   and "wto_processor" not in (d.get("t") or "") and "i" in d and mentions(d["i"])]
        if looked_up or rebuilt:
            ctx.ok("run(start, ...): the start block is looked up in / used to build the traversed WTO", fn, (looked_up or rebuilt)[0], rid=rid)
        else:
            ctx.bad("run(start, init, assumptions) walks the WTO built from the CFG entry without checking that it contains the start "
                    "block: started at a block the CFG entry does not reach, every component is skipped and every invariant except "
                    "pre(start) stays bottom (least solution: the states reachable from the start block)", fn, accs[0],
                    sig="start-not-in-wto", rid=rid)
    return n
