"""K8a: switches over enums (exhaustiveness, default stands for the single
remaining enumerator, per-case table extraction)."""
from ..tree import (walk, strip, is_call, is_ref, src, callee, children)
from ..match import strip_move


def enum_items(db, files, pk):
    for e in db.enums(files, pk=pk):
        return [i["n"] for i in e["items"]]
    return None


def first_enum_ref(e):
    for x in walk(e):
        if x.get("k") == "ref" and x.get("rk") == "enum":
            return x
    return None


def switch_cases(sw):
    """list of (labels, stmts): labels = list of enumerator names or
    'default'; stmts = statements executed for those labels up to the next
    label group (fall-through between groups is reported via the 'falls' flag)"""
    groups = []
    cur_labels = []
    cur_stmts = []
    for x in sw.get("b", []):
        k = x.get("k")
        if k in ("case", "default"):
            if cur_stmts:
                groups.append((cur_labels, cur_stmts))
                cur_labels, cur_stmts = [], []
            if k == "default":
                cur_labels.append("default")
            else:
                r = first_enum_ref(x.get("v"))
                cur_labels.append(r["n"] if r else src(x.get("v")))
        else:
            cur_stmts.append(x)
    if cur_labels or cur_stmts:
        groups.append((cur_labels, cur_stmts))
    return groups


def find_switch_on_param(fn, idx):
    p = fn["params"][idx]["id"] if idx < len(fn.get("params", [])) else None
    for n in walk(fn["body"], into_lambdas=False):
        if n.get("k") == "switch":
            c = strip(n.get("c"))
            if isinstance(c, dict) and c.get("k") == "ref" and c.get("id") == p:
                return n
    return None


def case_result_enum(stmts):
    """enumerator returned / produced by a case body: `return optional(OP_X)`"""
    for s in stmts:
        if s.get("k") == "ret":
            r = first_enum_ref(s.get("v"))
            if r is not None:
                return r["n"]
            return "<none>"
    return None
