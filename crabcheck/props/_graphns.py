"""Vertex-id namespace typing for the graph-based domains (split_dbm,
sparse_dbm, split_oct): in operations that look at two graphs at once, a
vertex id obtained from one value's graph / vertex map must not be used to
index the other value's graph.  Only definite mismatches are reported; ids whose
origin the rule cannot determine yield no verdict."""
from ..tree import (walk, walk_with_parents, strip, is_call, is_ref, is_this, is_field, deref, src, obj, args, callee)
from ..match import (strip_move, resolve_local, local_decls, writes_to)

GRAPH_FILES = ["include/crab/domains/split_dbm.hpp", "include/crab/domains/sparse_dbm.hpp", "include/crab/domains/split_oct.hpp"]
ID_ARGS = {"lookup": (0, 1), "succs": (0,), "preds": (0,), "e_succs": (0,), "e_preds": (0,), "elem": (0, 1), "edge_val": (0, 1),
           "add_edge": (0, 2), "set_edge": (0, 2), "update_edge": (0, 2)}


def _owner_of_object(e):
    """'left' / 'right' / 'this' / 'o' ... for X in X.g / X.vert_map / X (a graph reference)"""
    e = deref(e)
    if not isinstance(e, dict):
        return None
    if e.get("k") == "mem" and e.get("n") in ("g", "vert_map", "rev_map", "potential"):
        b = strip(e.get("b"))
        if is_this(b):
            return "this"
        if isinstance(b, dict) and b.get("k") == "ref":
            return "%s#%s" % (b.get("n"), b.get("id"))
        return None
    return None


class _Owners:
    def __init__(self, body):
        self.body = body
        self.decls = local_decls(body)
        self.loopvars = {}       # var id -> range expression
        for n in walk(body):
            if n.get("k") == "rangefor" and isinstance(n.get("v"), dict):
                self.loopvars[n["v"]["id"]] = n.get("r")
        self.vec_owner = {}
        self._vec_assignments()

    def _vec_assignments(self):
        # VEC[k] = E   (call op '=' / builtin asg on an indexed local vector)
        for n in walk(self.body):
            tgt = val = None
            if n.get("k") == "asg" and n.get("op") == "=":
                tgt, val = strip(n.get("L")), n.get("R")
            elif n.get("k") == "call" and n.get("op") == "=" and "o" in n and n.get("a"):
                tgt, val = strip(n["o"]), n["a"][0]
            if not isinstance(tgt, dict):
                continue
            vec = None
            if tgt.get("k") == "call" and tgt.get("op") == "[]" and is_ref(tgt.get("o")):
                vec = strip(tgt["o"]).get("id")
            elif tgt.get("k") == "idx" and is_ref(tgt.get("b")):
                vec = strip(tgt["b"]).get("id")
            if vec is None:
                continue
            ow = self.owner(val)
            if ow == "ANY":
                continue
            prev = self.vec_owner.get(vec, ow)
            self.vec_owner[vec] = ow if prev == ow else "MIXED"

    def owner(self, e, depth=0):
        """owner key, 'ANY' (literal 0), or None (unknown)"""
        e = strip_move(e)
        if not isinstance(e, dict) or depth > 8:
            return None
        k = e.get("k")
        if k == "lit":
            return "ANY" if e.get("v") == "0" else None
        if k == "ref" and e.get("rk") == "local":
            vid = e.get("id")
            if vid in self.loopvars:
                r = strip(self.loopvars[vid])
                # for (v : G.verts())
                if isinstance(r, dict) and r.get("k") == "call" and callee(r) and callee(r)["name"] == "verts":
                    return _owner_of_object(r.get("o"))
                return None
            d = self.decls.get(vid)
            if d is not None and "i" in d and not writes_to(self.body, vid):
                return self.owner(d["i"], depth + 1)
            return None
        if k == "mem":
            # edge.vert with edge ranging over G.e_succs / e_preds ; p.second with p over X.vert_map ; it->second with it = X.vert_map.find
            b = deref(e.get("b"))
            if e.get("n") == "vert" and isinstance(b, dict) and b.get("k") == "ref" and b.get("id") in self.loopvars:
                r = strip(self.loopvars[b["id"]])
                if isinstance(r, dict) and r.get("k") == "call" and callee(r) and callee(r)["name"] in ("e_succs", "e_preds"):
                    return _owner_of_object(r.get("o"))
            if e.get("n") == "second" and isinstance(b, dict) and b.get("k") == "ref":
                if b.get("id") in self.loopvars:
                    return _owner_of_object(self.loopvars[b["id"]])
                d = self.decls.get(b.get("id"))
                if d is not None and "i" in d:
                    i = strip_move(d["i"])
                    if isinstance(i, dict) and i.get("k") == "call" and callee(i) and callee(i)["name"] == "find":
                        return _owner_of_object(i.get("o"))
            return None
        if k == "call" and e.get("op") == "[]" and is_ref(e.get("o")):
            return self.vec_owner.get(strip(e["o"]).get("id"))
        if k == "idx" and is_ref(e.get("b")):
            return self.vec_owner.get(strip(e["b"]).get("id"))
        return None


def vertex_namespace_rule(ctx, rid, files=None):
    files = files or GRAPH_FILES
    n_checked = 0
    for f in files:
        if not ctx.db.has_file(f):
            continue
        for fn in ctx.db.fns(f):
            bodies = [(fn["body"], None)]
            # lambdas have their own parameters (left/right): analyse each lambda body on its own as well
            for n in walk(fn["body"]):
                if n.get("k") == "lambda":
                    bodies.append((n.get("b"), n))
            for body, lam in bodies:
                own = _Owners(body)
                for n in walk(body, into_lambdas=(lam is None and False)):
                    if n.get("k") != "call" or not callee(n) or callee(n)["name"] not in ID_ARGS or "o" not in n:
                        continue
                    g = _owner_of_object(n["o"])
                    if g is None:
                        continue
                    for i in ID_ARGS[callee(n)["name"]]:
                        if i >= len(n.get("a", [])):
                            continue
                        ow = own.owner(n["a"][i])
                        if ow in (None, "ANY", "MIXED"):
                            continue
                        n_checked += 1
                        if ow == g:
                            ctx.ok("%s: %s indexed with its own vertex id" % (fn["name"], g.split("#")[0]), fn, n, rid=rid)
                        else:
                            ctx.bad("%s::%s indexes the graph of `%s` with `%s`, a vertex id that belongs to `%s`: vertex numbers are "
                                    "private to each abstract value (two values with different histories number the same variable "
                                    "differently)" % ((fn.get("cpk") or "").split("::")[-1], fn["name"], g.split("#")[0],
                                                      src(n["a"][i])[:30], ow.split("#")[0]), fn, n,
                                    sig="vertex-namespace:%s:%s:%s" % (fn["pk"], callee(n)["name"], src(n["a"][i])[:20]), rid=rid)
    if n_checked == 0:
        ctx.fail("rule %s: no graph access with a classified vertex id found" % rid)
