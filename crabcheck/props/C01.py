"""C01 - forward invariants over-approximate executions (engine-side necessary conditions)."""
from . import _iterator as it

LEVEL_TEXT = ("Clause-level static rules for the engine-side necessary conditions of forward soundness: every vertex joins "
              "the post-states of ALL predecessors starting from bottom; loops are left only at a post-fixpoint "
              "new_pre <= pre where new_pre joins all predecessors after the body was re-analysed; the stored post-state is "
              "the result of analysing the block. Soundness of each domain's transfer functions is NOT decided here "
              "(see C03/C04/C08 for the clauses that are)."
              " The stabilisation test and block-entry join of the wrapped-interval domain rest on an inclusion test whose decision tree is interpreted over all pairs of width-3 circular intervals (every yes is an inclusion).")
ASSUMPTIONS = ["domain operations are sound (C03/C04)", "WTO well formed (C07, not decided)"]


def r1_vertex(ctx):
    ctx.rule("C01.r1", "vertex pre-state = join over ALL predecessors from bottom; then set_pre, compute_post", floor=2)
    it.vertex_rule(ctx, "C01.r1")


def r2_postfixpoint(ctx):
    ctx.rule("C01.r2", "ascending loop left only under new_pre <= pre (join of all predecessors after the body)", floor=2)
    it.ascending_rule(ctx, "C01.r2", None)


def r3_compute_post(ctx):
    ctx.rule("C01.r3", "set_post stores the result of analyze(node, inv)", floor=2)
    it.compute_post_rule(ctx, "C01.r3")


RULES = [r1_vertex, r2_postfixpoint, r3_compute_post]


# ----------------------------------------------------------------------------
from ..tree import walk, strip, is_call, is_ref, is_this, is_field, deref, src, obj, callee
from .. import paths
from ..match import strip_move, is_param, rets, nodes_not_in_log, resolve_local, local_decls, writes_to
from . import _stmts
from . import _enumswitch as es

ABS = "include/crab/analysis/abs_transformer.hpp"
FWD = "include/crab/analysis/fwd_analyzer.hpp"
IAT = "crab::analyzer::intra_abs_transformer"

EXEMPT_EXEC = {"intrinsic_stmt": "semantics of an intrinsic is domain-defined (the print_invariants intrinsic has no outputs)"}


def r4_def_use(ctx):
    ctx.rule("C01.r4", "exec(S&) overwrites every operand S registers as def, on every path", floor=100)
    ctx.rule("C01.r5", "every operand exec(S&) reads is registered as a use of S (liveness pruning must not forget it)", floor=200)
    kinds = _stmts.def_coverage_rule(ctx, "C01.r4", "C01.r5", ABS, IAT, exempt=EXEMPT_EXEC)
    if kinds is not None and len(kinds) < 33:
        ctx.fail("rule C01.r4: exec overrides found for %d statement kinds, expected 33" % len(kinds))


def r4b_table(ctx):
    ctx.rule("C01.r4b", "each statement kind is mapped to the reviewed domain operation with its operands in the reviewed positions", floor=33)
    _stmts.exec_table_rule(ctx, "C01.r4b", "exec_forward", ABS, IAT)


def r6_visit_exec(ctx):
    ctx.rule("C01.r6", "abs_transformer_api::visit(S&) forwards to exec(S&) for all 33 kinds", floor=33)
    infos = _stmts.statement_table(ctx.db)
    fs = [f for f in ctx.db.fns(ABS, cpk="crab::analyzer::abs_transformer_api", name="visit")]
    if not ctx.need(fs, "abs_transformer_api::visit"):
        return
    seen = set()
    for fn in fs:
        info = _stmts.stmt_info_for(fn, infos)
        if info is None or (info.name, fn.get("targs")) in seen:
            continue
        seen.add((info.name, fn.get("targs")))
        calls = [n for n in walk(fn["body"]) if is_call(n, name="exec") and is_this(n.get("o")) and n.get("a") and is_param(n["a"][0], fn, 0)]
        if len(calls) == 1:
            ctx.ok("visit(%s) -> exec" % info.name, fn, calls[0])
        else:
            ctx.bad("abs_transformer_api::visit(%s&) does not forward to exec(s): the statement kind is ignored by every "
                    "transformer" % info.name, fn, fn["body"], sig="visit-no-exec:%s" % info.name)
    kinds = {k for k, _ in seen}
    for info in infos.values():
        if info.name not in kinds:
            ctx.bad("abs_transformer_api has no visit(%s&)" % info.name, None, None, sig="visit-missing:%s" % info.name)


CONV = {"BINOP_ADD": "OP_ADDITION", "BINOP_SUB": "OP_SUBTRACTION", "BINOP_MUL": "OP_MULTIPLICATION", "BINOP_SDIV": "OP_SDIV",
        "BINOP_UDIV": "OP_UDIV", "BINOP_SREM": "OP_SREM", "BINOP_UREM": "OP_UREM", "BINOP_AND": "OP_AND", "BINOP_OR": "OP_OR",
        "BINOP_XOR": "OP_XOR", "BINOP_SHL": "OP_SHL", "BINOP_LSHR": "OP_LSHR", "BINOP_ASHR": "OP_ASHR",
        "CAST_TRUNC": "OP_TRUNC", "CAST_SEXT": "OP_SEXT", "CAST_ZEXT": "OP_ZEXT",
        "BINOP_BAND": "OP_BAND", "BINOP_BOR": "OP_BOR", "BINOP_BXOR": "OP_BXOR"}


def r7_conv_op(ctx):
    ctx.rule("C01.r7", "conv_op maps every CFG operator to the domain operator of the same meaning", floor=19)
    fs = ctx.db.fns(ABS, pk="crab::analyzer::conv_op")
    if not ctx.need(fs, "conv_op specialisations"):
        return
    ops = "include/crab/cfg/cfg_operators.hpp"
    covered = {}
    for fn in fs:
        sw = es.find_switch_on_param(fn, 0)
        if sw is None:
            ctx.undecided("conv_op is not a switch on its parameter", fn, fn["body"])
            continue
        src_enum = fn["params"][0]["TC"]
        items = es.enum_items(ctx.db, ops, src_enum) or []
        named = set()
        for labels, stmts in es.switch_cases(sw):
            res = es.case_result_enum(stmts)
            for lab in labels:
                if lab == "default":
                    continue
                named.add(lab)
                want = CONV.get(lab)
                if res == want:
                    ctx.ok("%s -> %s" % (lab, res), fn, stmts[0] if stmts else sw)
                    covered.setdefault(lab, []).append(res)
                else:
                    ctx.bad("conv_op maps %s to %s; the operator of the same meaning is %s" % (lab, res, want), fn,
                            stmts[0] if stmts else sw, sig="conv:%s" % lab)
                    covered.setdefault(lab, []).append(res)
        for labels, stmts in es.switch_cases(sw):
            if "default" in labels:
                res = es.case_result_enum(stmts)
                rest = [i for i in items if i not in named]
                if res in (None, "<none>"):
                    continue        # 'not an operator of this class'
                if len(rest) == 1 and CONV.get(rest[0]) == res:
                    ctx.ok("default stands for %s -> %s" % (rest[0], res), fn, stmts[0])
                    covered.setdefault(rest[0], []).append(res)
                else:
                    ctx.bad("the default: of conv_op returns %s for the uncovered enumerators %s" % (res, rest), fn, stmts[0],
                            sig="conv-default:%s" % src_enum)
    for lab in CONV:
        if lab not in covered:
            ctx.bad("no conv_op maps %s: statements with this operator hit the unsupported-operator path" % lab, fs[0], None, sig="conv-missing:%s" % lab)


def r8_prune(ctx):
    ctx.rule("C01.r8", "pruning forgets only (dead-at-exit minus formals); analyze prunes after all statements were executed", floor=2)
    fs = ctx.db.fns(FWD, pk="crab::analyzer::analyzer_internal_impl::fwd_analyzer::prune_dead_variables")
    if not ctx.need(fs, "prune_dead_variables"):
        return
    for fn in fs:
        body = fn["body"]
        d = local_decls(body)
        muts = [n for n in walk(body) if n.get("k") == "call" and "o" in n and is_param(n["o"], fn, 1) and callee(n) and not callee(n).get("const")]
        fg = [n for n in muts if callee(n)["name"] == "forget"]
        if len(muts) != 1 or len(fg) != 1:
            ctx.bad("prune_dead_variables mutates the invariant with %s; only forget(dead) is allowed" % [src(m)[:40] for m in muts],
                    fn, body, sig="prune-mutations")
            continue
        # forget argument derives from dead_exit(node) after `dead -= m_formals`
        def gen(n):
            if n.get("k") == "call" and n.get("op") == "-=" and any(is_field(x, "m_formals") for x in walk(n)):
                return ("minus_formals",)
            return ()
        f = paths.must_events(body, gen)
        arg = resolve_local(body, fg[0]["a"][0], d)
        from_dead = False
        for x in walk(arg):
            if x.get("k") == "ref" and x.get("rk") == "local":
                dd = d.get(x.get("id"))
                if dd is not None and "i" in dd and any(is_call(y, name="dead_exit") for y in walk(dd["i"])):
                    from_dead = True
        if from_dead and "minus_formals" in f.at.get(id(fg[0]), ()):
            ctx.ok("inv.forget(dead_exit(node) - m_formals)", fn, fg[0])
        else:
            ctx.bad("the pruned set is not `dead_exit(node) - formals` (live or formal variables would be forgotten%s)" %
                    ("" if from_dead else "; argument is " + src(arg)[:60]), fn, fg[0], sig="prune-set")
    for fn in ctx.db.fns(FWD, pk="crab::analyzer::analyzer_internal_impl::fwd_analyzer::analyze"):
        body = fn["body"]
        def gen(n):
            if n.get("k") == "rangefor" :
                return ()
            return ()
        loops = [l for l in walk(body) if l.get("k") == "rangefor" and any(is_call(x, name="accept") for x in walk(l.get("b")))]
        pr = [n for n in walk(body) if is_call(n, name="prune_dead_variables")]
        if loops and pr:
            order = [x for x in walk(body) if x is loops[0] or x is pr[0]]
            if order[0] is loops[0] and not any(pr[0] is x for x in walk(loops[0])):
                ctx.ok("analyze: all statements executed, then dead variables pruned", fn, pr[0])
            else:
                ctx.bad("dead variables are pruned before/while the block's statements are executed", fn, pr[0], sig="prune-order")
        elif loops:
            ctx.ok("analyze executes every statement of the block", fn, loops[0])
        else:
            ctx.bad("fwd_analyzer::analyze does not execute the statements of the block", fn, body, sig="analyze-no-loop")
        for l in loops:
            if any(x.get("k") in ("break", "continue") for x in walk(l.get("b"))) or strip(l.get("r")).get("k") != "ref":
                ctx.bad("analyze skips statements of the block", fn, l, sig="analyze-skips")


RULES += [r4_def_use, r4b_table, r6_visit_exec, r7_conv_op, r8_prune]


def r9_initial_states(ctx):
    ctx.rule("C01.r9", "the initial states are an input of EVERY predecessor join at the block the analysis starts at (vertex visit, "
             "cycle entry, ascending and descending re-joins), and no visit analyses a block with its stored pre-state", floor=4)
    it.initial_states_rule(ctx, "C01.r9")


def r10_self_loop(ctx):
    from . import C07
    C07.r6_self_loop_head(ctx, rid="C01.r10")


RULES += [r9_initial_states, r10_self_loop]


def r12_wrapped_inclusion(ctx):
    ctx.rule("C01.r12", "the stabilisation test `new_pre <= pre` and the join of block entries of the wrapped-interval domain rest on "
             "wrapped_interval::operator<=: every yes of that operator over all pairs of width-3 circular intervals is an inclusion "
             "(same rule instance as C13.r14)", floor=1)
    from . import C13
    C13.r14_wrapped_inclusion_exact(ctx)
    r = ctx.rules.pop("C13.r14", None)
    if r is not None:
        tgt = ctx.rules["C01.r12"]
        for k in ("ok", "bad", "undecided"):
            tgt[k] += r[k]
        tgt["samples"] += r["samples"]
        for v in ctx.violations:
            if v["rule"] == "C13.r14":
                v["rule"] = "C01.r12"
                v["rule_desc"] = tgt["desc"]


RULES += [r12_wrapped_inclusion]
