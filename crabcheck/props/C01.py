"""C01 - forward invariants over-approximate executions (engine-side necessary conditions)."""
from . import _iterator as it

LEVEL_TEXT = ("Clause-level static rules for the engine-side necessary conditions of forward soundness: every vertex joins "
              "the post-states of ALL predecessors starting from bottom; loops are left only at a post-fixpoint "
              "new_pre <= pre where new_pre joins all predecessors after the body was re-analysed; the stored post-state is "
              "the result of analysing the block. Soundness of each domain's transfer functions is NOT decided here "
              "(see C03/C04/C08 for the clauses that are).")
ASSUMPTIONS = ["domain operations are sound (C03/C04)", "WTO well formed (C07, not decided)"]


def r1_vertex(ctx):
    ctx.rule("C01.r1", "vertex pre-state = join over ALL predecessors from bottom; then set_pre, compute_post", floor=2)
    it.vertex_rule(ctx, "C01.r1")


def r2_postfixpoint(ctx):
    ctx.rule("C01.r2", "ascending loop left only under new_pre <= pre (join of all predecessors after the body)", floor=2)
    it.ascending_rule(ctx, "C01.r2", None)


def r3_compute_post(ctx):
    ctx.rule("C01.r3", "set_post stores the result of analyze(node, inv)", floor=2)
    it.compute_post_rule(ctx, "C01.r3")


RULES = [r1_vertex, r2_postfixpoint, r3_compute_post]
