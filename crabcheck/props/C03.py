"""C03 - every abstract-domain operation is sound under arbitrary histories (interface-level necessary conditions)."""
from . import _domains as dm
from . import _graphns
from . import _pairs

LEVEL_TEXT = ("The headline (numeric soundness of every transfer function for every history) is not decidable statically. Decided: "
              "interface-level necessary conditions shared by the 27 in-tree domain classes - (r1) every transfer function redefines "
              "or forgets its result parameter on every non-bottom path (environment, product, lifting, array and region domains; "
              "graph and term domains are out of the rule's fragment), (r2) every operator switch dispatches OP_X to the scalar "
              "operation of the same meaning, (r4) the shared select / weak-update / entailment kernels pair each branch copy with "
              "its own value, join, and negate the constraint, (r5) the Boolean-numerical reduced product drops the facts cached for "
              "the previous definition of a Boolean on every path that redefines it, (r6) graph domains never index one value's "
              "graph with a vertex id of another value, (r7) twin statements that propagate one new edge to both bounds use the "
              "same path weight, (r10) dual sets order by reverse inclusion and test membership as `this <= {e}`, (r11) the Boolean-numerical "
              "product marks a variable as unchanged only after the constraints cached over it were dropped (or the mark was known)."
              " Zones / octagons give up on an expression with a term they cannot represent instead of dropping it; the value-partitioning merge pass re-examines a merged partition (symbolic iterator positions) and reads partition intervals as closed. The Boolean-numerical product negates a remembered singleton only if it is a definition (r21, known F113) and hands its numerical part only constraints that mention no Boolean variable (r22, known F114).")
ASSUMPTIONS = ["scalar operations are sound (C08)", "closure / constraint-propagation algorithms of the relational domains are correct (not decided)"]

OUT_OF_FRAGMENT = {k: "kills the lhs through vertex / term-table bookkeeping the rule does not model"
                   for k in ()}


def r1_lhs_kill(ctx):
    ctx.rule("C03.r1", "every transfer function redefines / forgets its result parameter on every non-bottom path", floor=400)
    cls = dm.lhs_kill_rule(ctx, "C03.r1", out_of_fragment=OUT_OF_FRAGMENT)
    if len(cls) < 15:
        ctx.fail("rule C03.r1: decided for %d domain classes only" % len(cls))


def r2_enum_dispatch(ctx):
    ctx.rule("C03.r2", "operator switches dispatch OP_X to the scalar operation of the same meaning", floor=150)
    dm.enum_dispatch_rule(ctx, "C03.r2")


def r4_kernels(ctx):
    ctx.rule("C03.r4", "select kernels pair each branch copy with its own value and join", floor=20)
    dm.select_kernel_rule(ctx, "C03.r4")
    ctx.rule("C03.r4w", "weak-update kernels apply the strong update to a copy and join it", floor=4)
    dm.weak_kernel_rule(ctx, "C03.r4w")
    ctx.rule("C03.r4e", "default entailment: special cases and is_bottom(copy + not c)", floor=4)
    dm.entails_kernel_rule(ctx, "C03.r4e")


def r5_cache(ctx):
    ctx.rule("C03.r5", "Boolean-numerical product: cached reduction facts are dropped whenever a Boolean is redefined", floor=6)
    dm.cache_invalidation_rule(ctx, "C03.r5")


def r6_vertex_namespace(ctx):
    ctx.rule("C03.r6", "graph domains: a vertex id of one value never indexes another value's graph", floor=10)
    _graphns.vertex_namespace_rule(ctx, "C03.r6")


def r7_twin_updates(ctx):
    ctx.rule("C03.r7", "incremental closure: the two bound updates of one new path use the same path weight", floor=4)
    _pairs.twin_update_rule(ctx, "C03.r7")


RULES = [r1_lhs_kill, r2_enum_dispatch, r4_kernels, r5_cache, r6_vertex_namespace, r7_twin_updates]


# ------------------------------------------------------------------ lost update on a copy
from ..tree import walk, strip, is_call, is_field, is_this, obj, callee, src      # noqa: E402
from ..match import local_decls, strip_move                              # noqa: E402

UF_FILES = ("include/crab/domains/union_find_domain.hpp", "include/crab/domains/numerical_packing.hpp")


def r8_lost_update(ctx):
    ctx.rule("C03.r8", "union-find / packing: an equivalence class taken out of the class table BY VALUE and then mutated is written back "
             "(or returned); otherwise the mutation happens on a discarded copy", floor=2)
    n_sites = 0
    for f in UF_FILES:
        if not ctx.db.has_file(f):
            continue
        for fn in ctx.db.fns(f):
            body = fn["body"]
            d = local_decls(body)
            for dd in d.values():
                t = (dd.get("T") or "")
                if "i" not in dd or t.rstrip().endswith("&") or t.rstrip().endswith("*") or "equivalence_class" not in (dd.get("TC") or t):
                    continue
                init = strip_move(dd["i"])
                # initialised from an element of one of the value's own tables
                from_table = any((is_call(x, name=("at", "operator[]")) and is_field(obj(x))) or
                                 (x.get("k") == "mem" and x.get("n") == "second") for x in walk(init))
                if not from_table:
                    continue
                vid = dd["id"]
                muts = []
                stores = []
                for x in walk(body):
                    if x.get("k") == "call" and callee(x):
                        o = strip(x.get("o")) if "o" in x else None
                        if isinstance(o, dict) and o.get("k") == "ref" and o.get("id") == vid and not callee(x).get("const"):
                            muts.append(x)
                        # written back / handed on: appears (moved or copied) as an argument of another call, or returned
                        def is_var(a, depth=0):
                            a = strip_move(a)
                            if isinstance(a, dict) and a.get("k") == "ref" and a.get("id") == vid:
                                return True
                            if isinstance(a, dict) and depth < 3 and (a.get("k") in ("ctor", "ilist") or is_call(a, name=("make_pair", "move", "forward"))):
                                return any(is_var(z, depth + 1) for z in a.get("a", []))
                            return False
                        for a in x.get("a", []):
                            if is_var(a) and not (isinstance(o, dict) and o.get("id") == vid):
                                if callee(x)["name"] not in ("operator<<",):
                                    stores.append(x)
                    if x.get("k") == "ret" and any(y.get("k") == "ref" and y.get("id") == vid for y in walk(x.get("v"))):
                        stores.append(x)
                    if x.get("k") == "asg" and any(y.get("k") == "ref" and y.get("id") == vid for y in walk(x.get("R"))):
                        stores.append(x)
                if not muts:
                    continue
                n_sites += 1
                # order: some store after the last mutation (textual order in the body)
                order = [x for x in walk(body) if any(x is m for m in muts) or any(x is st for st in stores)]
                last_mut = max(i for i, x in enumerate(order) if any(x is m for m in muts))
                stored_after = any(i > last_mut for i, x in enumerate(order) if any(x is st for st in stores))
                if stored_after:
                    ctx.ok("%s: copy `%s` mutated and written back" % (fn["name"], dd["n"]), fn, dd)
                else:
                    ctx.bad("%s::%s copies an equivalence class out of the class table (`%s %s = %s`), mutates the COPY with `%s` and never "
                            "stores it back: the class kept in the table is unchanged (the forgotten variable keeps its constraints)" %
                            ((fn.get("cpk") or "").split("::")[-1], fn["name"], t[:40], dd["n"], src(init)[:40], src(muts[0])[:50]),
                            fn, muts[0], sig="lost-update:%s:%s" % (fn["name"], dd["n"]))
    if n_sites == 0:
        # positive witness: the rename() idiom copies, erases and re-inserts
        ctx.fail("rule C03.r8: no mutated by-value copy of an equivalence class found (the rename idiom disappeared)")


RULES += [r8_lost_update]


def r9_container_replaced_in_loop(ctx):
    ctx.rule("C03.r9", "powerset: inside a loop that indexes m_disjuncts with a size cached before the loop, a call that REPLACES the "
             "vector (set_to_top / set_to_bottom / clear) is followed by return or break - never by a further iteration", floor=2)
    PW = "include/crab/domains/powerset_domain.hpp"
    from ..paths import terminates
    n = 0
    for fn in ctx.db.fns(PW, cpk="crab::domains::powerset_domain"):
        body = fn["body"]
        for l in walk(body):
            if l.get("k") != "for":
                continue
            # index loop over m_disjuncts with cached size
            hdr = [l.get("i"), l.get("c")]
            if not any(is_field(x, "m_disjuncts") for h in hdr for x in walk(h)):
                continue
            cached = any(is_call(x, name="size") for x in walk(l.get("i")))
            for blk in [b for b in walk(l.get("b")) if b.get("k") == "seq"]:
                stmts = blk.get("b", [])
                for i, st in enumerate(stmts):
                    if not any((is_call(x, name=("set_to_top", "set_to_bottom")) and ("o" not in x or is_this(x.get("o")))) or
                               (is_call(x, name="clear") and is_field(obj(x), "m_disjuncts")) for x in walk(st) if st.get("k") not in ("if", "for", "seq")):
                        continue
                    n += 1
                    rest = stmts[i + 1:]
                    stops = any(x.get("k") in ("ret", "break") for r in rest for x in [r]) or any(terminates(r) for r in rest)
                    if stops or not cached:
                        ctx.ok("%s: loop left after the vector is replaced" % fn["name"], fn, st)
                    else:
                        ctx.bad("powerset_domain::%s replaces m_disjuncts with `%s` inside the loop over its elements and keeps iterating "
                                "with the size cached before the loop: m_disjuncts[i] is then out of bounds (undefined behaviour; "
                                "AddressSanitizer reports container-overflow)" % (fn["name"], src(st)[:40]), fn, st,
                                sig="vector-replaced-in-loop:%s" % fn["name"])
    if n == 0:
        ctx.fail("rule C03.r9: no set_to_top()/set_to_bottom() inside a loop over m_disjuncts found")


RULES += [r9_container_replaced_in_loop]


# ------------------------------------------------------------------ dual sets and the validity marks of the Boolean product
DD = "include/crab/domains/discrete_domains.hpp"


def r10_dual_set_membership(ctx):
    ctx.rule("C03.r10", "dual_set_domain (the larger the set, the more precise): operator<= is reverse inclusion of the underlying sets "
             "and the membership test at(e) is `*this <= {e}` (never `{e} <= *this`, which holds for the empty set and fails for "
             "every set with a second element)", floor=2)
    from ..match import rets, resolve_local
    from ..tree import deref
    fns = [f for f in ctx.db.fns(DD, cpk="crab::domains::dual_set_domain")]
    if not ctx.need(fns, "dual_set_domain methods", "C03.r10"):
        return
    n_at = n_le = 0
    for fn in fns:
        if fn["name"] == "operator<=":
            # the comparison of the underlying sets has the ARGUMENT's set on the left
            for r in rets(fn["body"]):
                for c in walk(r):
                    if is_call(c, name="operator<=") and is_field(obj(c), "m_set") and c.get("a") and is_field(c["a"][0], "m_set"):
                        n_le += 1
                        lhs_own = is_this(deref(obj(c)).get("b"))
                        rhs_own = is_this(deref(c["a"][0]).get("b"))
                        if (not lhs_own) and rhs_own:
                            ctx.ok("dual_set_domain::operator<= is reverse inclusion", fn, c)
                        else:
                            ctx.bad("dual_set_domain::operator<= compares `%s`: the dual order must be REVERSE inclusion "
                                    "(other.m_set <= m_set)" % src(c)[:60], fn, c, sig="dual-order-direction")
        if fn["name"] == "at" and len(fn.get("params", [])) == 1:
            pid = fn["params"][0]["id"]
            d = local_decls(fn["body"])
            for r in rets(fn["body"]):
                e = strip(r.get("v") if r.get("k") == "ret" else r)
                if not (isinstance(e, dict) and is_call(e, name="operator<=")):
                    ctx.skipped("C03.r10|at|%s" % src(r)[:40], rid="C03.r10")
                    continue
                n_at += 1

                def from_param(x):
                    x = strip(x)
                    if isinstance(x, dict) and x.get("k") == "ref" and x.get("rk") == "local":
                        dd = d.get(x.get("id")) or {}
                        return "i" in dd and any(y.get("k") == "ref" and y.get("id") == pid for y in walk(dd["i"]))
                    return any(y.get("k") == "ref" and y.get("id") == pid for y in walk(x)) if isinstance(x, dict) else False

                def is_self(x):
                    x = deref(x)
                    return x is None or (isinstance(x, dict) and x.get("k") == "this")
                L, R = obj(e), (e.get("a") or [None])[0]
                if is_self(L) and from_param(R):
                    ctx.ok("dual_set_domain::at(e) tests *this <= {e}", fn, e)
                elif from_param(L) and is_self(R):
                    ctx.bad("dual_set_domain::at(e) tests `{e} <= *this`: in the dual order that is `the set is a subset of {e}` - true "
                            "for the empty set, false for every set that also holds another element - not membership of e", fn, e,
                            sig="dual-membership-direction")
                else:
                    ctx.skipped("C03.r10|at|%s" % src(e)[:40], rid="C03.r10")
    if n_at == 0 or n_le == 0:
        ctx.fail("rule C03.r10: dual_set_domain::at / operator<= not found in the expected comparison form")


def r11_validity_mark(ctx):
    ctx.rule("C03.r11", "Boolean-numerical product: a variable is added to m_unchanged_vars (the mark that makes the constraints cached over "
             "it applicable) only where it is known to carry the mark already or after the constraints cached over it have been dropped "
             "from BOTH constraint caches; a variable redefined by expand() loses the mark", floor=2)
    from ..paths import MustEvents, Unstructured
    from ..tree import deref
    fns = [f for f in ctx.db.fns(dm.FB, cpk=dm.FBN) if not f.get("static")]
    if not ctx.need(fns, "flat_boolean_numerical_domain methods", "C03.r11"):
        return
    CACHES = ("m_bool_to_lincsts", "m_bool_to_refcsts")
    # helpers that drop from the cache passed as first argument the constraints mentioning the variable passed as second argument:
    # their body filters the cache with transform_if and removes elements (operator-=) inside the transformer
    purgers = set()
    for f in fns:
        if len(f.get("params", [])) != 2:
            continue
        env_id = f["params"][0]["id"]
        for c in walk(f["body"]):
            if is_call(c, name="transform_if") and c.get("a") and any(y.get("k") == "ref" and y.get("id") == env_id for y in walk(c["a"][0])):
                if any(is_call(y, name="operator-=") for x in c["a"][1:] for y in walk(x)):
                    purgers.add(f["name"])
    n = 0
    for fn in fns:
        body = fn["body"]
        sites = [c for c in walk(body) if is_call(c, name="operator+=") and is_field(obj(c), "m_unchanged_vars")]
        if fn["name"] == "expand" and len(fn.get("params", [])) == 2:
            n += 1
            new_id = fn["params"][1]["id"]
            drops = [c for c in walk(body) if is_call(c, name="operator-=") and is_field(obj(c), "m_unchanged_vars") and c.get("a") and
                     any(y.get("k") == "ref" and y.get("id") == new_id for y in walk(c["a"][0]))]
            adds = [c for c in sites if any(y.get("k") == "ref" and y.get("id") == new_id for y in walk(c["a"][0]))]
            if drops and not adds:
                ctx.ok("expand: the redefined variable loses the unchanged mark", fn, drops[0])
            else:
                ctx.bad("flat_boolean_numerical_domain::expand(x, new_x) overwrites new_x but %s: the constraints cached over the previous "
                        "value of new_x are applied to the copy by a later assume_bool" %
                        ("adds it to m_unchanged_vars" if adds else "does not remove it from m_unchanged_vars"), fn, (adds or [body])[0],
                        sig="expand-keeps-mark")
            sites = [s for s in sites if s not in adds]
        if not sites:
            continue

        def gen(x):
            out = []
            if x.get("k") == "call" and callee(x) and callee(x)["name"] in purgers and len(x.get("a", [])) == 2:
                m, v = strip(x["a"][0]), strip(x["a"][1])
                if is_field(m) and deref(m).get("n") in CACHES and isinstance(v, dict) and v.get("k") == "ref":
                    out.append("purged:%s:%s" % (deref(m)["n"], v.get("id")))
            return out

        def refine(cond, pol):
            # `m_unchanged_vars.at(v)` known to hold: v already carries the mark, nothing becomes applicable
            def atom_for(c):
                c = strip(c)
                if is_call(c, name="at") and is_field(obj(c), "m_unchanged_vars") and c.get("a"):
                    return c
                return None
            c, p = strip(cond), pol
            while isinstance(c, dict) and c.get("k") == "un" and c.get("op") == "!":
                c, p = strip(c.get("e")), not p
            a = atom_for(c)
            if a is not None and p:
                v = strip(a["a"][0])
                if isinstance(v, dict) and v.get("k") == "ref":
                    return tuple("purged:%s:%s" % (m, v.get("id")) for m in CACHES)
            return ()
        try:
            fl = MustEvents(gen, refine=refine)
            fl.run(body)
        except Unstructured:
            ctx.skipped("C03.r11|%s" % fn["name"], rid="C03.r11")
            continue
        for s in sites:
            n += 1
            v = strip(s["a"][0])
            st = fl.at.get(id(s))
            vid = v.get("id") if isinstance(v, dict) and v.get("k") == "ref" else None
            if st is not None and vid is not None and all(("purged:%s:%s" % (m, vid)) in st for m in CACHES):
                ctx.ok("%s: `%s` marked unchanged after its stale cached constraints are dropped" % (fn["name"], src(v)), fn, s)
            elif st is None:
                ctx.ok("%s: unreachable mark" % fn["name"], fn, s)
            else:
                ctx.bad("flat_boolean_numerical_domain::%s adds `%s` to m_unchanged_vars on a path where the variable may have been modified "
                        "since a constraint over it was cached, without dropping those constraints from %s first: "
                        "b := (x <= 3); x := 10; c := (x >= 0); assume(b) then re-applies x <= 3" %
                        (fn["name"], src(v), " and ".join(CACHES)), fn, s, sig="unchanged-mark-without-purge:%s" % fn["name"])
    if n == 0:
        ctx.fail("rule C03.r11: no addition to m_unchanged_vars found")


RULES += [r10_dual_set_membership, r11_validity_mark]


# ------------------------------------------------------------------ fixed_tvpi: ghost variables stand for v / COEF
TV = "include/crab/domains/fixed_tvpi_domain.hpp"
TVC = "crab::domains::fixed_tvpi_domain"


from .. import paths   # noqa: E402


def r12_tvpi_ghosts(ctx):
    ctx.rule("C03.r12", "fixed_tvpi_domain: the ghost variable G(v) stands for v / COEF. (a) every rewrite helper of an operation that "
             "redefines x redefines or forgets G(x) on every path; (b) each rewrite of x := y op z establishes exactly that meaning: "
             "the branch taken for sample constants z (1, COEF, multiples of COEF, others) is interpreted over exact rationals and the "
             "value it gives to G(x) / x is compared with (y op z) / COEF resp. y op z", floor=20)
    from fractions import Fraction
    from ..paths import MustEvents, Unstructured
    from ..tree import deref
    fns = [f for f in ctx.db.fns(TV, cpk=TVC) if f["name"] in ("rewrite_apply", "rewrite_apply_var", "rewrite_assign")]
    if not ctx.need(fns, "fixed_tvpi_domain rewrite helpers", "C03.r12"):
        return
    seen = set()
    for fn in fns:
        key = (fn["name"], fn.get("psig"))
        if key in seen:
            continue            # one instantiation is enough: the helpers do not depend on the base domain
        seen.add(key)
        body = fn["body"]
        d = local_decls(body)
        xs = [p for p in fn.get("params", []) if p["n"] == "x"] or [p for p in fn.get("params", []) if "variable" in (p.get("T") or "")][:1]
        if not xs:
            ctx.skipped("C03.r12|%s|no written parameter" % fn["name"], rid="C03.r12")
            continue
        xid = xs[0]["id"]

        def ghost_of(e, d=d):
            """parameter id whose ghost the expression denotes, or None"""
            e = strip(e)
            for _ in range(4):
                if isinstance(e, dict) and e.get("k") == "ctor" and len(e.get("a", [])) == 1:
                    e = strip(e["a"][0])
            if isinstance(e, dict) and e.get("k") == "ref" and e.get("rk") == "local":
                dd = d.get(e.get("id")) or {}
                if "i" in dd:
                    for c in walk(dd["i"]):
                        if is_call(c, name="get_ghost_var") and c.get("a"):
                            a0 = strip(c["a"][0])
                            if isinstance(a0, dict) and a0.get("k") == "call" and a0.get("op") == "*":
                                a0 = strip(a0.get("o"))      # *y  (optional dereference)
                            if isinstance(a0, dict) and a0.get("k") == "ref":
                                return a0.get("id")
            return None

        # (a) ghost kill
        def gen(n):
            out = []
            if n.get("k") == "call" and callee(n):
                nm = callee(n)["name"]
                a = n.get("a", [])
                if is_field(obj(n), "m_base_absval") if n.get("o") is not None else False:
                    tgt = None
                    if nm in ("assign", "weak_assign", "operator-=") and a:
                        tgt = a[0]
                    elif nm == "apply" and len(a) >= 2:
                        tgt = a[1]
                    if tgt is not None and ghost_of(tgt) == xid:
                        out.append("ghost-killed")
                if nm in ("rewrite_apply", "rewrite_apply_var") and len(a) >= 2 and (n.get("o") is None or is_this(deref(n.get("o")))):
                    t = strip(a[1])
                    if isinstance(t, dict) and t.get("k") == "ref" and t.get("id") == xid:
                        out.append("ghost-killed")
            return out
        try:
            fl = MustEvents(gen)
            fl.run(body)
        except Unstructured:
            ctx.skipped("C03.r12|%s" % fn["name"], rid="C03.r12")
            continue
        for r, st in fl.returns:
            if "ghost-killed" in st:
                ctx.ok("%s: G(x) redefined or forgotten" % fn["name"], fn, r)
            else:
                ctx.bad("fixed_tvpi_domain::%s can return without redefining or forgetting the ghost variable of the variable the "
                        "operation redefines: G(x) keeps the quotient of the PREVIOUS value of x and later constraints over x are "
                        "rewritten with it" % fn["name"], fn, r if r is not None else body, sig="tvpi-stale-ghost:%s" % fn["name"])
        if fn["name"] == "rewrite_assign":
            # (c) the base domain has already overwritten x: a rewritten right-hand side that mentions x itself reads the new value
            g = paths.guards(body)
            for c in walk(body):
                if not (c.get("k") == "call" and callee(c) and callee(c)["name"] in ("assign", "weak_assign") and
                        c.get("o") is not None and is_field(obj(c), "m_base_absval") and len(c.get("a", [])) == 2 and
                        ghost_of(c["a"][0]) == xid and any(is_call(y, name="rewrite_linear_expression") for y in walk(c["a"][1]))):
                    continue

                def self_ref_atom(cond, d=d, body=body):
                    c0 = strip(cond)
                    if isinstance(c0, dict) and c0.get("k") == "ref" and c0.get("rk") == "local":
                        from ..match import writes_to
                        ws = writes_to(body, c0["id"])
                        if any(cmp_parts_eq_x(y) for w in ws for y in walk(w)):
                            return 1
                    return 0

                def cmp_parts_eq_x(y):
                    from ..match import cmp_parts
                    p = cmp_parts(y)
                    return bool(p and p[0] == "==" and any(isinstance(strip(z), dict) and strip(z).get("k") == "ref" and
                                                          strip(z).get("id") == xid for z in (p[1], p[2])))
                from ..match import guard_truth
                if guard_truth(g.get(id(c), ()), self_ref_atom, body) is False:
                    ctx.ok("rewrite_assign: G(x) := rewrite(e) only when the rewritten expression does not mention x", fn, c)
                else:
                    ctx.bad("fixed_tvpi_domain::rewrite_assign assigns G(x) := rewrite(e) without having excluded that the rewritten "
                            "expression mentions x itself (a term COEF*x becomes x): the base domain has already overwritten x, so "
                            "x := 2*x - 2 records x/2 := x_new - 1", fn, c, sig="tvpi-rewrite-reads-overwritten-x")
        if fn["name"] != "rewrite_apply" or len(fn.get("params", [])) != 5:
            continue

        # (b) identities by exact interpretation
        pid = {p["n"]: p["id"] for p in fn["params"]}
        P_OP, P_X, P_Y, P_Z, P_N = [fn["params"][i]["id"] for i in range(5)]

        class _Unk(Exception):
            pass

        def num(e, env):
            e = strip(e)
            if not isinstance(e, dict):
                raise _Unk("num")
            k = e.get("k")
            if k == "lit":
                return Fraction(int(e["v"]))
            if k in ("ctor", "cast") and (len(e.get("a", [])) == 1 or "e" in e):
                return num(e["a"][0] if "a" in e else e["e"], env)
            if k == "ref":
                if e.get("id") == P_Z:
                    return env["z"]
                if e.get("id") == P_N:
                    return env["N"]
                if e.get("rk") == "local":
                    dd = d.get(e.get("id")) or {}
                    if "i" in dd:
                        return num(dd["i"], env)
                if e.get("rk") == "enum":
                    return Fraction(int(e.get("v")))
                if e.get("id") == P_OP:
                    return Fraction(env["op"])
                raise _Unk(src(e))
            if k == "un" and e.get("op") == "-":
                return -num(e.get("e"), env)
            if k == "call" and e.get("op") in ("%", "/", "*", "+", "-") and "o" in e and e.get("a"):
                a, b = num(e["o"], env), num(e["a"][0], env)
                if e["op"] == "%":
                    if b == 0 or a.denominator != 1 or b.denominator != 1:
                        raise _Unk("%")
                    return Fraction(abs(int(a)) % abs(int(b)))
                if e["op"] == "/":
                    if b == 0:
                        raise _Unk("/0")
                    if a.denominator == 1 and b.denominator == 1:
                        # z_number division truncates toward zero
                        q = abs(int(a)) // abs(int(b))
                        return Fraction(q if (a >= 0) == (b > 0) else -q)
                    return a / b
                return {"*": a * b, "+": a + b, "-": a - b}[e["op"]]
            if k == "bin" and e.get("op") in ("%", "/", "*", "+", "-"):
                a, b = num(e["L"], env), num(e["R"], env)
                return {"*": a * b, "+": a + b, "-": a - b, "/": a / b, "%": Fraction(int(a) % int(b))}[e["op"]]
            raise _Unk(src(e)[:30])

        def cond(e, env):
            e = strip(e)
            k = e.get("k")
            if k == "bin" and e.get("op") in ("||", "&&"):
                a, b = cond(e["L"], env), cond(e["R"], env)
                return (a or b) if e["op"] == "||" else (a and b)
            if k == "un" and e.get("op") == "!":
                return not cond(e.get("e"), env)
            if k == "lit" and e.get("v") in ("true", "false"):
                return e["v"] == "true"
            if k == "call" and e.get("op") in ("==", "!=") and "o" in e and e.get("a"):
                ids = {z.get("id") for z in (strip(e["o"]), strip(e["a"][0])) if isinstance(z, dict) and z.get("k") == "ref"}
                if ids == {P_X, P_Y}:
                    return env["alias"] if e["op"] == "==" else not env["alias"]
            if k == "bin" and e.get("op") in ("==", "!="):
                r = num(e["L"], env) == num(e["R"], env)
                return r if e["op"] == "==" else not r
            if k == "call" and e.get("op") in ("==", "!=") and "o" in e and e.get("a"):
                r = num(e["o"], env) == num(e["a"][0], env)
                return r if e["op"] == "==" else not r
            raise _Unk(src(e)[:40])

        def val(e, env):
            """rational value of a variable operand (real variable or ghost)"""
            g = ghost_of(e)
            if g is not None:
                v = env["vars"].get(("g", g), env["vars"].get(("r", g)) / env["N"] if env["vars"].get(("r", g)) is not None and ("g", g) not in env["vars"] else None)
                return env["vars"].get(("g", g))
            x = strip(e)
            for _ in range(4):
                if isinstance(x, dict) and x.get("k") == "ctor" and len(x.get("a", [])) == 1:
                    x = strip(x["a"][0])
            if isinstance(x, dict) and x.get("k") == "ref" and x.get("rk") == "param":
                return env["vars"].get(("r", x["id"]))
            try:
                return num(e, env)
            except _Unk:
                raise _Unk("operand " + src(e)[:30])

        def target(e):
            g = ghost_of(e)
            if g is not None:
                return ("g", g)
            x = strip(e)
            if isinstance(x, dict) and x.get("k") == "ref" and x.get("rk") == "param":
                return ("r", x["id"])
            raise _Unk("target " + src(e)[:30])
        OPS = {0: lambda a, b: a + b, 1: lambda a, b: a - b, 2: lambda a, b: a * b, 3: lambda a, b: a / b}

        def run(n, env):
            """returns True when a `return` was executed"""
            if not isinstance(n, dict):
                return False
            k = n.get("k")
            if k == "seq":
                for x in n.get("b", []):
                    if run(x, env):
                        return True
                return False
            if k == "if":
                if cond(n.get("c"), env):
                    return run(n.get("t"), env)
                return run(n.get("e"), env) if "e" in n else False
            if k == "ret":
                return True
            if k in ("decl", "cast", "null"):
                return False
            if k == "do" and n.get("m") in ("CRAB_LOG", "CRAB_WARN", "assert"):
                return False
            if k == "call" and callee(n) and n.get("o") is not None and is_field(obj(n), "m_base_absval"):
                nm = callee(n)["name"]
                a = n.get("a", [])
                def store(t, v, env=env):
                    env["vars"][t] = v
                    if env["alias"]:
                        other = (t[0], P_Y if t[1] == P_X else P_X)
                        env["vars"][other] = v
                if nm == "assign" and len(a) == 2:
                    store(target(a[0]), val(a[1], env))
                    return False
                if nm == "operator-=" and len(a) == 1:
                    store(target(a[0]), None)
                    return False
                if nm == "apply" and len(a) == 4:
                    o = int(num(a[0], env))
                    l, r = val(a[2], env), num(a[3], env)
                    store(target(a[1]), None if (l is None or o not in OPS or (o == 3 and r == 0)) else OPS[o](l, r))
                    return False
            raise _Unk("statement " + src(n)[:40])
        n_eval = 0
        for N, alias in ((2, False), (3, False), (2, True)):
            for op in (0, 1, 2, 3, 4):
                for z in (1, N, 2 * N, -3 * N, N + 1, 5 * N + 1):
                    y = Fraction(5040 * N)
                    x_old = y if alias else Fraction(77)
                    env = {"N": Fraction(N), "z": Fraction(z), "op": op, "alias": alias,
                           "vars": {("r", P_Y): y, ("g", P_Y): y / N, ("g", P_X): x_old / N}}
                    # the enclosing apply() has already performed the operation on the real variable
                    x_new = OPS[op](y, Fraction(z)) if op in OPS else None
                    env["vars"][("r", P_X)] = x_new
                    if alias:
                        # x and y are the same variable: the real y now holds the NEW value, its ghost still the old quotient
                        env["vars"][("r", P_Y)] = x_new
                        env["vars"][("g", P_Y)] = x_old / N
                    try:
                        run(body, env)
                    except _Unk as e:
                        ctx.skipped("C03.r12|id|%d|%d|%d%s" % (N, op, z, "|alias" if alias else ""), rid="C03.r12")
                        continue
                    n_eval += 1
                    gx, rx = env["vars"].get(("g", P_X)), env["vars"].get(("r", P_X))
                    opn = {0: "+", 1: "-", 2: "*", 3: "/"}.get(op, "?")
                    if x_new is not None and rx is not None and rx != x_new:
                        ctx.bad("fixed_tvpi_domain::rewrite_apply: for x := y %s %d with COEF = %d the rewrite gives x the value %s for "
                                "y = %s, the operation gives %s" % (opn, z, N, rx, y, x_new), fn, body,
                                sig="tvpi-identity:x:%s:%s%s" % (opn, "multiple" if z % N == 0 and abs(z) != N else z, ":x-is-y" if alias else ""))
                    elif gx is not None and (x_new is None or gx != x_new / N):
                        ctx.bad("fixed_tvpi_domain::rewrite_apply: for x := y %s %d with COEF = %d the rewrite records G(x) = %s for "
                                "y = %s, but x / COEF = %s" % (opn, z, N, gx, y, (x_new / N) if x_new is not None else "unknown"), fn, body,
                                sig="tvpi-identity:ghost:%s:%s%s" % (opn, "multiple" if z % N == 0 and abs(z) != N else z, ":x-is-y" if alias else ""))
                    else:
                        ctx.ok("rewrite_apply: x := y %s %d, COEF %d: G(x) %s" % (opn, z, N, "forgotten" if gx is None else "= x / COEF"),
                               fn, body, key="C03.r12|id|%d|%d|%d%s" % (N, op, z, "|alias" if alias else ""))
        if n_eval == 0:
            ctx.fail("rule C03.r12: no rewrite of rewrite_apply could be interpreted")


def r12d_tvpi_integrality(ctx):
    ctx.rule("C03.r12d", "fixed_tvpi_domain: G(v) = v / COEF is a RATIONAL quantity; when the number type is an integer type the ghost "
             "variable must not be an integer variable of an integer base domain (which tightens constraints over it as if it were "
             "integral)", floor=1)
    fs = [f for f in ctx.db.fns(TV, cpk=TVC) if f["name"] == "get_ghost_var"]
    if not ctx.need(fs, "fixed_tvpi_domain::get_ghost_var", "C03.r12d"):
        return
    seen = set()
    for fn in fs:
        if fn.get("cls") in seen:
            continue
        seen.add(fn.get("cls"))
        integer = "z_number" in (fn.get("cls") or "") or "z_" in (fn.get("cls") or "")
        if not integer:
            ctx.ok("get_ghost_var over a rational number type", fn, fn["body"])
            continue
        body = fn["body"]
        from ..match import rets
        same_type = [r for r in rets(body) if any(is_call(y, name="get_type") for y in walk(r))]
        if same_type:
            ctx.bad("fixed_tvpi_domain::get_ghost_var creates the ghost of v with v's own (integer) type: G(v) stands for the rational "
                    "v / COEF, and the integer base domain reasons about it as an integer - a, b in [0,2]; assume(2 - 3a + b == 0) "
                    "becomes 1 - 3G(a) + G(b) == 0 over integers in [0,1] and the value is bottom although a = b = 1 is a model",
                    fn, same_type[0], sig="tvpi-ghost-integral")
        else:
            ctx.ok("ghost variable not typed as the integer variable", fn, body)


RULES += [r12_tvpi_ghosts, r12d_tvpi_integrality]


# ------------------------------------------------------------------ disequations with non-unit coefficients
def r13_exact_quotient(ctx):
    ctx.rule("C03.r13", "disequations c*x != r: the quotient Q = r / c (a ROUNDING interval division) is used to exclude values of x "
             "(trim_interval, add_univar_disequation) only where `Q * c == r` has been established - 2*x != 5 excludes no integer, "
             "and e < 0 is rewritten into e <= 0 and e != 0, so strict inequalities depend on it too", floor=4)
    from .. import paths as _p
    SITES = (("include/crab/domains/linear_interval_solver.hpp", "propagate"),
             ("include/crab/domains/split_dbm.hpp", "add_disequation"),
             ("include/crab/domains/sparse_dbm.hpp", "add_disequation"),
             ("include/crab/domains/split_oct.hpp", "add_disequation"))
    from ..match import guard_truth, writes_to, cmp_parts, resolve_local
    n = 0
    seen = set()
    for f, name in SITES:
        if not ctx.db.has_file(f):
            continue
        for fn in ctx.db.fns(f, name=name):
            k = (f, fn.get("pk"))
            body = fn["body"]
            d = local_decls(body)
            g = _p.guards(body)
            # quotients: locals initialised / assigned with an interval division
            quot = {}
            for dd in d.values():
                srcs = ([dd["i"]] if "i" in dd else []) + [w for w in writes_to(body, dd["id"])]
                for e in srcs:
                    for c in walk(e):
                        if c.get("k") == "call" and c.get("op") == "/" and "o" in c and c.get("a"):
                            quot[dd["id"]] = c
            if not quot:
                continue

            def is_exact_cmp(x, quot=quot):
                p = cmp_parts(x)
                if not p or p[0] != "==":
                    return False
                for a, b in ((p[1], p[2]), (p[2], p[1])):
                    a = strip(a)
                    if isinstance(a, dict) and a.get("k") == "call" and a.get("op") == "*":
                        ops = [strip(a.get("o"))] + [strip(y) for y in a.get("a", [])]
                        if any(isinstance(o, dict) and o.get("k") == "ref" and o.get("id") in quot for o in ops):
                            return True
                return False

            def atom(c, d=d, body=body):
                c0 = strip(c)
                if is_exact_cmp(c0):
                    return 1
                if isinstance(c0, dict) and c0.get("k") == "ref" and c0.get("rk") == "local":
                    dd = d.get(c0.get("id")) or {}
                    ws = writes_to(body, c0["id"])
                    vals = ([dd["i"]] if "i" in dd else []) + [w.get("R") if w.get("k") == "asg" else (w.get("a") or [None])[0] for w in ws]
                    if vals and all((isinstance(strip(v), dict) and strip(v).get("k") == "lit" and strip(v).get("v") == "false") or
                                    any(is_exact_cmp(y) for y in walk(v)) for v in vals if v is not None):
                        if any(any(is_exact_cmp(y) for y in walk(v)) for v in vals if v is not None):
                            return 1
                return 0
            for c in walk(body):
                if not (c.get("k") == "call" and callee(c) and callee(c)["name"] in ("trim_interval", "add_univar_disequation",
                                                                                    "inequalities_from_disequation")):
                    continue
                # does an argument derive from a quotient (directly, or through `auto k = Q.singleton()`)?
                def from_quot(e, depth=0):
                    for y in walk(e):
                        if y.get("k") == "ref" and y.get("id") in quot:
                            return True
                        if y.get("k") == "ref" and y.get("rk") == "local" and depth < 3:
                            dd = d.get(y.get("id")) or {}
                            if "i" in dd and from_quot(dd["i"], depth + 1):
                                return True
                    return False
                if not any(from_quot(a) for a in c.get("a", [])):
                    continue
                if (k, c.get("l")) in seen:
                    continue
                seen.add((k, c.get("l")))
                n += 1
                if guard_truth(g.get(id(c), ()), atom, body) is True:
                    ctx.ok("%s: quotient used to exclude a value only when exact" % name, fn, c)
                else:
                    ctx.bad("%s::%s excludes the quotient of a rounding division from the values of the pivot without having checked that "
                            "coefficient * quotient is the residual: x in [2,10]; assume(2*x != 5) gives [3,10] (and assume(2*x < 5) "
                            "with x in [0,10] gives [0,1])" % ((fn.get("cpk") or "").split("::")[-1], name), fn, c,
                            sig="inexact-quotient-excluded:%s" % name)
    if n == 0:
        ctx.fail("rule C03.r13: no use of a quotient in a disequation found")


RULES += [r13_exact_quotient]


def r14_expand_unrelated(ctx):
    ctx.rule("C03.r14", "expand(var, new_var) makes a copy that is NOT related to var: no implementation assigns var to new_var or binds "
             "new_var to the representation (term) of var - relational and term domains would record new_var == var, and loads from a "
             "smashed array (which go through expand) would equate the loaded value with the summary of all cells", floor=15)
    dom = dm.domain_classes(ctx.db)
    n = 0
    seen = set()
    for f in sorted(set(c["file"] for c in dom.values())):
        for fn in ctx.db.fns(f, name="expand"):
            if fn.get("cls") not in dom or len(fn.get("params", [])) != 2:
                continue
            key = fn.get("cpk")
            if key in seen:
                continue
            seen.add(key)
            n += 1
            body = fn["body"]
            d = local_decls(body)
            xid, yid = fn["params"][0]["id"], fn["params"][1]["id"]

            def derives(e, pid, depth=0, fresh_ok=True):
                """does e derive from parameter pid (through locals) without passing through a fresh_var()?"""
                for z in walk(e):
                    if z.get("k") == "ref" and z.get("id") == pid:
                        return True
                    if z.get("k") == "ref" and z.get("rk") == "local" and depth < 4:
                        dd = d.get(z.get("id")) or {}
                        if "i" in dd and not any(is_call(q, name="fresh_var") for q in walk(dd["i"])) and derives(dd["i"], pid, depth + 1):
                            return True
                return False
            bad = None
            for c in walk(body):
                if not (c.get("k") == "call" and callee(c) and callee(c)["name"] in ("assign", "assign_bool_var", "rebind_var", "apply", "weak_assign")):
                    continue
                a = c.get("a", [])
                tgt = [i for i, z in enumerate(a) if derives(z, yid)]
                srcs = [i for i, z in enumerate(a) if derives(z, xid) and i not in tgt]
                if tgt and srcs:
                    bad = c
                    break
            if bad is not None:
                ctx.bad("%s::expand(var, new_var) relates the copy to the original with `%s`: expand must produce an UNRELATED copy "
                        "(x in [0,5]; expand(x, y); assume(y <= 2) must leave x in [0,5])" % ((key or "").split("::")[-1], src(bad)[:50]),
                        fn, bad, sig="expand-relates-copy:%s" % (key or "").split("::")[-1])
            else:
                ctx.ok("%s::expand does not relate new_var to var" % (key or "").split("::")[-1], fn, body)
    if n == 0:
        ctx.fail("rule C03.r14: no expand implementation found")


RULES += [r14_expand_unrelated]


def r15_no_float_on_weights(ctx):
    ctx.rule("C03.r15", "zones / octagons: a weight (bound) is never converted to `float` / `double` on its way into the graph - a float "
             "has 24 bits of mantissa, so 2*floor((float)w/2) turns 2^26+3 into 2^26 and loses an integer solution", floor=1)
    n = 0
    hit = []
    for f in ("include/crab/domains/split_oct.hpp", "include/crab/domains/split_dbm.hpp", "include/crab/domains/sparse_dbm.hpp"):
        if not ctx.db.has_file(f):
            continue
        seen = set()
        for fn in ctx.db.fns(f):
            key = (fn["name"], fn.get("psig"))
            if key in seen:
                continue
            seen.add(key)
            n += 1
            for x in walk(fn["body"]):
                if x.get("k") == "cast" and (x.get("T") or x.get("TC") or "") in ("float", "double", "long double"):
                    # only conversions of weights: the operand mentions a weight reference / graph lookup result
                    opnd = x.get("e") or {}
                    if any(is_call(y, name=("get", "edge_val")) or (y.get("k") == "ref" and "Wt" in (y.get("T") or "")) for y in walk(opnd)):
                        hit.append((fn, x))
    if n == 0:
        ctx.fail("rule C03.r15: graph-domain files not found")
        return
    if hit:
        for fn, x in hit[:3]:
            ctx.bad("%s::%s converts a weight to %s (`%s`): weights above 2^24 are rounded, e.g. the integer tightening of "
                    "2x <= 2^26+3 becomes 2x <= 2^26 and excludes x = 2^25+1" % ((fn.get("cpk") or "").split("::")[-1], fn["name"],
                                                                               x.get("T") or "float", src(x)[:40]), fn, x,
                    sig="weight-through-float:%s" % fn["name"])
    else:
        ctx.ok("no weight is converted to a floating-point type (%d functions)" % n, None, None)


RULES += [r15_no_float_on_weights]


def r16_unrepresentable_term_not_dropped(ctx):
    ctx.rule("C03.r16", "zones / octagons turn a linear expression into difference constraints term by term; a term whose coefficient or bound "
             "cannot be converted to the weight type (overflow flag of ntow::convert) must make the extraction give up - skipping it "
             "(`continue`) treats the term as 0: assume(y + 2^70*z <= 0) gives y <= 0 and x := y + 2^70*z gives x = y", floor=5)
    files = ("include/crab/domains/split_dbm.hpp", "include/crab/domains/sparse_dbm.hpp", "include/crab/domains/split_oct.hpp")
    n = 0
    seen = set()
    for f in files:
        for fn in ctx.db.fns(f):
            if not fn.get("body") or not (fn["name"].startswith("diffcsts_of") or fn["name"].startswith("oct_csts_of")) or (f, fn["line"]) in seen:
                continue
            seen.add((f, fn["line"]))
            body = fn["body"]
            g = paths.guards(body)
            decls = local_decls(body)
            flags = {d["id"] for d in decls.values() if d.get("n") in ("overflow", "underflow")}
            conts = [x for x in walk(body, into_lambdas=False) if x.get("k") == "continue"]
            bad = None
            for c in conts:
                for cond, pol in g.get(id(c), ()):
                    if isinstance(cond, tuple):
                        continue
                    if pol and any(isinstance(y, dict) and y.get("k") == "ref" and y.get("id") in flags for y in walk(cond)):
                        bad = c
            n += 1
            if bad is not None:
                ctx.bad("%s::%s skips a term of the expression when its coefficient / bound overflows the weight type: the term is treated as "
                        "0 and the extracted difference constraints are wrong (assume(y + 2^70*z <= 0) gives y <= 0 although y = 5, z = -1 "
                        "satisfies it)" % ((fn.get("cpk") or "").split("::")[-1], fn["name"]), fn, bad,
                        sig="term-dropped-on-overflow:%s:%s" % ((fn.get("cpk") or "").split("::")[-1], fn["name"]))
            else:
                ctx.ok("%s::%s never skips a term on overflow" % ((fn.get("cpk") or "").split("::")[-1], fn["name"]), fn, body)
    if n == 0:
        ctx.fail("rule C03.r16: diffcsts_of_* not found")


RULES += [r16_unrepresentable_term_not_dropped]


def r17_merged_partition_reexamined(ctx):
    from ..match import cmp_parts, strip_move
    ctx.rule("C03.r17", "value partitioning: the pass that merges overlapping partitions (sorted by lower bound) compares a partition "
             "that has just absorbed its successor AGAIN with its new successor - the absorbed one may be shorter than the absorbing one "
             "([0,10], [2,3], [5,6]); iterator positions are interpreted symbolically along the merge branch up to the next test", floor=1)
    VP = "include/crab/domains/value_partitioning_domain.hpp"
    fs = [f for f in ctx.db.fns(VP, name="update_partitions") if f.get("body")]
    if not ctx.need(fs, "value_partitioning_domain::update_partitions"):
        return
    fn = fs[0]
    body = fn["body"]
    loops = [l for l in walk(body) if l.get("k") in ("for", "while") and any(is_call(c, name="erase") for c in walk(l.get("b")))
             and any(is_call(c, name="join_interval") for c in walk(l.get("b")))]
    if not loops:
        ctx.fail("rule C03.r17: merge loop of update_partitions not found")
        return
    loop = loops[-1]
    lb = loop.get("b")
    stmts = lb.get("b", []) if lb.get("k") == "seq" else [lb]
    test = [s for s in stmts if s.get("k") == "if" and any(is_call(c, name="ub") for c in walk(s.get("c"))) and any(is_call(c, name="lb") for c in walk(s.get("c")))]
    if len(test) != 1:
        ctx.undecided("update_partitions: the overlap test of the merge loop was not found", fn, loop)
        return
    test = test[0]
    # the overlap test in either polarity: `ub >= lb`, `!(ub < lb)`, ...
    cp = None
    for x in walk(test.get("c")):
        q = cmp_parts(x) if isinstance(x, dict) and x.get("k") in ("call", "bin") else None
        if q and any(is_call(y, name="ub") for y in walk(q[1])) and any(is_call(y, name="lb") for y in walk(q[2])):
            cp = q
            break
        if q and any(is_call(y, name="lb") for y in walk(q[1])) and any(is_call(y, name="ub") for y in walk(q[2])):
            cp = (q[0], q[2], q[1])
            break
    if cp is None:
        ctx.undecided("update_partitions: the overlap comparison was not found in `%s`" % src(test.get("c"))[:50], fn, test)
        return
    # which branch of the test is the merge branch
    merge_in_then = any(is_call(c, name="erase") for c in walk(test.get("t")))

    def it_of(e):
        for x in walk(e):
            if isinstance(x, dict) and x.get("k") == "ref" and x.get("rk") == "local":
                return x.get("id")
        return None
    left, right = it_of(cp[1]), it_of(cp[2])       # it->ub() >= next_it->lb()
    prefix = stmts[:stmts.index(test)]
    then = test.get("t") if merge_in_then else test.get("e")
    then_stmts = then.get("b", []) if isinstance(then, dict) and then.get("k") == "seq" else [then]
    incr = [loop["n"]] if loop.get("n") is not None else []
    cond = [loop["c"]] if loop.get("c") is not None else []
    pos = {left: 0, right: 1}

    class Unknown(Exception):
        pass

    def val(e):
        e = strip_move(e)
        if isinstance(e, dict) and e.get("k") in ("ctor", "construct") and len(e.get("a", [])) == 1:
            return val(e["a"][0])
        if isinstance(e, dict) and e.get("k") == "ref" and e.get("id") in pos:
            return pos[e["id"]]
        if is_call(e, name="erase") and e.get("a"):
            return val(e["a"][0])        # the element after the erased one takes its index
        if isinstance(e, dict) and e.get("k") == "un" and e.get("op") in ("pre++", "pre--", "post++", "post--"):
            return step(e)
        raise Unknown(src(e)[:40])

    def step(x):
        t = strip(x.get("e"))
        if not (isinstance(t, dict) and t.get("id") in pos):
            raise Unknown(src(x)[:40])
        pos[t["id"]] += 1 if "++" in x["op"] else -1
        return pos[t["id"]]

    def run(s):
        s = strip(s) if isinstance(s, dict) else s
        if not isinstance(s, dict):
            return
        k = s.get("k")
        if k == "seq":
            for y in s.get("b", []):
                run(y)
        elif k == "decl":
            if "i" in s and any(isinstance(y, dict) and y.get("k") == "ref" and y.get("id") in pos for y in walk(s["i"])):
                try:
                    pos[s["id"]] = val(s["i"])
                except Unknown:
                    pass            # a reference to the element, not an iterator
            elif s.get("id") in pos:
                raise Unknown(src(s)[:40])
        elif k == "asg" and isinstance(strip(s.get("L")), dict) and strip(s["L"]).get("id") in pos:
            pos[strip(s["L"])["id"]] = val(s.get("R"))
        elif k == "call" and s.get("op") == "=" and "o" in s and isinstance(strip(s["o"]), dict) and strip(s["o"]).get("id") in pos:
            pos[strip(s["o"])["id"]] = val(s["a"][0])
        elif k == "un" and s.get("op") in ("pre++", "pre--", "post++", "post--") and isinstance(strip(s.get("e")), dict) and strip(s["e"]).get("id") in pos:
            step(s)
        elif k == "call" and s.get("op") in ("++", "--") and "o" in s and isinstance(strip(s["o"]), dict) and strip(s["o"]).get("id") in pos:
            pos[strip(s["o"])["id"]] += 1 if s["op"] == "++" else -1
        elif k == "if":
            # only guards that do not move the iterators are skipped over (e.g. `if (next_it == end) break;`)
            if any(isinstance(y, dict) and ((y.get("k") == "un" and "++" in (y.get("op") or "") + "--") or y.get("k") == "asg") and
                   any(isinstance(z, dict) and z.get("id") in pos for z in walk(y)) for y in walk(s.get("t"))):
                raise Unknown("conditional iterator movement")
        else:
            for y in walk(s):
                if isinstance(y, dict) and y.get("k") in ("asg",) and isinstance(strip(y.get("L")), dict) and strip(y["L"]).get("id") in pos:
                    raise Unknown(src(y)[:40])
    try:
        for s in then_stmts + incr + prefix:
            run(s)
    except Unknown as e:
        ctx.undecided("update_partitions: cannot follow the iterators through `%s`" % e, fn, loop)
        return
    if pos.get(left) == 0 and pos.get(right) == 1:
        ctx.ok("after a merge the next overlap test compares the merged partition with its new successor", fn, test)
    else:
        ctx.bad("value_partitioning_domain::update_partitions: after `it` has absorbed its successor the next overlap test compares positions "
                "(%s, %s) relative to the merged partition instead of (0, 1): the merged partition is never compared with its new successor, "
                "[0,10], [2,3], [5,6] ends as [0,10], [5,6] and the partition-wise meet then drops (x=5, y=1)" % (pos.get(left), pos.get(right)),
                fn, test, sig="merged-partition-not-reexamined")


RULES += [r17_merged_partition_reexamined]


def r18_touching_partitions_overlap(ctx):
    ctx.rule("C03.r18", "value partitioning: partition intervals are CLOSED, so two of them overlap when ub(P) >= lb(Q) and are disjoint "
             "when ub(P) < lb(Q); a test `ub > lb` / `ub <= lb` treats [a,b] and [b,c] as disjoint, leaves both in the list and the "
             "partition-wise meet then drops the states with x = b that sit in different partitions on the two sides", floor=5)
    from ..match import cmp_parts
    VP = "include/crab/domains/value_partitioning_domain.hpp"
    n = 0
    seen = set()
    for fn in ctx.db.fns(VP, cpk="crab::domains::value_partitioning_domain"):
        body = fn.get("body")
        if not body or (fn["name"], fn["line"]) in seen:
            continue
        seen.add((fn["name"], fn["line"]))
        for c in walk(body):
            p = cmp_parts(c) if isinstance(c, dict) and c.get("k") in ("call", "bin") else None
            if not p:
                continue
            op, l, r = p
            kind = lambda e: "ub" if is_call(e, name="ub") and any(is_call(y, name="get_interval") for y in walk(e)) else \
                             "lb" if is_call(e, name="lb") and any(is_call(y, name="get_interval") for y in walk(e)) else None
            kl, kr = kind(l), kind(r)
            if {kl, kr} != {"ub", "lb"}:
                continue
            # normalise to  ub OP lb
            if kl == "lb":
                op = {"<": ">", ">": "<", "<=": ">=", ">=": "<=", "==": "==", "!=": "!="}[op]
            n += 1
            if op in (">=", "<"):
                ctx.ok("%s: ub %s lb (closed intervals)" % (fn["name"], op), fn, c)
            else:
                ctx.bad("value_partitioning_domain::%s tests `ub %s lb`: touching partitions [a,b], [b,c] count as disjoint, so the join "
                        "{[0,1],[5,6]} | {[1,5]} keeps [0,5] and [5,6] side by side and J1 & J2 loses (x=5, y=3)" % (fn["name"], op), fn, c,
                        sig="partition-overlap-strict:%s" % fn["name"])
    if n == 0:
        ctx.fail("rule C03.r18: no ub/lb comparison of partition intervals found")


RULES += [r18_touching_partitions_overlap]


def r19_boolnum_meet_intersects_marks(ctx):
    ctx.rule("C03.r19", "flat_boolean_numerical_domain: an implication remembered by one operand is valid only while ITS variables are "
             "unchanged, so meet and narrowing combine the unchanged-variable marks with the JOIN of the dual set (intersection of the "
             "marks); the meet (union) lets a variable reassigned in one operand count as unchanged again and revives its stale "
             "constraint: (b := (v <= 0); v := 5) & (b2 := (v <= 100)), then assume(b) gives bottom", floor=3)
    FB = "include/crab/domains/flat_boolean_domain.hpp"
    n = 0
    seen = set()
    for fn in ctx.db.fns(FB):
        if not (fn.get("cpk") or "").endswith("flat_boolean_numerical_domain") or fn["name"] not in ("operator&", "operator&=", "operator&&") or not fn.get("body"):
            continue
        if (fn["name"], fn["line"]) in seen:
            continue
        seen.add((fn["name"], fn["line"]))
        combos = [c for c in walk(fn["body"]) if c.get("k") == "call" and c.get("op") in ("&", "&&", "|", "||") and "o" in c and
                  is_field(strip(c["o"]), "m_unchanged_vars")]
        if not combos:
            ctx.undecided("%s: the combination of m_unchanged_vars was not found" % fn["name"], fn, fn["body"])
            continue
        for c in combos:
            n += 1
            if c["op"] in ("|", "||"):
                ctx.ok("%s intersects the unchanged marks" % fn["name"], fn, c)
            else:
                ctx.bad("flat_boolean_numerical_domain::%s unites the unchanged-variable marks of its operands (`%s`): a stale implication of one "
                        "operand is applied again" % (fn["name"], src(c)[:50]), fn, c, sig="boolnum-meet-unites-marks:%s" % fn["name"])
    if n == 0:
        ctx.fail("rule C03.r19: meet / narrowing of flat_boolean_numerical_domain not found")


RULES += [r19_boolnum_meet_intersects_marks]


def r20_select_bool_reads_cond_first(ctx):
    from ..match import is_param
    ctx.rule("C03.r20", "flat_boolean_numerical_domain::select_bool(lhs, cond, b1, b2): what is known about `cond` is read BEFORE the "
             "product assigns lhs, or the aliasing lhs == cond is handled - the reduction that copies the facts of the chosen branch "
             "evaluates cond, and with c := select_bool(c, x, y) it sees the NEW value of c and copies the facts of the wrong branch", floor=1)
    FB = "include/crab/domains/flat_boolean_domain.hpp"
    fs = [f for f in ctx.db.fns(FB, name="select_bool") if (f.get("cpk") or "").endswith("flat_boolean_numerical_domain") and f.get("body")]
    if not ctx.need(fs, "flat_boolean_numerical_domain::select_bool"):
        return
    fn = fs[0]
    body = fn["body"]
    order = [x for x in walk(body) if (is_call(x, name="select_bool") and is_field(strip(x.get("o")), "m_product")) or is_call(x, name="fwd_reduction_select_bool")]
    alias = [x for x in walk(body) if cmp_parts_(x) and any(is_param(z, fn, 0) for z in walk(x) if isinstance(z, dict) and z.get("k") == "ref")
             and any(is_param(z, fn, 1) for z in walk(x) if isinstance(z, dict) and z.get("k") == "ref")]
    if len(order) < 2:
        ctx.undecided("select_bool: the product update and the reduction were not both found", fn, body)
        return
    first_is_reduction = is_call(order[0], name="fwd_reduction_select_bool")
    if first_is_reduction or alias:
        ctx.ok("cond is read before lhs is assigned (or the aliasing is handled)", fn, order[0])
    else:
        ctx.bad("flat_boolean_numerical_domain::select_bool updates the product (lhs := ...) and THEN runs the reduction that evaluates cond: with "
                "lhs == cond - assume(!c); assume(y); c := select_bool(c, x, y); assume(c); assume(!x) - the state becomes bottom although "
                "c = y = true, x = false is reachable", fn, order[0], sig="select-bool-cond-read-after-write")


def cmp_parts_(x):
    from ..match import cmp_parts
    return cmp_parts(x) if isinstance(x, dict) and x.get("k") in ("call", "bin") and x.get("op") in ("==", "!=") else None


RULES += [r20_select_bool_reads_cond_first]


def r21_negation_needs_a_definition(ctx):
    ctx.rule("C03.r21", "flat_boolean_numerical_domain remembers for a Boolean b a set of constraints that hold WHEN b IS TRUE (b => c). "
             "`x := not y` may turn a remembered singleton {c} into {not c} only if c DEFINES y (y <=> c, as after y := (c)); the "
             "reductions of select_bool store sets that are mere consequences (the facts of cond met with those of the chosen operand), "
             "so the negation site must be guarded by something that tells definitions from consequences", floor=1)
    FB = "include/crab/domains/flat_boolean_domain.hpp"
    fs = [f for f in ctx.db.fns(FB) if (f.get("cpk") or "").endswith("flat_boolean_numerical_domain") and f.get("body")]
    if not ctx.need(fs, "flat_boolean_numerical_domain"):
        return
    seen = set()
    producers = []
    negations = []
    for fn in fs:
        if (fn["name"], fn["line"]) in seen:
            continue
        seen.add((fn["name"], fn["line"]))
        body = fn["body"]
        g = None
        for c in walk(body):
            # a consequence set: env.set(lhs, env.at(a) & env.at(b))
            if is_call(c, name="set") and len(c.get("a", [])) == 2:
                v = strip_move(c["a"][1])
                if isinstance(v, dict) and v.get("k") == "call" and v.get("op") == "&" and all(any(is_call(y, name="at") for y in walk(z)) for z in ([v.get("o")] + v.get("a", []))):
                    producers.append((fn, c))
            # a negation of a remembered singleton
            if is_call(c, name="negate") and any(is_call(y, name=("begin",)) for y in walk(body)):
                g = g or paths.guards(body)
                conds = [cnd for cnd, pol in g.get(id(c), ()) if not isinstance(cnd, tuple)]
                sized = any(any(is_call(y, name="size") for y in walk(cnd)) for cnd in conds)
                tagged = any(any(isinstance(y, dict) and y.get("k") in ("call", "mem", "ref") and any(t in ((callee(y) or {}).get("name") or y.get("n") or "").lower()
                                                                                                  for t in ("exact", "defin", "equiv", "iff")) for y in walk(cnd)) for cnd in conds)
                if sized:
                    negations.append((fn, c, tagged))
    if not negations:
        ctx.undecided("no negation of a remembered singleton found", fs[0], fs[0]["body"])
        return
    for fn, c, tagged in negations:
        if tagged or not producers:
            ctx.ok("%s: the negated singleton is known to be a definition" % fn["name"], fn, c)
        else:
            ctx.bad("flat_boolean_numerical_domain::%s negates a remembered singleton {c} as if y <=> c, but `%s` stores sets that are only "
                    "consequences (b => c): cond := (v <= 0); b2 := false; lhs := select_bool(cond, b1, b2); z := not(lhs); assume(z) "
                    "gives v >= 1 although the run v = -5, b1 = false (lhs false, z true) exists" % (fn["name"], producers[0][0]["name"]), fn, c,
                    sig="negates-implied-singleton:%s" % fn["name"])


RULES += [r21_negation_needs_a_definition]


def r22_numeric_part_gets_no_boolean_constraint(ctx):
    ctx.rule("C03.r22", "flat_boolean_numerical_domain::operator+=: the Boolean transfer functions never touch the numerical sub-domain, so a "
             "constraint that mentions a Boolean variable and is stored THERE outlives every later redefinition of that Boolean. Every "
             "constraint handed to m_product.second() must be known to mention no Boolean variable: the whole system only under a flag that "
             "is cleared as soon as one constraint mentions one, a single constraint only where `any_of(vars, is_bool)` is known to be false", floor=2)
    from ..match import writes_to, guard_truth
    FB = "include/crab/domains/flat_boolean_domain.hpp"
    fs = [f for f in ctx.db.fns(FB) if (f.get("cpk") or "").endswith("flat_boolean_numerical_domain") and f.get("body")
          and f["name"] == "operator+=" and "linear_constraint_system" in (f.get("psig") or "")]
    if not ctx.need(fs, "flat_boolean_numerical_domain::operator+=(linear_constraint_system)"):
        return

    def mentions_bool(n):
        # +1: "some variable of the constraint is Boolean", -1: its negation
        if not is_call(n, name=("any_of", "none_of")):
            return 0
        if not any(is_call(y, name="is_bool") for y in walk(n)):
            return 0
        return 1 if callee(n)["name"] == "any_of" else -1

    seen = set()
    for fn in fs:
        if fn["line"] in seen:
            continue
        seen.add(fn["line"])
        body = fn["body"]
        decls = local_decls(body)
        g = paths.guards(body)
        pids = set(p["id"] for p in fn.get("params", []))
        sinks = [c for c in walk(body) if is_call(c) and c.get("op") == "+=" and "o" in c
                 and any(is_call(y, name="second") for y in walk(c["o"])) and c.get("a")]
        if not sinks:
            ctx.undecided("no `m_product.second() += ...` found", fn, body)
            continue
        for s in sinks:
            a = strip(strip_move(s["a"][0]))
            if not (isinstance(a, dict) and a.get("k") == "ref"):
                ctx.undecided("the constraints handed to the numerical sub-domain are not a variable", fn, s)
                continue
            if a.get("id") in pids:
                # the whole input: a flag that is cleared whenever a constraint mentions a Boolean
                flags = [strip(cnd) for cnd, pol in g.get(id(s), ()) if not isinstance(cnd, tuple) and pol
                         and isinstance(strip(cnd), dict) and strip(cnd).get("k") == "ref" and strip(cnd).get("id") in decls]
                good = False
                for fl in flags:
                    d = decls[fl["id"]]
                    init = strip(d.get("i")) if isinstance(d, dict) else None
                    if not (isinstance(init, dict) and init.get("k") == "lit" and str(init.get("v")).lower() in ("true", "1")):
                        continue
                    ws = writes_to(body, fl["id"])
                    clears = []
                    for w in ws:
                        common = set((id(c), p) for c, p in g.get(id(s), ()))   # e.g. the early return on a trivially true input
                        gs = [(c, p) for c, p in g.get(id(w), ()) if not isinstance(c, tuple) and (id(c), p) not in common]
                        # inside a loop over the input, under the atom and nothing else
                        atoms = [guard_truth([(c, p)], mentions_bool, body) for c, p in gs]
                        rhs = strip(w.get("R")) if w.get("k") == "asg" else None
                        is_false = isinstance(rhs, dict) and rhs.get("k") == "lit" and str(rhs.get("v")).lower() in ("false", "0")
                        if is_false and atoms and all(t is True for t in atoms):
                            clears.append(w)
                    in_loop_over_input = any(n.get("k") == "rangefor" and isinstance(strip(n.get("r")), dict) and strip(n.get("r")).get("id") in pids
                                             and any(id(w) == id(y) for w in clears for y in walk(n.get("b"))) for n in walk(body))
                    if clears and len(clears) == len(ws) and in_loop_over_input:
                        good = True
                if good:
                    ctx.ok("the whole system is handed over only under the no-Boolean flag", fn, s)
                else:
                    ctx.bad("flat_boolean_numerical_domain::operator+= hands the whole input to the numerical sub-domain without a flag that is "
                            "cleared for every constraint that mentions a Boolean variable", fn, s, sig="bool-cst-to-numdom:whole-system")
                continue
            if a.get("id") not in decls:
                ctx.undecided("constraints handed to the numerical sub-domain come from a non-local", fn, s)
                continue
            d = decls[a["id"]]
            init = strip(d.get("i")) if isinstance(d, dict) and d.get("i") is not None else None
            if isinstance(init, dict) and not (init.get("k") == "ctor" and not init.get("a")):
                ctx.bad("the system handed to the numerical sub-domain starts as a copy of something else", fn, s, sig="bool-cst-to-numdom:init")
                continue
            ws = [w for w in writes_to(body, a["id"])]
            bad = [w for w in ws if guard_truth(g.get(id(w), ()), mentions_bool, body) is not False]
            if not ws:
                ctx.undecided("nothing is ever added to the system handed to the numerical sub-domain", fn, s)
            elif bad:
                ctx.bad("flat_boolean_numerical_domain::operator+= adds a constraint to the numerical sub-domain on a path where it may mention a "
                        "Boolean variable (only `b == k` equalities are diverted): assume(b >= 1); assume(!c); b := c leaves b -> [1,+oo] in the "
                        "numerical part, the value exports -b <= -1 although the only reachable state has b = 0", fn, bad[0],
                        sig="bool-cst-to-numdom:per-constraint")
            else:
                ctx.ok("every constraint added mentions no Boolean variable", fn, s)


RULES += [r22_numeric_part_gets_no_boolean_constraint]
