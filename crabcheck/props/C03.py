"""C03 - every abstract-domain operation is sound under arbitrary histories (interface-level necessary conditions)."""
from . import _domains as dm
from . import _graphns
from . import _pairs

LEVEL_TEXT = ("The headline (numeric soundness of every transfer function for every history) is not decidable statically. Decided: "
              "interface-level necessary conditions shared by the 27 in-tree domain classes - (r1) every transfer function redefines "
              "or forgets its result parameter on every non-bottom path (environment, product, lifting, array and region domains; "
              "graph and term domains are out of the rule's fragment), (r2) every operator switch dispatches OP_X to the scalar "
              "operation of the same meaning, (r4) the shared select / weak-update / entailment kernels pair each branch copy with "
              "its own value, join, and negate the constraint, (r5) the Boolean-numerical reduced product drops the facts cached for "
              "the previous definition of a Boolean on every path that redefines it, (r6) graph domains never index one value's "
              "graph with a vertex id of another value, (r7) twin statements that propagate one new edge to both bounds use the "
              "same path weight, (r10) dual sets order by reverse inclusion and test membership as `this <= {e}`, (r11) the Boolean-numerical "
              "product marks a variable as unchanged only after the constraints cached over it were dropped (or the mark was known).")
ASSUMPTIONS = ["scalar operations are sound (C08)", "closure / constraint-propagation algorithms of the relational domains are correct (not decided)"]

OUT_OF_FRAGMENT = {k: "kills the lhs through vertex / term-table bookkeeping the rule does not model"
                   for k in ()}


def r1_lhs_kill(ctx):
    ctx.rule("C03.r1", "every transfer function redefines / forgets its result parameter on every non-bottom path", floor=400)
    cls = dm.lhs_kill_rule(ctx, "C03.r1", out_of_fragment=OUT_OF_FRAGMENT)
    if len(cls) < 15:
        ctx.fail("rule C03.r1: decided for %d domain classes only" % len(cls))


def r2_enum_dispatch(ctx):
    ctx.rule("C03.r2", "operator switches dispatch OP_X to the scalar operation of the same meaning", floor=150)
    dm.enum_dispatch_rule(ctx, "C03.r2")


def r4_kernels(ctx):
    ctx.rule("C03.r4", "select kernels pair each branch copy with its own value and join", floor=20)
    dm.select_kernel_rule(ctx, "C03.r4")
    ctx.rule("C03.r4w", "weak-update kernels apply the strong update to a copy and join it", floor=4)
    dm.weak_kernel_rule(ctx, "C03.r4w")
    ctx.rule("C03.r4e", "default entailment: special cases and is_bottom(copy + not c)", floor=4)
    dm.entails_kernel_rule(ctx, "C03.r4e")


def r5_cache(ctx):
    ctx.rule("C03.r5", "Boolean-numerical product: cached reduction facts are dropped whenever a Boolean is redefined", floor=6)
    dm.cache_invalidation_rule(ctx, "C03.r5")


def r6_vertex_namespace(ctx):
    ctx.rule("C03.r6", "graph domains: a vertex id of one value never indexes another value's graph", floor=10)
    _graphns.vertex_namespace_rule(ctx, "C03.r6")


def r7_twin_updates(ctx):
    ctx.rule("C03.r7", "incremental closure: the two bound updates of one new path use the same path weight", floor=4)
    _pairs.twin_update_rule(ctx, "C03.r7")


RULES = [r1_lhs_kill, r2_enum_dispatch, r4_kernels, r5_cache, r6_vertex_namespace, r7_twin_updates]


# ------------------------------------------------------------------ lost update on a copy
from ..tree import walk, strip, is_call, is_field, is_this, obj, callee, src      # noqa: E402
from ..match import local_decls, strip_move                              # noqa: E402

UF_FILES = ("include/crab/domains/union_find_domain.hpp", "include/crab/domains/numerical_packing.hpp")


def r8_lost_update(ctx):
    ctx.rule("C03.r8", "union-find / packing: an equivalence class taken out of the class table BY VALUE and then mutated is written back "
             "(or returned); otherwise the mutation happens on a discarded copy", floor=2)
    n_sites = 0
    for f in UF_FILES:
        if not ctx.db.has_file(f):
            continue
        for fn in ctx.db.fns(f):
            body = fn["body"]
            d = local_decls(body)
            for dd in d.values():
                t = (dd.get("T") or "")
                if "i" not in dd or t.rstrip().endswith("&") or t.rstrip().endswith("*") or "equivalence_class" not in (dd.get("TC") or t):
                    continue
                init = strip_move(dd["i"])
                # initialised from an element of one of the value's own tables
                from_table = any((is_call(x, name=("at", "operator[]")) and is_field(obj(x))) or
                                 (x.get("k") == "mem" and x.get("n") == "second") for x in walk(init))
                if not from_table:
                    continue
                vid = dd["id"]
                muts = []
                stores = []
                for x in walk(body):
                    if x.get("k") == "call" and callee(x):
                        o = strip(x.get("o")) if "o" in x else None
                        if isinstance(o, dict) and o.get("k") == "ref" and o.get("id") == vid and not callee(x).get("const"):
                            muts.append(x)
                        # written back / handed on: appears (moved or copied) as an argument of another call, or returned
                        def is_var(a, depth=0):
                            a = strip_move(a)
                            if isinstance(a, dict) and a.get("k") == "ref" and a.get("id") == vid:
                                return True
                            if isinstance(a, dict) and depth < 3 and (a.get("k") in ("ctor", "ilist") or is_call(a, name=("make_pair", "move", "forward"))):
                                return any(is_var(z, depth + 1) for z in a.get("a", []))
                            return False
                        for a in x.get("a", []):
                            if is_var(a) and not (isinstance(o, dict) and o.get("id") == vid):
                                if callee(x)["name"] not in ("operator<<",):
                                    stores.append(x)
                    if x.get("k") == "ret" and any(y.get("k") == "ref" and y.get("id") == vid for y in walk(x.get("v"))):
                        stores.append(x)
                    if x.get("k") == "asg" and any(y.get("k") == "ref" and y.get("id") == vid for y in walk(x.get("R"))):
                        stores.append(x)
                if not muts:
                    continue
                n_sites += 1
                # order: some store after the last mutation (textual order in the body)
                order = [x for x in walk(body) if any(x is m for m in muts) or any(x is st for st in stores)]
                last_mut = max(i for i, x in enumerate(order) if any(x is m for m in muts))
                stored_after = any(i > last_mut for i, x in enumerate(order) if any(x is st for st in stores))
                if stored_after:
                    ctx.ok("%s: copy `%s` mutated and written back" % (fn["name"], dd["n"]), fn, dd)
                else:
                    ctx.bad("%s::%s copies an equivalence class out of the class table (`%s %s = %s`), mutates the COPY with `%s` and never "
                            "stores it back: the class kept in the table is unchanged (the forgotten variable keeps its constraints)" %
                            ((fn.get("cpk") or "").split("::")[-1], fn["name"], t[:40], dd["n"], src(init)[:40], src(muts[0])[:50]),
                            fn, muts[0], sig="lost-update:%s:%s" % (fn["name"], dd["n"]))
    if n_sites == 0:
        # positive witness: the rename() idiom copies, erases and re-inserts
        ctx.fail("rule C03.r8: no mutated by-value copy of an equivalence class found (the rename idiom disappeared)")


RULES += [r8_lost_update]


def r9_container_replaced_in_loop(ctx):
    ctx.rule("C03.r9", "powerset: inside a loop that indexes m_disjuncts with a size cached before the loop, a call that REPLACES the "
             "vector (set_to_top / set_to_bottom / clear) is followed by return or break - never by a further iteration", floor=2)
    PW = "include/crab/domains/powerset_domain.hpp"
    from ..paths import terminates
    n = 0
    for fn in ctx.db.fns(PW, cpk="crab::domains::powerset_domain"):
        body = fn["body"]
        for l in walk(body):
            if l.get("k") != "for":
                continue
            # index loop over m_disjuncts with cached size
            hdr = [l.get("i"), l.get("c")]
            if not any(is_field(x, "m_disjuncts") for h in hdr for x in walk(h)):
                continue
            cached = any(is_call(x, name="size") for x in walk(l.get("i")))
            for blk in [b for b in walk(l.get("b")) if b.get("k") == "seq"]:
                stmts = blk.get("b", [])
                for i, st in enumerate(stmts):
                    if not any((is_call(x, name=("set_to_top", "set_to_bottom")) and ("o" not in x or is_this(x.get("o")))) or
                               (is_call(x, name="clear") and is_field(obj(x), "m_disjuncts")) for x in walk(st) if st.get("k") not in ("if", "for", "seq")):
                        continue
                    n += 1
                    rest = stmts[i + 1:]
                    stops = any(x.get("k") in ("ret", "break") for r in rest for x in [r]) or any(terminates(r) for r in rest)
                    if stops or not cached:
                        ctx.ok("%s: loop left after the vector is replaced" % fn["name"], fn, st)
                    else:
                        ctx.bad("powerset_domain::%s replaces m_disjuncts with `%s` inside the loop over its elements and keeps iterating "
                                "with the size cached before the loop: m_disjuncts[i] is then out of bounds (undefined behaviour; "
                                "AddressSanitizer reports container-overflow)" % (fn["name"], src(st)[:40]), fn, st,
                                sig="vector-replaced-in-loop:%s" % fn["name"])
    if n == 0:
        ctx.fail("rule C03.r9: no set_to_top()/set_to_bottom() inside a loop over m_disjuncts found")


RULES += [r9_container_replaced_in_loop]


# ------------------------------------------------------------------ dual sets and the validity marks of the Boolean product
DD = "include/crab/domains/discrete_domains.hpp"


def r10_dual_set_membership(ctx):
    ctx.rule("C03.r10", "dual_set_domain (the larger the set, the more precise): operator<= is reverse inclusion of the underlying sets "
             "and the membership test at(e) is `*this <= {e}` (never `{e} <= *this`, which holds for the empty set and fails for "
             "every set with a second element)", floor=2)
    from ..match import rets, resolve_local
    from ..tree import deref
    fns = [f for f in ctx.db.fns(DD, cpk="crab::domains::dual_set_domain")]
    if not ctx.need(fns, "dual_set_domain methods", "C03.r10"):
        return
    n_at = n_le = 0
    for fn in fns:
        if fn["name"] == "operator<=":
            # the comparison of the underlying sets has the ARGUMENT's set on the left
            for r in rets(fn["body"]):
                for c in walk(r):
                    if is_call(c, name="operator<=") and is_field(obj(c), "m_set") and c.get("a") and is_field(c["a"][0], "m_set"):
                        n_le += 1
                        lhs_own = is_this(deref(obj(c)).get("b"))
                        rhs_own = is_this(deref(c["a"][0]).get("b"))
                        if (not lhs_own) and rhs_own:
                            ctx.ok("dual_set_domain::operator<= is reverse inclusion", fn, c)
                        else:
                            ctx.bad("dual_set_domain::operator<= compares `%s`: the dual order must be REVERSE inclusion "
                                    "(other.m_set <= m_set)" % src(c)[:60], fn, c, sig="dual-order-direction")
        if fn["name"] == "at" and len(fn.get("params", [])) == 1:
            pid = fn["params"][0]["id"]
            d = local_decls(fn["body"])
            for r in rets(fn["body"]):
                e = strip(r.get("v") if r.get("k") == "ret" else r)
                if not (isinstance(e, dict) and is_call(e, name="operator<=")):
                    ctx.skipped("C03.r10|at|%s" % src(r)[:40], rid="C03.r10")
                    continue
                n_at += 1

                def from_param(x):
                    x = strip(x)
                    if isinstance(x, dict) and x.get("k") == "ref" and x.get("rk") == "local":
                        dd = d.get(x.get("id")) or {}
                        return "i" in dd and any(y.get("k") == "ref" and y.get("id") == pid for y in walk(dd["i"]))
                    return any(y.get("k") == "ref" and y.get("id") == pid for y in walk(x)) if isinstance(x, dict) else False

                def is_self(x):
                    x = deref(x)
                    return x is None or (isinstance(x, dict) and x.get("k") == "this")
                L, R = obj(e), (e.get("a") or [None])[0]
                if is_self(L) and from_param(R):
                    ctx.ok("dual_set_domain::at(e) tests *this <= {e}", fn, e)
                elif from_param(L) and is_self(R):
                    ctx.bad("dual_set_domain::at(e) tests `{e} <= *this`: in the dual order that is `the set is a subset of {e}` - true "
                            "for the empty set, false for every set that also holds another element - not membership of e", fn, e,
                            sig="dual-membership-direction")
                else:
                    ctx.skipped("C03.r10|at|%s" % src(e)[:40], rid="C03.r10")
    if n_at == 0 or n_le == 0:
        ctx.fail("rule C03.r10: dual_set_domain::at / operator<= not found in the expected comparison form")


def r11_validity_mark(ctx):
    ctx.rule("C03.r11", "Boolean-numerical product: a variable is added to m_unchanged_vars (the mark that makes the constraints cached over "
             "it applicable) only where it is known to carry the mark already or after the constraints cached over it have been dropped "
             "from BOTH constraint caches; a variable redefined by expand() loses the mark", floor=2)
    from ..paths import MustEvents, Unstructured
    from ..tree import deref
    fns = [f for f in ctx.db.fns(dm.FB, cpk=dm.FBN) if not f.get("static")]
    if not ctx.need(fns, "flat_boolean_numerical_domain methods", "C03.r11"):
        return
    CACHES = ("m_bool_to_lincsts", "m_bool_to_refcsts")
    # helpers that drop from the cache passed as first argument the constraints mentioning the variable passed as second argument:
    # their body filters the cache with transform_if and removes elements (operator-=) inside the transformer
    purgers = set()
    for f in fns:
        if len(f.get("params", [])) != 2:
            continue
        env_id = f["params"][0]["id"]
        for c in walk(f["body"]):
            if is_call(c, name="transform_if") and c.get("a") and any(y.get("k") == "ref" and y.get("id") == env_id for y in walk(c["a"][0])):
                if any(is_call(y, name="operator-=") for x in c["a"][1:] for y in walk(x)):
                    purgers.add(f["name"])
    n = 0
    for fn in fns:
        body = fn["body"]
        sites = [c for c in walk(body) if is_call(c, name="operator+=") and is_field(obj(c), "m_unchanged_vars")]
        if fn["name"] == "expand" and len(fn.get("params", [])) == 2:
            n += 1
            new_id = fn["params"][1]["id"]
            drops = [c for c in walk(body) if is_call(c, name="operator-=") and is_field(obj(c), "m_unchanged_vars") and c.get("a") and
                     any(y.get("k") == "ref" and y.get("id") == new_id for y in walk(c["a"][0]))]
            adds = [c for c in sites if any(y.get("k") == "ref" and y.get("id") == new_id for y in walk(c["a"][0]))]
            if drops and not adds:
                ctx.ok("expand: the redefined variable loses the unchanged mark", fn, drops[0])
            else:
                ctx.bad("flat_boolean_numerical_domain::expand(x, new_x) overwrites new_x but %s: the constraints cached over the previous "
                        "value of new_x are applied to the copy by a later assume_bool" %
                        ("adds it to m_unchanged_vars" if adds else "does not remove it from m_unchanged_vars"), fn, (adds or [body])[0],
                        sig="expand-keeps-mark")
            sites = [s for s in sites if s not in adds]
        if not sites:
            continue

        def gen(x):
            out = []
            if x.get("k") == "call" and callee(x) and callee(x)["name"] in purgers and len(x.get("a", [])) == 2:
                m, v = strip(x["a"][0]), strip(x["a"][1])
                if is_field(m) and deref(m).get("n") in CACHES and isinstance(v, dict) and v.get("k") == "ref":
                    out.append("purged:%s:%s" % (deref(m)["n"], v.get("id")))
            return out

        def refine(cond, pol):
            # `m_unchanged_vars.at(v)` known to hold: v already carries the mark, nothing becomes applicable
            def atom_for(c):
                c = strip(c)
                if is_call(c, name="at") and is_field(obj(c), "m_unchanged_vars") and c.get("a"):
                    return c
                return None
            c, p = strip(cond), pol
            while isinstance(c, dict) and c.get("k") == "un" and c.get("op") == "!":
                c, p = strip(c.get("e")), not p
            a = atom_for(c)
            if a is not None and p:
                v = strip(a["a"][0])
                if isinstance(v, dict) and v.get("k") == "ref":
                    return tuple("purged:%s:%s" % (m, v.get("id")) for m in CACHES)
            return ()
        try:
            fl = MustEvents(gen, refine=refine)
            fl.run(body)
        except Unstructured:
            ctx.skipped("C03.r11|%s" % fn["name"], rid="C03.r11")
            continue
        for s in sites:
            n += 1
            v = strip(s["a"][0])
            st = fl.at.get(id(s))
            vid = v.get("id") if isinstance(v, dict) and v.get("k") == "ref" else None
            if st is not None and vid is not None and all(("purged:%s:%s" % (m, vid)) in st for m in CACHES):
                ctx.ok("%s: `%s` marked unchanged after its stale cached constraints are dropped" % (fn["name"], src(v)), fn, s)
            elif st is None:
                ctx.ok("%s: unreachable mark" % fn["name"], fn, s)
            else:
                ctx.bad("flat_boolean_numerical_domain::%s adds `%s` to m_unchanged_vars on a path where the variable may have been modified "
                        "since a constraint over it was cached, without dropping those constraints from %s first: "
                        "b := (x <= 3); x := 10; c := (x >= 0); assume(b) then re-applies x <= 3" %
                        (fn["name"], src(v), " and ".join(CACHES)), fn, s, sig="unchanged-mark-without-purge:%s" % fn["name"])
    if n == 0:
        ctx.fail("rule C03.r11: no addition to m_unchanged_vars found")


RULES += [r10_dual_set_membership, r11_validity_mark]
