"""C03 - every abstract-domain operation is sound under arbitrary histories (interface-level necessary conditions)."""
from . import _domains as dm
from . import _graphns
from . import _pairs

LEVEL_TEXT = ("The headline (numeric soundness of every transfer function for every history) is not decidable statically. Decided: "
              "interface-level necessary conditions shared by the 27 in-tree domain classes - (r1) every transfer function redefines "
              "or forgets its result parameter on every non-bottom path (environment, product, lifting, array and region domains; "
              "graph and term domains are out of the rule's fragment), (r2) every operator switch dispatches OP_X to the scalar "
              "operation of the same meaning, (r4) the shared select / weak-update / entailment kernels pair each branch copy with "
              "its own value, join, and negate the constraint, (r5) the Boolean-numerical reduced product drops the facts cached for "
              "the previous definition of a Boolean on every path that redefines it, (r6) graph domains never index one value's "
              "graph with a vertex id of another value, (r7) twin statements that propagate one new edge to both bounds use the "
              "same path weight.")
ASSUMPTIONS = ["scalar operations are sound (C08)", "closure / constraint-propagation algorithms of the relational domains are correct (not decided)"]

OUT_OF_FRAGMENT = {k: "kills the lhs through vertex / term-table bookkeeping the rule does not model"
                   for k in ()}


def r1_lhs_kill(ctx):
    ctx.rule("C03.r1", "every transfer function redefines / forgets its result parameter on every non-bottom path", floor=400)
    cls = dm.lhs_kill_rule(ctx, "C03.r1", out_of_fragment=OUT_OF_FRAGMENT)
    if len(cls) < 15:
        ctx.fail("rule C03.r1: decided for %d domain classes only" % len(cls))


def r2_enum_dispatch(ctx):
    ctx.rule("C03.r2", "operator switches dispatch OP_X to the scalar operation of the same meaning", floor=150)
    dm.enum_dispatch_rule(ctx, "C03.r2")


def r4_kernels(ctx):
    ctx.rule("C03.r4", "select kernels pair each branch copy with its own value and join", floor=20)
    dm.select_kernel_rule(ctx, "C03.r4")
    ctx.rule("C03.r4w", "weak-update kernels apply the strong update to a copy and join it", floor=4)
    dm.weak_kernel_rule(ctx, "C03.r4w")
    ctx.rule("C03.r4e", "default entailment: special cases and is_bottom(copy + not c)", floor=4)
    dm.entails_kernel_rule(ctx, "C03.r4e")


def r5_cache(ctx):
    ctx.rule("C03.r5", "Boolean-numerical product: cached reduction facts are dropped whenever a Boolean is redefined", floor=6)
    dm.cache_invalidation_rule(ctx, "C03.r5")


def r6_vertex_namespace(ctx):
    ctx.rule("C03.r6", "graph domains: a vertex id of one value never indexes another value's graph", floor=10)
    _graphns.vertex_namespace_rule(ctx, "C03.r6")


def r7_twin_updates(ctx):
    ctx.rule("C03.r7", "incremental closure: the two bound updates of one new path use the same path weight", floor=4)
    _pairs.twin_update_rule(ctx, "C03.r7")


RULES = [r1_lhs_kill, r2_enum_dispatch, r4_kernels, r5_cache, r6_vertex_namespace, r7_twin_updates]
