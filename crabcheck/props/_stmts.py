"""Tables extracted from the CrabIR statement classes (include/crab/cfg/cfg.hpp)
and rules that compare them with what the consumers of statements do.

Nothing here is frozen about the statements themselves: which fields a
statement defines / uses is re-read from its constructors on every run."""
from ..tree import (walk, walk_with_parents, strip, is_call, is_ref, is_this, is_field, deref, same_expr,
                    src, obj, args, callee, in_macro, LOG_MACROS)
from .. import paths
from ..match import (strip_move, is_param, rets, nodes_not_in_log, resolve_local, local_decls, writes_to)

CFG = "include/crab/cfg/cfg.hpp"
STMT_BASE = "crab::cfg::statement"

VAR_TYPES = ("crab::variable<", "ikos::linear_expression<", "ikos::linear_constraint<",
             "crab::reference_constraint<", "crab::variable_or_constant<")


def _fields_in(e, this_only=True):
    out = []
    for x in walk(e):
        if x.get("k") == "mem" and "fn" not in x and is_this(x.get("b")):
            out.append(x.get("n"))
    return out


class StmtInfo:
    def __init__(self, cls):
        self.cls = cls
        self.pk = cls["pk"]
        self.name = cls["pk"].split("::")[-1]
        self.fields = [f for f in cls["fields"] if not f.get("static")]
        self.var_fields = [f["n"] for f in self.fields if any(t in f["CT"] for t in VAR_TYPES)]
        self.defs = set()
        self.uses = set()
        self.accessors = {}      # method name -> field
        self.ctors = []
        self.clone = None
        self.unknown_regs = []   # add_def/add_use whose argument we could not map to a field


def statement_table(db, number="ikos::z_number"):
    """StmtInfo per statement class (one instantiation: the z_number one)"""
    classes = [c for c in db.classes(CFG, dependent=False)
               if any(b.get("pk") == STMT_BASE for b in c.get("bases", [])) and number in c["qn"]]
    infos = {}
    for c in classes:
        # keep a single instantiation per class pattern (string labels)
        if c["pk"] in infos:
            continue
        infos[c["pk"]] = StmtInfo(c)
    by_cls = {i.cls["qn"]: i for i in infos.values()}
    for fn in db.fns(CFG):
        info = by_cls.get(fn.get("cls"))
        if info is None:
            continue
        if fn.get("ctor") == "other":
            info.ctors.append(fn)
            _scan_ctor(info, fn)
        elif fn["name"] == "clone":
            info.clone = fn
        elif fn.get("const") and not fn.get("params"):
            rs = rets(fn["body"])
            fl = set()
            for r in rs:
                fl.update(_fields_in(r.get("v")))
            if len(fl) == 1:
                info.accessors[fn["name"]] = fl.pop()
    # second pass: registrations made through an accessor of the same class
    for info in infos.values():
        for fn in info.ctors:
            _scan_ctor(info, fn, second=True)
    return infos


def _scan_ctor(info, fn, second=False):
    if second:
        info.unknown_regs = [(f, n) for f, n in info.unknown_regs if f is not fn]
    # parameter -> field (from the mem-initialisers)
    p2f = {}
    for i in fn.get("inits", []):
        if i.get("field"):
            for x in walk(i.get("e")):
                if x.get("k") == "ref" and x.get("rk") == "param":
                    p2f.setdefault(x["id"], i["field"])
    # loop variable -> fields mentioned in the range
    loopvars = {}

    def _own_accessor_fields(e):
        out = []
        for x in walk(e):
            if x.get("k") == "call" and "o" in x and is_this(x["o"]) and callee(x) and callee(x)["name"] in info.accessors:
                out.append(info.accessors[callee(x)["name"]])
        return out
    for n in walk(fn["body"]):
        if n.get("k") == "rangefor" and isinstance(n.get("v"), dict):
            fs = _fields_in(n.get("r")) + _own_accessor_fields(n.get("r"))
            for x in walk(n.get("r")):
                if x.get("k") == "ref" and x.get("rk") == "param" and x["id"] in p2f:
                    fs.append(p2f[x["id"]])
            loopvars[n["v"]["id"]] = fs
    for n in walk(fn["body"]):
        if is_call(n, name=("add_def", "add_use")) and is_field(obj(n), "m_live"):
            a = n["a"][0] if n.get("a") else None
            fs = _fields_in(a) + _own_accessor_fields(a)
            for x in walk(a):
                if x.get("k") == "ref":
                    if x.get("rk") == "param" and x["id"] in p2f:
                        fs.append(p2f[x["id"]])
                    elif x.get("rk") == "local" and x.get("id") in loopvars:
                        fs.extend(loopvars[x["id"]])
            if not fs:
                info.unknown_regs.append((fn, n))
            tgt = info.defs if callee(n)["name"] == "add_def" else info.uses
            tgt.update(fs)


# ------------------------------------------------------------------ C18.r1
REG_EXEMPT = {
    "ref_to_int_stmt::m_region": "the region operand of ref_to_int is a sort annotation: no in-tree domain reads it",
    "int_to_ref_stmt::m_region": "the region operand of int_to_ref only bumps the region's abstract reference counter; any later "
                                 "access through the new reference names the region again",
    "gep_ref_stmt::m_lhs_region": None,
}


def registration_rule(ctx, rid):
    """every variable-bearing data member of a statement is registered as a
    def or a use in its constructor(s)"""
    infos = statement_table(ctx.db)
    if len(infos) < 30:
        ctx.fail("rule %s: only %d statement classes found (expected 33)" % (rid, len(infos)))
    for info in infos.values():
        for fn, n in info.unknown_regs:
            ctx.undecided("cannot map `%s` to a data member" % src(n), fn, n, rid=rid)
        for f in info.var_fields:
            key = "%s::%s" % (info.name, f)
            if f in info.defs or f in info.uses:
                ctx.ok("%s registered as %s" % (key, "+".join(x for x, s in (("def", info.defs), ("use", info.uses)) if f in s)), rid=rid)
            elif REG_EXEMPT.get(key):
                ctx.exempt(key, REG_EXEMPT[key], rid=rid)
            else:
                c = info.ctors[0] if info.ctors else None
                ctx.bad("statement %s never registers its operand `%s` with add_use/add_def: liveness treats it as not read, so "
                        "dead-code elimination may delete its definition and the forward analyzer may forget its value" % (info.name, f),
                        c, c["body"] if c else None, sig="unregistered:%s" % key, rid=rid)


# ------------------------------------------------------------------ C17.r5
def clone_rule(ctx, rid):
    """clone() hands every data member to the constructor"""
    infos = statement_table(ctx.db)
    for info in infos.values():
        fn = info.clone
        if fn is None:
            ctx.undecided("no clone() found for %s" % info.name, rid=rid)
            continue
        news = [n for n in walk(fn["body"]) if n.get("k") == "new"]
        if not news:
            ctx.undecided("%s::clone does not construct a new statement" % info.name, fn, fn["body"], rid=rid)
            continue
        g = paths.guards(fn["body"])
        for nw in news:
            passed = set(_fields_in(nw))
            for x in walk(nw):
                if x.get("k") == "call" and "o" in x and is_this(x["o"]) and callee(x) and callee(x)["name"] in info.accessors:
                    passed.add(info.accessors[callee(x)["name"]])
            for cond, pol in g.get(id(nw), ()):
                if not isinstance(cond, tuple):
                    passed.update(_fields_in(cond))
                    for x in walk(cond):
                        if x.get("k") == "call" and "o" in x and is_this(x["o"]) and callee(x) and callee(x)["name"] in info.accessors:
                            passed.add(info.accessors[callee(x)["name"]])
            missing = [f["n"] for f in info.fields if f["n"] not in passed]
            if not missing:
                ctx.ok("%s::clone passes %s" % (info.name, sorted(passed)), fn, nw, rid=rid)
            else:
                ctx.bad("%s::clone does not copy data member(s) %s: the cloned CFG differs from the original" % (info.name, missing),
                        fn, nw, sig="clone-missing:%s:%s" % (info.name, ",".join(missing)), rid=rid)


# ------------------------------------------------------------------ API table
# written (killed / redefined) and read variable-bearing parameter positions of
# abstract_domain_api methods; from the comments in abstract_domain.hpp
API = {
    "apply": ([1], [2, 3]),
    "assign": ([0], [1]), "weak_assign": ([0], [1]),
    "select": ([0], [1, 2, 3]),
    "operator+=": ([], [0]), "assume_bool": ([], [0]), "ref_assume": ([], [0]), "entails": ([], [0]),
    "assign_bool_cst": ([0], [1]), "assign_bool_ref_cst": ([0], [1]), "assign_bool_var": ([0], [1]),
    "weak_assign_bool_cst": ([0], [1]), "weak_assign_bool_var": ([0], [1]),
    "apply_binary_bool": ([1], [2, 3]), "select_bool": ([0], [1, 2, 3]),
    "array_init": ([0], [1, 2, 3, 4]), "array_store": ([0], [0, 1, 2, 3]), "array_store_range": ([0], [0, 1, 2, 3, 4]),
    "array_load": ([0], [1, 2, 3]), "array_assign": ([0], [1]),
    "region_init": ([0], []), "region_copy": ([0], [1]), "region_cast": ([1], [0]),
    "ref_make": ([0], [1, 2]), "ref_free": ([], [0, 1]),
    "ref_load": ([2], [0, 1]), "ref_store": ([1], [0, 1, 2]),
    "ref_gep": ([2], [0, 1, 3, 4]),
    "ref_to_int": ([2], [0, 1]), "int_to_ref": ([2], [0, 1]),
    "select_ref": ([0, 1], [2, 3, 4, 5, 6]),
    "operator-=": ([0], []), "forget": ([0], []),
    "intrinsic": ([2], [1]),
    "set_to_bottom": ([], []),
}
# apply(int_conv, dst, src) has its variables one position earlier than apply(arith, x, y, z)
def api_positions(call):
    f = callee(call)
    if not f:
        return None
    nm = f["name"]
    if nm.startswith("backward_"):
        nm = nm[len("backward_"):]
    if nm not in API:
        return None
    w, r = API[nm]
    if nm == "apply" and len(call.get("a", [])) == 3 + (1 if f["name"].startswith("backward_") else 0):
        return [1], [2]
    if nm == "apply" and "bool" not in f["name"]:
        return [1], [2, 3]
    return w, r


def accessor_field(e, info, stmt_param_id):
    """field of the statement an expression reads: stmt.acc() / *stmt.acc() /
    stmt.acc().get_variable() ..."""
    out = []
    for x in walk(e):
        if x.get("k") == "call" and "o" in x and callee(x) and callee(x)["name"] in info.accessors:
            o = strip(x["o"])
            if isinstance(o, dict) and o.get("k") == "ref" and o.get("id") == stmt_param_id:
                out.append(info.accessors[callee(x)["name"]])
    return out


def stmt_info_for(fn, infos):
    """StmtInfo of the statement class the (single) parameter of an
    exec/visit/check function refers to"""
    if not fn.get("params"):
        return None
    t = fn["params"][0].get("TC") or fn["params"][0].get("T")
    for info in infos.values():
        if info.name + "<" in t and ("::" + info.name + "<") in ("::" + t.replace("crab::cfg::", "::")):
            return info
    return None


def _conv_refine(decls):
    def refine(cond, pol):
        c = strip(cond)
        # boost::optional / std::unique_ptr in a condition: explicit operator bool
        while isinstance(c, dict) and c.get("k") == "call" and "o" in c and not c.get("a") and \
                (callee(c) or {}).get("pk", "").endswith("(conv)"):
            c = strip(c["o"])
        if isinstance(c, dict) and c.get("k") == "ref" and c.get("rk") == "local":
            d = decls.get(c.get("id"))
            if d is not None and "i" in d and any(is_call(x, name="conv_op") for x in walk(d["i"])):
                return None if pol is False else ()
        if isinstance(c, dict) and c.get("k") == "call" and any(is_call(x, name="conv_op") for x in walk(c)) and not any(
                x.get("k") == "bin" for x in walk(c)):
            return None if pol is False else ()
        if is_field(c, "m_ignore_assert", of_this=True):
            return None if pol is True else ()
        return ()
    return refine


def helper_summaries(db, file, cpk):
    """for helper member functions that take the abstract state by reference:
    {(name, nparams): (state param index, must-killed param indexes, read param indexes)}"""
    out = {}
    for h in db.fns(file, cpk=cpk):
        ps = h.get("params", [])
        sidx = [i for i, p in enumerate(ps) if p["n"] in ("inv", "dom", "pre", "state") and p["T"].endswith("&") and "const" not in p["T"]]
        if len(sidx) != 1:
            continue
        si = sidx[0]
        body = h["body"]
        decls = local_decls(body)
        reads = set()

        def gen(n, _h=h, _si=si):
            res = []
            if n.get("k") == "call" and "o" in n and is_param(n["o"], _h, _si):
                pos = api_positions(n)
                if pos:
                    for i in pos[0]:
                        if i < len(n.get("a", [])):
                            for j, p in enumerate(_h["params"]):
                                if is_param(n["a"][i], _h, j):
                                    res.append(j)
                    for i in pos[1]:
                        if i < len(n.get("a", [])):
                            for j, p in enumerate(_h["params"]):
                                if is_param(n["a"][i], _h, j):
                                    reads.add(j)
            return res
        f = paths.MustEvents(gen, refine=_conv_refine(decls))
        try:
            f.run(body)
        except paths.Unstructured:
            continue
        if not f.returns:
            continue
        killed = None
        for r, st in f.returns:
            killed = set(st) if killed is None else (killed & set(st))
        key = (h["name"], len(ps))
        prev = out.get(key)
        if prev is not None and (prev[1] != killed):
            killed = prev[1] & killed
        out[key] = (si, killed or set(), reads | (prev[2] if prev else set()))
    return out


def def_coverage_rule(ctx, rid, rid_use, file, cpk, method="exec", receiver_fields=("m_inv", "m_pre"),
                      exempt=None, extra_kill=None):
    """for every def field of S, METHOD(S&) passes the accessor of that field in
    a written position of a domain operation on the state, on every path that is
    not an accepted early exit; every accessor passed in a read position belongs
    to a field registered as use"""
    infos = statement_table(ctx.db)
    fs = [f for f in ctx.db.fns(file, cpk=cpk, name=method)]
    if not ctx.need(fs, "%s::%s" % (cpk, method), rid):
        return
    seen_kinds = set()
    summaries = helper_summaries(ctx.db, file, cpk)
    for fn in fs:
        info = stmt_info_for(fn, infos)
        if info is None:
            continue
        seen_kinds.add(info.name)
        if exempt and info.name in exempt:
            ctx.exempt("%s(%s)" % (method, info.name), exempt[info.name], rid=rid)
            continue
        body = fn["body"]
        sid = fn["params"][0]["id"]
        decls = local_decls(body)

        def state_call(n):
            if n.get("k") != "call" or "o" not in n:
                return False
            return is_field(n["o"]) and deref(n["o"]).get("n") in receiver_fields and is_this(deref(n["o"]).get("b"))

        loop_kill = {}
        for l in walk(body):
            if l.get("k") == "rangefor" and isinstance(l.get("v"), dict):
                rf = accessor_field(l.get("r"), info, sid)
                vid = l["v"]["id"]
                killed = set()
                for n in walk(l.get("b")):
                    if state_call(n) and api_positions(n):
                        w, r = api_positions(n)
                        for i in w:
                            if i < len(n["a"]) and any(x.get("k") == "ref" and x.get("id") == vid for x in walk(n["a"][i])):
                                killed.update(rf)
                if killed:
                    loop_kill[id(l)] = killed

        def helper_call(n):
            if n.get("k") != "call" or not callee(n):
                return None
            hs = summaries.get((callee(n)["name"], len(n.get("a", []))))
            if hs is None or callee(n).get("cpk") != cpk:
                return None
            si = hs[0]
            a = n.get("a", [])
            if si < len(a) and is_field(a[si]) and deref(a[si]).get("n") in receiver_fields:
                return hs
            return None

        def gen(n):
            out = []
            hs = helper_call(n)
            if hs is not None:
                for j in hs[1]:
                    out.extend("kill:" + f for f in accessor_field(n["a"][j], info, sid))
            if state_call(n):
                pos = api_positions(n)
                if pos:
                    for i in pos[0]:
                        if i < len(n.get("a", [])):
                            for f in accessor_field(n["a"][i], info, sid):
                                out.append("kill:" + f)
                            a = strip(n["a"][i])
                            # a local initialised from an accessor
                            a = resolve_local(body, a, decls)
                            for f in accessor_field(a, info, sid):
                                out.append("kill:" + f)
                if callee(n)["name"] in ("set_to_bottom",):
                    out.extend("kill:" + f for f in info.defs)
            if extra_kill:
                out.extend(extra_kill(n, info, sid))
            return out

        # `if (auto op = conv_op<..>(stmt.op()))`: the mapping is exhaustive (checked by the conv_op rule)
        f = paths.MustEvents(gen, refine=_conv_refine(decls))
        orig = f._loop

        def _loop(n, st, _orig=orig, _lk=loop_kill):
            out = _orig(n, st)
            if out is not None and id(n) in _lk:
                out = out | frozenset("kill:" + x for x in _lk[id(n)])
            return out
        f._loop = _loop
        try:
            f.run(body)
        except paths.Unstructured as e:
            ctx.undecided("%s(%s): %s" % (method, info.name, e), fn, body, rid=rid)
            continue
        for d in sorted(info.defs):
            missing = [(r, st) for r, st in f.returns if ("kill:" + d) not in st]
            if not missing:
                ctx.ok("%s(%s) overwrites %s on every path" % (method, info.name, d), fn, None, rid=rid)
            else:
                r = missing[0][0]
                ctx.bad("%s::%s(%s&) can return without overwriting or forgetting the statement's defined operand `%s` "
                        "(the abstract state keeps the stale value of the left-hand side)" % (cpk.split("::")[-1], method, info.name, d),
                        fn, r if r is not None else body, sig="def-not-killed:%s:%s" % (info.name, d), rid=rid)
        if rid_use:
            cands = []
            for n, ps in nodes_not_in_log(body, lambda x: state_call(x) or helper_call(x) is not None):
                hs = helper_call(n)
                if hs is not None:
                    cands.append((n, (sorted(hs[1]), sorted(hs[2]))))
                else:
                    cands.append((n, api_positions(n)))
            for n, pos in cands:
                if not pos:
                    continue
                for i in pos[1]:
                    if i < len(n.get("a", [])):
                        for fld in accessor_field(n["a"][i], info, sid):
                            if fld in info.uses or (fld in info.defs and i in pos[0]):
                                ctx.ok("%s(%s) reads %s which is registered as use" % (method, info.name, fld), fn, n, rid=rid_use)
                            elif fld not in info.var_fields:
                                continue
                            elif REG_EXEMPT.get("%s::%s" % (info.name, fld)):
                                ctx.exempt("%s::%s" % (info.name, fld), REG_EXEMPT["%s::%s" % (info.name, fld)], rid=rid_use)
                            else:
                                ctx.bad("the transformer reads operand `%s` of %s (argument %d of %s) but the statement does not "
                                        "register it as a use: liveness-based pruning and DCE may drop a value the analysis reads"
                                        % (fld, info.name, i + 1, callee(n)["name"]), fn, n,
                                        sig="read-not-use:%s:%s" % (info.name, fld), rid=rid_use)
    return seen_kinds


# ------------------------------------------------------------------ exec table
def extract_exec_table(ctx, file, cpk, method="exec", receiver_fields=("m_inv", "m_pre")):
    """{stmt kind: sorted list of 'method(acc1,acc2,...)' strings} for the calls
    on the abstract state in METHOD(S&)"""
    infos = statement_table(ctx.db)
    table = {}
    for fn in ctx.db.fns(file, cpk=cpk, name=method):
        info = stmt_info_for(fn, infos)
        if info is None:
            continue
        sid = fn["params"][0]["id"]
        body = fn["body"]
        decls = local_decls(body)
        rows = set()
        def _state_or_helper(x):
            if x.get("k") != "call" or not callee(x):
                return False
            if "o" in x and is_field(x["o"]) and deref(x["o"]).get("n") in receiver_fields and is_this(deref(x["o"]).get("b")):
                return True
            if callee(x).get("cpk") == cpk and any(is_field(a) and deref(a).get("n") in receiver_fields for a in x.get("a", [])):
                return True
            return False
        for n, ps in nodes_not_in_log(body, _state_or_helper):
            nm = callee(n)["name"]
            if nm in ("is_bottom", "is_top", "make_top", "make_bottom", "write"):
                continue
            accs = []
            for a in n.get("a", []):
                a0 = strip(a)
                ac = [callee(x)["name"] for x in walk(a0) if x.get("k") == "call" and "o" in x and callee(x) and
                      callee(x)["name"] in info.accessors or (x.get("k") == "call" and "o" in x and callee(x) and
                      is_ref(x["o"]) and strip(x["o"]).get("id") == sid)]
                if not ac:
                    r = resolve_local(body, a0, decls)
                    ac = [callee(x)["name"] for x in walk(r) if x.get("k") == "call" and "o" in x and callee(x) and
                          is_ref(x["o"]) and strip(x["o"]).get("id") == sid]
                if ac:
                    accs.append("+".join(ac))
                elif isinstance(a0, dict) and a0.get("k") == "lit":
                    accs.append("lit:" + str(a0.get("v")))
                elif is_field(a0) and deref(a0).get("n") in receiver_fields:
                    accs.append("STATE")
                elif isinstance(a0, dict) and a0.get("k") == "ref" and a0.get("rk") == "local":
                    accs.append("local")
                else:
                    accs.append("?")
            rows.add("%s(%s)" % (nm, ",".join(accs)))
        table.setdefault(info.name, set()).update(rows)
    return {k: sorted(v) for k, v in table.items()}


# ------------------------------------------------------------------ frozen exec tables
import json as _json
import os as _os

_TABLES = _os.path.join(_os.path.dirname(_os.path.dirname(_os.path.dirname(_os.path.abspath(__file__)))), "tables")


def exec_table_rule(ctx, rid, table_name, file, cpk, method="exec", receiver_fields=("m_inv", "m_pre")):
    """the domain operation(s) each statement kind is mapped to, with the
    statement accessor in each argument position, must equal the reviewed table
    tables/<table_name>.json (the table IS the semantics of the transformer:
    'lhs := select(cond, e1, e2)' etc.)"""
    with open(_os.path.join(_TABLES, table_name + ".json")) as fh:
        want = _json.load(fh)["table"]
    got = extract_exec_table(ctx, file, cpk, method, receiver_fields)
    if not ctx.need(got, "%s::%s overrides" % (cpk, method), rid):
        return
    fs = {}
    infos = statement_table(ctx.db)
    for fn in ctx.db.fns(file, cpk=cpk, name=method):
        info = stmt_info_for(fn, infos)
        if info is not None:
            fs.setdefault(info.name, fn)
    for kind, rows in sorted(want.items()):
        fn = fs.get(kind)
        if kind not in got:
            ctx.bad("%s::%s(%s&) vanished: the statement kind falls back to the empty default" % (cpk.split("::")[-1], method, kind),
                    None, None, sig="exec-missing:%s" % kind, rid=rid)
            continue
        if got[kind] == rows:
            ctx.ok("%s -> %s" % (kind, "; ".join(rows) or "(nothing)"), fn, None, rid=rid)
        else:
            extra = [r for r in got[kind] if r not in rows]
            missing = [r for r in rows if r not in got[kind]]
            ctx.bad("%s::%s(%s&) maps the statement to %s; the reviewed mapping is %s (argument positions carry the meaning of "
                    "the statement: a swapped or dropped operand changes the transfer function)" %
                    (cpk.split("::")[-1], method, kind, got[kind], rows), fn, fn["body"] if fn else None,
                    sig="exec-table:%s:+%s:-%s" % (kind, "|".join(extra), "|".join(missing)), rid=rid)
    for kind in sorted(set(got) - set(want)):
        ctx.undecided("statement kind %s is not in the reviewed table %s" % (kind, table_name), fs.get(kind), None, rid=rid)
