"""Component-wise structure of lattice operations in product / lifting domains
(C04.r2) and set_to_bottom/set_to_top vs is_bottom/is_top (C04.r3)."""
from ..tree import (walk, walk_with_parents, strip, is_call, is_ref, is_this, is_field, deref, same_expr,
                    src, obj, args, callee)
from ..match import (strip_move, is_param, rets, nodes_not_in_log, resolve_local, local_decls)

JOINLIKE = {"operator|", "operator|=", "operator||", "widening_thresholds"}
MEETLIKE = {"operator&", "operator&=", "operator&&"}
# components that are not part of the described set of states but say which cached facts are still valid: a fact of one operand
# is valid only while the variables it mentions are unchanged IN THAT OPERAND, so the marks are intersected (join of the dual
# set) by meet-like operations too (finding F110: the component-wise `&` revived stale facts)
VALIDITY_MARKS = {("flat_boolean_numerical_domain", "m_unchanged_vars"): "a variable reassigned in one operand counts as unchanged again and the stale implication of that operand is applied"}
LEQ = {"operator<="}
LATTICE = JOINLIKE | MEETLIKE | LEQ


def _kind(name):
    if name in JOINLIKE:
        return "join"
    if name in MEETLIKE:
        return "meet"
    if name in LEQ:
        return "leq"
    return None


def _field_of_this(e):
    e = deref(e)
    if isinstance(e, dict) and e.get("k") == "mem" and "fn" not in e and is_this(e.get("b")):
        return e.get("n")
    return None


def _field_of_param(e, fn, idx=0):
    e = deref(e)
    if isinstance(e, dict) and e.get("k") == "mem" and "fn" not in e and is_param(e.get("b"), fn, idx):
        return e.get("n")
    # accessor on the parameter returning a component: o.first(), o.second()
    return None


def componentwise_rule(ctx, rid, only=None):
    files = [f for f in ctx.db.files() if f.startswith("include/crab/domains/") and not any(x in f for x in ("/apron", "/elina", "/ldd", "boxes.hpp"))]
    n_classes = set()
    # classes that are lattices themselves: they define is_bottom()
    lattice_classes = set()
    for f in [x for x in ctx.db.files() if x.startswith("include/crab/domains/") or x.startswith("lib/")]:
        for fn in ctx.db.fns(f, name="is_bottom"):
            if fn.get("cpk"):
                lattice_classes.add(fn["cpk"])
    for f in files:
        by_cls = {}
        for fn in ctx.db.fns(f):
            if fn["name"] in LATTICE and (only is None or fn["name"] in only) and fn.get("cpk") and fn.get("params") and not fn.get("static"):
                cname = fn["cpk"].split("::")[-1]
                p0 = fn["params"][0].get("TC") or fn["params"][0].get("T") or ""
                if cname in p0:
                    by_cls.setdefault(fn["cls"], []).append(fn)
        for cls, fns in by_cls.items():
            comps_by_fn = {}
            for fn in fns:
                k = _kind(fn["name"])
                pairs = []
                for n, ps in walk_with_parents(fn["body"]):
                    if n.get("k") != "call" or not callee(n) or callee(n)["name"] not in LATTICE:
                        continue
                    if callee(n).get("cpk") not in lattice_classes:
                        continue        # e.g. integer comparisons / bitwise operators on scalar members
                    if "o" not in n or not n.get("a"):
                        continue
                    lf = _field_of_this(n["o"])
                    rf = _field_of_param(n["a"][0], fn)
                    if lf is None and rf is None:
                        continue
                    lfp = _field_of_param(n["o"], fn)
                    rft = _field_of_this(n["a"][0])
                    if lf is None and lfp is not None and rft is not None:
                        # reversed orientation o.F op this->F (only meaningful for commutative use); record as is
                        lf, rf, rev = rft, lfp, True
                    else:
                        rev = False
                    if lf is None or rf is None:
                        continue
                    pairs.append((lf, rf, callee(n)["name"], rev, n, ps))
                if not pairs:
                    continue
                if fn["cpk"].split("::")[-1] in DUAL_ORDER:
                    ctx.exempt(fn["cpk"], DUAL_ORDER[fn["cpk"].split("::")[-1]], rid=rid)
                    continue
                n_classes.add(fn["cpk"])
                comps_by_fn[fn["name"]] = set(p[0] for p in pairs)
                for lf, rf, inner, rev, n, ps in pairs:
                    ik = _kind(inner)
                    if lf != rf:
                        ctx.bad("%s::%s combines component `%s` of this with component `%s` of the argument: lattice operations of a "
                                "product must pair each component with itself" % (fn["cpk"].split("::")[-1], fn["name"], lf, rf), fn, n,
                                sig="cross-pair:%s:%s:%s/%s" % (fn["pk"], fn["name"], lf, rf), rid=rid)
                        continue
                    if (fn["cpk"].split("::")[-1], lf) in VALIDITY_MARKS and k in ("join", "meet"):
                        # a validity mark for cached facts is intersected whatever the enclosing operation is (C03.r19 decides it)
                        if ik == "join":
                            ctx.ok("%s: validity marks `%s` are intersected" % (fn["name"], lf), fn, n, rid=rid)
                        else:
                            ctx.bad("%s::%s unites the validity marks `%s` of its operands: %s" %
                                    (fn["cpk"].split("::")[-1], fn["name"], lf, VALIDITY_MARKS[(fn["cpk"].split("::")[-1], lf)]), fn, n,
                                    sig="marks-united:%s:%s:%s" % (fn["pk"], fn["name"], lf), rid=rid)
                        continue
                    if ik != k:
                        ctx.bad("%s::%s combines component `%s` with %s, which is %s-like while the enclosing operation is %s-like" %
                                (fn["cpk"].split("::")[-1], fn["name"], lf, inner, ik, k), fn, n,
                                sig="op-kind:%s:%s:%s" % (fn["pk"], fn["name"], lf), rid=rid)
                        continue
                    if rev and (k == "leq" or inner in ("operator||", "operator&&", "widening_thresholds")):
                        ctx.bad("%s::%s applies the non-commutative %s with the ARGUMENT's component on the left" %
                                (fn["cpk"].split("::")[-1], fn["name"], inner), fn, n, sig="reversed:%s:%s:%s" % (fn["pk"], fn["name"], lf), rid=rid)
                        continue
                    if k == "leq":
                        # the component test must not sit under a disjunction or a negation on its way to the verdict
                        bad_ctx = None
                        for p in reversed(ps):
                            if p.get("k") == "bin" and p.get("op") == "||":
                                others = [x for x in walk(p) if x is not n and x.get("k") == "call" and callee(x) and
                                          callee(x)["name"] == "operator<=" and callee(x).get("cpk") in lattice_classes and
                                          _field_of_this(x.get("o")) is not None]
                                if others:
                                    bad_ctx = "a disjunction with another component test"
                            if p.get("k") == "un" and p.get("op") == "!":
                                bad_ctx = "a negation"
                            if p.get("k") in ("ret", "if", "decl", "seq"):
                                break
                        if bad_ctx:
                            # `if (!(a <= b)) return false;` is the early-exit form of a conjunction: accept it
                            anc_if = [p for p in ps if p.get("k") == "if"]
                            early_false = False
                            if anc_if and bad_ctx == "a negation":
                                t = anc_if[-1].get("t")
                                rs = [x for x in walk(t) if x.get("k") == "ret"]
                                early_false = bool(rs) and all(strip(r.get("v")).get("v") == "false" for r in rs if isinstance(strip(r.get("v")), dict))
                            if not early_false:
                                ctx.bad("%s::operator<= uses the component test `%s` under %s: inclusion of a product must hold for "
                                        "EVERY component" % (fn["cpk"].split("::")[-1], src(n)[:50], bad_ctx), fn, n,
                                        sig="leq-combine:%s:%s" % (fn["pk"], lf), rid=rid)
                                continue
                    ctx.ok("%s::%s: %s %s o.%s" % (fn["cpk"].split("::")[-1], fn["name"], lf, inner.replace("operator", ""), rf), fn, n, rid=rid)
            # every operator of the class touches the same set of components
            if comps_by_fn and "operator<=" in comps_by_fn:
                allc = set(comps_by_fn["operator<="])
                for name, cs in comps_by_fn.items():
                    missing = allc - cs
                    fn = [x for x in fns if x["name"] == name][0]
                    if missing:
                        # tolerated when the method mentions the component at all (e.g. copies it, or rebuilds it)
                        mentioned = set(x.get("n") for x in walk(fn["body"]) if x.get("k") == "mem" and "fn" not in x)
                        really = [m for m in missing if m not in mentioned]
                        if really:
                            ctx.bad("%s::%s never touches component(s) %s although the other lattice operations of the class combine them" %
                                    (fn["cpk"].split("::")[-1], name, sorted(really)), fn, fn["body"],
                                    sig="component-dropped:%s:%s:%s" % (fn["pk"], name, ",".join(sorted(really))), rid=rid)
                # conversely: what join / widening combine is part of the abstract state, so the inclusion test compares it
                # (finding F42: a stable-looking iterate whose cached facts are still changing is not a post-fixpoint)
                if only is None:
                    leqf = [x for x in fns if x["name"] == "operator<="][0]
                    joinc = set()
                    for name, cs in comps_by_fn.items():
                        if _kind(name) == "join":
                            joinc |= cs
                    ignored = sorted(joinc - allc)
                    if ignored:
                        ctx.bad("%s::operator<= never compares component(s) %s although join / widening combine them: a value whose %s is "
                                "weaker is declared included, so a fixpoint iteration stops while that component is still changing" %
                                (leqf["cpk"].split("::")[-1], ignored, ignored[0]), leqf, leqf["body"],
                                sig="leq-ignores-component:%s:%s" % (leqf["pk"], ",".join(ignored)), rid=rid)
                    else:
                        ctx.ok("%s::operator<= compares every component that join combines" % leqf["cpk"].split("::")[-1], leqf, None, rid=rid)
    if len(n_classes) < 5:
        ctx.fail("rule %s: component-wise lattice operations found in %d classes only" % (rid, len(n_classes)))


DUAL_ORDER = {"dual_set_domain": "the class implements the DUAL order on purpose (join is intersection, meet is union)"}

RESETTERS = {"set_to_bottom", "set_to_top", "clear", "operator=", "reset"}


def _written_fields(fn):
    out = set()
    for n in walk(fn["body"]):
        if n.get("k") == "asg":
            f = _field_of_this(n.get("L"))
            if f:
                out.add(f)
        if n.get("k") == "call" and "o" in n and callee(n):
            f = _field_of_this(n["o"])
            if f and not callee(n).get("const"):
                out.add(f)
        if n.get("k") == "call" and callee(n) and callee(n)["name"] == "swap":
            for a in n.get("a", []):
                f = _field_of_this(a)
                if f:
                    out.add(f)
            if any(is_this(a) for a in n.get("a", [])):
                out.add("*")
        if n.get("k") in ("asg",) and is_this(n.get("L")):
            out.add("*")
        if n.get("k") == "call" and n.get("op") == "=" and is_this(n.get("o")):
            out.add("*")
    return out


def _read_fields(fn):
    out = set()
    for n in walk(fn["body"]):
        if n.get("k") == "mem" and "fn" not in n and is_this(n.get("b")):
            out.add(n.get("n"))
    return out


def set_to_rule(ctx, rid, files):
    n = 0
    for f in files:
        fns = ctx.db.fns(f)
        by_cls = {}
        for fn in fns:
            if fn["name"] in ("set_to_bottom", "set_to_top", "is_bottom", "is_top") and fn.get("cls") and not fn.get("params"):
                by_cls.setdefault(fn["cls"], {})[fn["name"]] = fn
        for cls, m in by_cls.items():
            for setter, tester in (("set_to_bottom", "is_bottom"), ("set_to_top", "is_top")):
                if setter not in m or tester not in m:
                    continue
                w = _written_fields(m[setter])
                r = _read_fields(m[tester])
                if not r:
                    continue
                n += 1
                # is_top() is often `!is_bottom() && tree.size() == 0`: any overlap is enough
                helper_reads = set()
                for x in walk(m[tester]["body"]):
                    if x.get("k") == "call" and is_this(x.get("o")) and callee(x):
                        h = [hf for hf in fns if hf.get("cls") == cls and hf["name"] == callee(x)["name"]]
                        for hf in h:
                            helper_reads |= _read_fields(hf)
                helper_writes = set()
                for x in walk(m[setter]["body"]):
                    if x.get("k") == "call" and is_this(x.get("o")) and callee(x):
                        h = [hf for hf in fns if hf.get("cls") == cls and hf["name"] == callee(x)["name"]]
                        for hf in h:
                            helper_writes |= _written_fields(hf)
                W = w | helper_writes
                R = r | helper_reads
                if "*" in W or (W & R):
                    ctx.ok("%s: %s writes %s which %s reads" % (m[setter]["cpk"].split("::")[-1], setter, sorted(W & R) or "*this", tester),
                           m[setter], None, rid=rid)
                else:
                    ctx.bad("%s::%s() writes %s but %s() reads %s: after %s() the value does not test as %s" %
                            (m[setter]["cpk"], setter, sorted(W) or "nothing", tester, sorted(R), setter, tester[3:]), m[setter],
                            m[setter]["body"], sig="set-to-mismatch:%s:%s" % (m[setter]["cpk"], setter), rid=rid)
    if n == 0:
        ctx.fail("rule %s: no set_to_*/is_* pair found" % rid)
