"""C14 - array domains never lose a value that a cell can hold."""
from ..tree import (walk, walk_with_parents, strip, is_call, is_ref, is_this, is_field, deref, same_expr,
                    src, obj, args, callee)
from .. import paths
from ..match import (strip_move, is_param, rets, nodes_not_in_log, resolve_local, local_decls, writes_to, cmp_parts,
                     guard_truth, atom_truth)
from . import _domains as dm

LEVEL_TEXT = ("Clause-level static rules: in array_smashing strong updates happen only under the is_strong_update parameter, range "
              "stores and weak stores only reach the weak_* operations of the base domain, and a load assigns an expanded COPY of the "
              "summary variable (forgotten afterwards); in array_adaptive the strong scalar update of a constant-index store is "
              "guarded by the singleton test and preceded by killing the overlapping cells, the non-constant store either smashes "
              "the array or kills the symbolic overlap, every modified copy of an array's state is written back to the array map on "
              "every path (copy-modify-writeback), loads overwrite or forget the lhs on every path, and no array operation sets the "
              "state to bottom except under a bottom/unsat guard; no store is skipped silently (r8); backward stores make every overwritten cell "
              "lose its post-constraint and a backward range store meets the statement's invariant once (r9). Cell-overlap arithmetic and "
              "symbolic-offset reasoning are NOT decided."
              " Every iteration of a smashing loop stores the cell into the summary or gives the smashing up (statements inside log macros do not count).")
ASSUMPTIONS = ["the base domain's weak_assign / expand / array operations are sound (C03)",
               "offset_map overlap computations (get_overlap_cells*) are complete (numeric, not decided)"]

AS = "include/crab/domains/array_smashing.hpp"
AA = "include/crab/domains/array_adaptive.hpp"
ASC = "crab::domains::array_smashing"
AAC = "crab::domains::array_adaptive_domain"


def r1_smashing_updates(ctx):
    ctx.rule("C14.r1", "array_smashing: strong update only under is_strong_update; weak paths reach only weak_* base operations", floor=6)
    for fn in ctx.db.fns(AS, pk=ASC + "::array_store"):
        body = fn["body"]
        g = paths.guards(body)
        sp = [i for i, p in enumerate(fn["params"]) if p["n"] == "is_strong_update"]
        if not sp:
            ctx.undecided("array_store has no is_strong_update parameter", fn, body)
            continue

        def strong(c):
            return 1 if is_param(strip(c), fn, sp[0]) else 0
        for n, ps in nodes_not_in_log(body, lambda x: is_call(x, name=("do_strong_update", "do_weak_update"))):
            t = guard_truth(g.get(id(n), ()), strong, body)
            nm = callee(n)["name"]
            if (nm == "do_strong_update" and t is True) or (nm == "do_weak_update" and t is False):
                ctx.ok("array_store: %s under is_strong_update == %s" % (nm, t), fn, n)
            else:
                ctx.bad("array_smashing::array_store calls %s %s: a strong update of the summary variable on a weak store overwrites the "
                        "values of all other cells" % (nm, "without the is_strong_update guard" if t is None else "under is_strong_update == %s" % t),
                        fn, n, sig="smash-store:%s" % nm)
    for fn in ctx.db.fns(AS, pk=ASC + "::array_store_range"):
        ups = [n for n, ps in nodes_not_in_log(fn["body"], lambda x: is_call(x, name=("do_strong_update", "do_weak_update", "do_update")))]
        if ups and all(callee(u)["name"] == "do_weak_update" for u in ups):
            ctx.ok("array_store_range: weak update only", fn, ups[0])
        else:
            ctx.bad("array_smashing::array_store_range must only perform weak updates (it writes a range of cells through one summary "
                    "variable); found %s" % [callee(u)["name"] for u in ups], fn, fn["body"], sig="smash-range-strong")
    for name, flag in (("do_strong_update", "false"), ("do_weak_update", "true")):
        for fn in ctx.db.fns(AS, pk=ASC + "::" + name):
            cs = [n for n in walk(fn["body"]) if is_call(n, name="do_update")]
            if cs and all(len(c.get("a", [])) == 4 and strip(c["a"][3]).get("v") == flag for c in cs):
                ctx.ok("%s -> do_update(..., weak=%s)" % (name, flag), fn, cs[0])
            else:
                ctx.bad("array_smashing::%s must call do_update with weak=%s" % (name, flag), fn, fn["body"], sig="smash-flag:%s" % name)
    for fn in ctx.db.fns(AS, pk=ASC + "::do_update"):
        body = fn["body"]
        g = paths.guards(body)
        wp = [i for i, p in enumerate(fn["params"]) if p["n"] == "weak"]
        if not wp:
            ctx.undecided("do_update has no `weak` parameter", fn, body)
            continue

        def weak(c):
            return 1 if is_param(strip(c), fn, wp[0]) else 0
        for n, ps in nodes_not_in_log(body, lambda x: x.get("k") == "call" and is_param(x.get("o"), fn, 0) and callee(x) and
                                      (callee(x)["name"].startswith("assign") or callee(x)["name"].startswith("weak_assign"))):
            t = guard_truth(g.get(id(n), ()), weak, body)
            is_weak_op = callee(n)["name"].startswith("weak_")
            if t is not None and t == is_weak_op:
                ctx.ok("do_update: %s under weak == %s" % (callee(n)["name"], t), fn, n)
            else:
                ctx.bad("array_smashing::do_update calls %s under weak == %s" % (callee(n)["name"], t), fn, n,
                        sig="smash-do-update:%s" % callee(n)["name"])


def r2_smashing_load(ctx):
    ctx.rule("C14.r2", "array_smashing::array_load assigns an expanded copy of the summary variable and forgets the copy", floor=2)
    for fn in ctx.db.fns(AS, pk=ASC + "::array_load"):
        body = fn["body"]
        d = local_decls(body)
        ex = [n for n, ps in nodes_not_in_log(body, lambda x: is_call(x, name="expand") and is_field(obj(x), "m_base_dom"))]
        if not ex:
            ctx.bad("array_load no longer expands the summary variable into a fresh copy: assigning a summarized variable directly to "
                    "lhs correlates lhs with every cell", fn, body, sig="smash-load-no-expand")
            continue
        copy = strip(ex[0]["a"][1])
        cid = copy.get("id") if isinstance(copy, dict) else None
        asg = [n for n, ps in nodes_not_in_log(body, lambda x: x.get("k") == "call" and is_field(obj(x), "m_base_dom") and callee(x) and
                                                callee(x)["name"] in ("assign", "assign_bool_var") and x.get("a") and is_param(x["a"][0], fn, 0))]
        good = bool(asg)
        for a in asg:
            rhs = strip(a["a"][1])
            if not (isinstance(rhs, dict) and any(y.get("k") == "ref" and y.get("id") == cid for y in walk(rhs))):
                good = False
                ctx.bad("array_load assigns `%s` to lhs instead of the expanded copy of the summary variable" % src(rhs)[:40], fn, a,
                        sig="smash-load-direct")
        fg = [n for n in walk(body) if n.get("k") == "call" and n.get("op") == "-=" and is_field(n.get("o"), "m_base_dom") and
              is_ref(n["a"][0]) and strip(n["a"][0]).get("id") == cid]
        if not fg:
            good = False
            ctx.bad("the temporary copy of the summary variable is never forgotten", fn, body, sig="smash-load-copy-leak")
        if good:
            ctx.ok("lhs := expand(summary) copy; copy forgotten", fn, asg[0])
        # every non-bottom path defines or forgets lhs (C03.r1 instance)


# non-const members that leave the object unchanged
NON_MUTATING = {"get_offset_map": "returns the alias that is tracked separately",
                "get_overlap_cells": "inserts a temporary cell and removes it again before returning",
                "get_overlap_cells_symbolic_offset": "read-only (declared non-const)"}


class _Pending(paths.Flow):
    def __init__(self, mut, wb):
        paths.Flow.__init__(self)
        self.mut, self.wb = mut, wb

    def initial(self):
        return frozenset()

    def join(self, a, b):
        return a | b

    def transfer(self, n, st):
        m = self.mut(n)
        if m:
            st = st | frozenset(m)
        w = self.wb(n)
        if w:
            st = st - frozenset(w)
        return st


def r4_writeback(ctx):
    ctx.rule("C14.r4", "array_adaptive: every modified copy of an array's state is written back to the array map on every path", floor=4)
    n_copies = 0
    for fn in ctx.db.fns(AA, cpk=AAC):
        body = fn["body"]
        d = local_decls(body)
        copies = {dd["id"]: dd for dd in d.values() if (dd.get("TC") or dd.get("T") or "").replace("const ", "").strip().endswith("::array_state") and
                  not (dd.get("T") or "").rstrip().endswith("&") and "i" in dd}
        if not copies:
            continue
        alias = {}
        for dd in d.values():
            t = dd.get("T") or ""
            if t.rstrip().endswith("&") and not t.startswith("const") and "i" in dd:
                for x in walk(dd["i"]):
                    if x.get("k") == "ref" and x.get("id") in copies:
                        alias[dd["id"]] = x["id"]
        def target(e):
            e = strip(e)
            if isinstance(e, dict) and e.get("k") == "ref":
                if e.get("id") in copies:
                    return e["id"]
                return alias.get(e.get("id"))
            return None

        def mut(n):
            out = []
            if n.get("k") == "call" and callee(n):
                f = callee(n)
                if "o" in n:
                    t = target(n["o"])
                    # a call through a non-const accessor chain: next_as.get_element_sz() = ...
                    if t is None:
                        o = strip(n["o"])
                        if isinstance(o, dict) and o.get("k") == "call" and "o" in o and target(o["o"]) is not None and \
                                callee(o) and not callee(o).get("const") and n.get("op") in ("=", "|=", "&="):
                            t = target(o["o"])
                    if t is not None and not f.get("const") and f["name"] not in NON_MUTATING:
                        out.append("pend:%s" % t)
                ps = (f.get("psig") or "").split(",")
                for i, a in enumerate(n.get("a", [])):
                    t = target(a)
                    if t is not None and i < len(ps) and ps[i].strip().endswith("&") and not ps[i].strip().startswith("const"):
                        out.append("pend:%s" % t)
            return out

        def wb(n):
            if is_call(n, name="set") and is_field(obj(n), "m_array_map") and len(n.get("a", [])) == 2:
                t = target(n["a"][1])
                if t is not None:
                    return ["pend:%s" % t]
            return []
        f = _Pending(mut, wb)
        try:
            f.run(body)
        except paths.Unstructured as e:
            ctx.undecided("%s: %s" % (fn["name"], e), fn, body)
            continue
        n_copies += len(copies)
        for cid, dd in copies.items():
            mutated = any(("pend:%s" % cid) in (mut(x) or []) for x in walk(body))
            if not mutated:
                continue
            leaks = [(r, st) for r, st in f.returns if ("pend:%s" % cid) in st]
            if not leaks:
                ctx.ok("%s: modified copy `%s` written back with m_array_map.set on every path" % (fn["name"], dd["n"]), fn, dd)
            else:
                r = leaks[0][0]
                ctx.bad("array_adaptive_domain::%s modifies `%s`, a private COPY of the array's state (cells are added to / removed from its "
                        "offset map), and can return without m_array_map.set(a, %s): the ghost variable of the cell exists but the "
                        "array no longer knows the cell, so later overlapping stores do not kill it" % (fn["name"], dd["n"], dd["n"]),
                        fn, r if r is not None else body, sig="no-writeback:%s:%s" % (fn["name"], dd["n"]))
    if n_copies == 0:
        ctx.fail("rule C14.r4: no local copy of an array state found in array_adaptive_domain")


def r3_adaptive_store(ctx):
    ctx.rule("C14.r3", "array_adaptive::array_store: strong scalar update only for a singleton index after killing the overlapping cells; "
                       "otherwise the array is smashed or the symbolic overlap is killed", floor=3)
    for fn in ctx.db.fns(AA, pk=AAC + "::array_store"):
        body = fn["body"]
        g = paths.guards(body)
        d = local_decls(body)
        das = [n for n, ps in nodes_not_in_log(body, lambda x: is_call(x, name="do_assign"))]
        for a in das:
            def single(c):
                c = resolve_local(body, c, d)
                c = strip(c)
                if isinstance(c, dict) and c.get("k") == "call" and (callee(c) or {}).get("pk", "").endswith("(conv)"):
                    c = strip(c["o"])
                    c = resolve_local(body, c, d)
                if is_call(c, name="singleton"):
                    return 1
                if isinstance(c, dict) and c.get("k") == "ref":
                    dd = d.get(c.get("id"))
                    if dd is not None and "i" in dd and any(is_call(y, name="singleton") for y in walk(dd["i"])):
                        return 1
                return 0
            if guard_truth(g.get(id(a), ()), single, body) is True:
                ctx.ok("strong scalar update only under the singleton-index test", fn, a)
            else:
                ctx.bad("array_adaptive::array_store performs a strong scalar update (do_assign) without the singleton-index test: with a "
                        "non-constant index this overwrites one cell although any cell may be written", fn, a, sig="adaptive-strong-unguarded")
            # kill of overlapping cells precedes
            def gen(n):
                if is_call(n, name="get_overlap_cells"):
                    return ("overlap",)
                return ()
            fl = paths.must_events(body, gen)
            if "overlap" in fl.at.get(id(a), ()):
                kc = [n for n in walk(body) if is_call(n, name="kill_cells")]
                order = [x for x in walk(body) if (kc and x is kc[0]) or x is a]
                if kc and order[0] is kc[0]:
                    ctx.ok("overlapping cells are killed before the strong update", fn, kc[0])
                else:
                    ctx.bad("the cells overlapping the written range are not killed before the strong update", fn, a, sig="adaptive-no-kill")
            else:
                ctx.bad("array_store does not compute the cells overlapping the written range before the strong update", fn, a,
                        sig="adaptive-no-overlap")
        # the non-smashed symbolic branch kills the symbolic overlap
        sym = [n for n in walk(body) if is_call(n, name="get_overlap_cells_symbolic_offset")]
        kcs = [n for n in walk(body) if is_call(n, name="kill_cells")]
        if sym and len(kcs) >= 2:
            ctx.ok("non-constant index without smashing: symbolic overlap killed", fn, sym[0])
        else:
            ctx.bad("array_store with a non-constant index must kill every cell that may overlap the symbolic range when the array is "
                    "not smashed", fn, body, sig="adaptive-symbolic-kill")


def r5_no_bottom(ctx):
    ctx.rule("C14.r5", "array operations never set the state to bottom except under a bottom / unsatisfiability guard", floor=10)
    for f, cpk in ((AS, ASC), (AA, AAC)):
        for fn in ctx.db.fns(f, cpk=cpk):
            if not fn["name"].startswith("array_"):
                continue
            body = fn["body"]
            g = paths.guards(body)
            sb = [n for n, ps in nodes_not_in_log(body, lambda x: is_call(x, name="set_to_bottom"))]
            if not sb:
                ctx.ok("%s::%s never calls set_to_bottom" % (cpk.split("::")[-1], fn["name"]), fn, None)
                continue
            for s in sb:
                conds = [src(c) for c, p in g.get(id(s), ()) if not isinstance(c, tuple)]
                if any("is_bottom" in c for c in conds):
                    ctx.ok("%s: set_to_bottom under %s" % (fn["name"], conds), fn, s)
                else:
                    ctx.bad("%s::%s sets the whole state to bottom outside a bottom/unsat guard (%s): a reachable state is lost" %
                            (cpk.split("::")[-1], fn["name"], conds), fn, s, sig="array-bottom:%s" % fn["name"])


def r6_load_kill(ctx):
    ctx.rule("C14.r6", "array loads overwrite or forget the lhs on every non-bottom path", floor=4)
    dm.lhs_kill_rule(ctx, "C14.r6", classes={"array_smashing", "array_adaptive_domain"})


RULES = [r1_smashing_updates, r2_smashing_load, r3_adaptive_store, r4_writeback, r5_no_bottom, r6_load_kill]


def r7_operator_functor(ctx):
    ctx.rule("C14.r7", "array_adaptive offset maps (and the environment containers they are built from): operator| merges with a join-like "
             "functor, operator& with a meet-like one", floor=4)
    from . import _containers as cont
    cont.operator_functor_rule(ctx, "C14.r7", ("lib/array_adaptive_impl.cpp", "include/crab/domains/array_adaptive.hpp",
                                                "include/crab/domains/separate_domains.hpp", "include/crab/domains/discrete_domains.hpp"))


RULES += [r7_operator_functor]


def r8_no_silent_skip(ctx):
    ctx.rule("C14.r8", "array_adaptive: a store to a range is never skipped (in whole or in part) after a mere warning, and array_assign "
             "forgets the previous cells of its left-hand side: every non-bottom return has updated or forgotten the written array", floor=3)
    # (a) array_store_range
    fs = ctx.db.fns(AA, pk=AAC + "::array_store_range")
    if ctx.need(fs, "array_adaptive_domain::array_store_range"):
        for fn in fs:
            body = fn["body"]
            g = paths.guards(body)

            # returns that directly follow a CRAB_WARN in their block (the warn-and-return idiom)
            after_warn = set()
            for blk in walk(body):
                if blk.get("k") != "seq":
                    continue
                warned = False
                for st_ in blk.get("b", []):
                    if st_.get("k") == "do" and "CRAB_WARN" in (st_.get("m") or "") and "CRAB_LOG" not in (st_.get("m") or ""):
                        warned = True
                    elif st_.get("k") == "ret" and warned:
                        after_warn.add(id(st_))

            def gen(n):
                if n.get("k") == "call" and callee(n) and callee(n)["name"] in ("forget_array", "array_store", "operator-=", "forget") and \
                        any(is_param(a, fn, 0) for a in n.get("a", [])):
                    return ("effect",)
                return ()
            f = paths.must_events(body, gen)
            nbad = 0
            for r, st in f.returns:
                if r is not None and id(r) in after_warn and "effect" not in st:
                    # accepted: the range is empty (lb > ub)
                    gs = g.get(id(r), ()) if r is not None else ()

                    def empty_range(c):
                        pp = cmp_parts(c)
                        return 1 if (pp and pp[0] in ("<=", "<", ">", ">=") and
                                     all(any(y.get("k") == "ref" and (y.get("n") or "") in ("lb", "ub") for y in walk(z)) for z in (pp[1], pp[2]))) else 0
                    if guard_truth(gs, empty_range, body) is not None:
                        ctx.ok("array_store_range: empty range ignored", fn, r)
                        continue
                    nbad += 1
                    ctx.bad("array_adaptive_domain::array_store_range prints a warning and returns without storing to or forgetting the "
                            "array: the cells of the range keep their previous values", fn, r if r is not None else body,
                            sig="store-range-skipped")
            # the store loop covers the whole range: its upper limit is the range's upper bound, never reassigned
            d = local_decls(body)
            for l in walk(body):
                if l.get("k") == "for" and any(is_call(x, name="array_store") for x in walk(l.get("b"))):
                    pp = cmp_parts(l.get("c"))
                    lim = strip(pp[2]) if pp else None
                    if isinstance(lim, dict) and lim.get("k") == "ref" and lim.get("rk") == "local" and writes_to(body, lim.get("id")):
                        nbad += 1
                        w = writes_to(body, lim.get("id"))[0]
                        ctx.bad("array_adaptive_domain::array_store_range lowers the upper limit of its store loop (`%s`): the cells beyond "
                                "it keep their previous values although the statement overwrites them" % src(w)[:60], fn, w,
                                sig="store-range-truncated")
            if nbad == 0:
                ctx.ok("array_store_range never skips the range after a warning", fn, body)
    # (b) array_assign
    fs = ctx.db.fns(AA, pk=AAC + "::array_assign")
    if ctx.need(fs, "array_adaptive_domain::array_assign"):
        for fn in fs:
            body = fn["body"]
            g = paths.guards(body)

            def gen2(n):
                if is_call(n, name="forget_array") and n.get("a") and is_param(n["a"][0], fn, 0):
                    return ("forgot",)
                if is_call(n, name="erase_all") and n.get("a") and is_param(n["a"][0], fn, 0):
                    return ("forgot",)
                return ()

            def refine(cond, pol):
                c = strip(cond)
                if is_call(c, name="is_bottom") and pol:
                    return None
                pp = cmp_parts(c)
                if pp and pp[0] == "==" and pol and {0, 1} == {i for i in (0, 1) for z in (pp[1], pp[2]) if is_param(z, fn, i)}:
                    return None          # lhs == rhs: nothing to do
                return ()
            f = paths.must_events(body, gen2, refine=refine)
            if all("forgot" in st for r, st in f.returns):
                ctx.ok("array_assign forgets the previous cells of lhs on every path", fn, body)
            else:
                r = [r for r, st in f.returns if "forgot" not in st][0]
                ctx.bad("array_adaptive_domain::array_assign rebuilds the cells of `lhs` from `rhs` without forgetting the cells lhs already "
                        "had: the ghost variable of a cell that only lhs had keeps its value and is found again by the next access "
                        "(B[8] = 3; B := A; x := B[8] gives 3)", fn, r if r is not None else body, sig="array-assign-stale-cells")


RULES += [r8_no_silent_skip]


def r4b_offset_map_copies(ctx, rid="C14.r4b", backward_only=False):
    ctx.rule(rid, "array_adaptive: an offset map obtained from an array state is modified through a REFERENCE into that state (or a "
             "by-value copy is stored back): cells added to a detached copy are lost while their ghost variables stay constrained", floor=3)
    n = 0
    for fn in ctx.db.fns(AA, cpk=AAC):
        if backward_only and not fn["name"].startswith("backward_"):
            continue
        body = fn["body"]
        d = local_decls(body)
        for dd in d.values():
            t = (dd.get("T") or "")
            tc = (dd.get("TC") or t)
            if "offset_map" not in tc or "i" not in dd:
                continue
            if not any(is_call(x, name="get_offset_map") for x in walk(dd["i"])):
                continue
            n += 1
            byval = not t.rstrip().endswith("&")
            if not byval:
                ctx.ok("%s: `%s` is a reference into the array state" % (fn["name"], dd["n"]), fn, dd)
                continue
            vid = dd["id"]
            # mutated: passed by non-const reference or receiver of a non-const call
            mut = None
            for x in walk(body):
                if x.get("k") != "call" or not callee(x):
                    continue
                o = strip(x.get("o")) if "o" in x else None
                if isinstance(o, dict) and o.get("k") == "ref" and o.get("id") == vid and not callee(x).get("const"):
                    mut = x
                ps = (callee(x).get("psig") or "").split(",")
                for i, a in enumerate(x.get("a", [])):
                    sa = strip(a)
                    if isinstance(sa, dict) and sa.get("k") == "ref" and sa.get("id") == vid and i < len(ps) and \
                            ps[i].strip().endswith("&") and not ps[i].strip().startswith("const"):
                        mut = x
            if mut is None:
                ctx.ok("%s: by-value copy `%s` is only read" % (fn["name"], dd["n"]), fn, dd)
                continue
            stored = any((x.get("k") in ("ctor",) and any(strip_move(a).get("id") == vid for a in x.get("a", []) if isinstance(strip_move(a), dict))) or
                         (is_call(x, name=("set_offset_map",)) and any(isinstance(strip_move(a), dict) and strip_move(a).get("id") == vid for a in x.get("a", [])))
                         for x in walk(body))
            if stored:
                ctx.ok("%s: by-value copy `%s` modified and stored back" % (fn["name"], dd["n"]), fn, dd)
            else:
                ctx.bad("array_adaptive_domain::%s takes the offset map BY VALUE (`%s %s = ...get_offset_map()`), modifies the copy with `%s` "
                        "and never stores it back: the cell is missing from the array state that is written to the array map while its "
                        "ghost variable is constrained, so later overlapping stores / havocs do not kill it" %
                        (fn["name"], t[:30], dd["n"], src(mut)[:50]), fn, mut, sig="offset-map-copy:%s:%s" % (fn["name"], dd["n"]), rid=rid)
    if n == 0:
        ctx.fail("rule %s: no local bound to get_offset_map() found" % rid)


RULES += [r4b_offset_map_copies]


def r9_backward_stores(ctx, rid="C14.r9"):
    ctx.rule(rid, "array_adaptive backward stores: every cell that the store overwrites loses its post-constraint (it is backward-"
             "assigned, or killed together with the overlapping cells, or the whole array is forgotten) on every non-bottom path; "
             "a range store handles its cells BEFORE meeting the forward invariant of the statement once (a per-cell meet makes "
             "the not-yet-handled cells contradict the invariant); nothing is skipped except an empty range", floor=4)

    def filled_vectors(body):
        """ids of local vectors that receive the written cell (push_back(mk_named_cell(..))) or the symbolic overlap"""
        out = {}
        for c in walk(body):
            if c.get("k") != "call" or not callee(c):
                continue
            nm = callee(c)["name"]
            if nm == "push_back" and c.get("a") and any(is_call(y, name="mk_named_cell") for y in walk(c["a"][0])):
                o = strip(c.get("o"))
                if isinstance(o, dict) and o.get("k") == "ref":
                    out.setdefault(o["id"], set()).add("exact")
            if nm == "get_overlap_cells_symbolic_offset" and c.get("a"):
                v = strip(c["a"][-1])
                if isinstance(v, dict) and v.get("k") == "ref":
                    out.setdefault(v["id"], set()).add("symbolic")
        return out

    n = 0
    for name in ("backward_array_store", "backward_array_store_range"):
        for fn in ctx.db.fns(AA, pk=AAC + "::" + name):
            body = fn["body"]
            fv = filled_vectors(body)

            def gen(x, fv=fv):
                out = []
                if x.get("k") == "call" and callee(x):
                    nm = callee(x)["name"]
                    if nm == "do_backward_assign":
                        out.append("handled")
                    if nm == "forget_array":
                        out.append("handled")
                    if nm == "kill_cells" and len(x.get("a", [])) >= 2:
                        v = strip(x["a"][1])
                        if isinstance(v, dict) and v.get("k") == "ref" and v.get("id") in fv:
                            out.append("handled")
                        else:
                            out.append("killed-overlap-only")
                return out

            def branch_labels(cond, pol):
                c, p = strip(cond), pol
                while isinstance(c, dict) and c.get("k") == "un" and c.get("op") == "!":
                    c, p = strip(c.get("e")), not p
                if is_call(c, name="is_bottom") and p and (c.get("o") is None or is_this(deref(c.get("o")))):
                    return None
                if is_call(c, name="is_smashed") and p:
                    return ("smashed",)
                # empty range:  !(lb <= ub)  (possibly conjoined with the tests that both bounds are known)
                if pol and any(y.get("k") == "un" and y.get("op") == "!" and any(is_call(z, name="operator<=") for z in walk(y.get("e")))
                               for y in walk(cond)):
                    return ("empty-range",)
                return ()
            class _PathSets(dm._MayMust):
                """one label set per class of paths; a decided condition labels (or cuts) the paths that take the branch"""
                def refine(self, cond, st, pol, _r=branch_labels):
                    extra = _r(cond, pol)
                    if extra is None:
                        return None
                    if extra:
                        return frozenset(p | frozenset(extra) for p in st)
                    return st
            try:
                fl = _PathSets(lambda x: (), gen)
                fl.run(body)
            except paths.Unstructured:
                ctx.skipped("%s|%s" % (rid, name), rid=rid)
                continue
            for r, st in [(r, p) for r, ps in fl.returns for p in sorted(ps, key=sorted)]:
                n += 1
                if "handled" in st or "empty-range" in st:
                    ctx.ok("%s: overwritten cells handled" % name, fn, r, rid=rid)
                elif "smashed" in st and name == "backward_array_store":
                    ctx.exempt("array_adaptive::backward_array_store on a smashed array", "documented as not implemented (warning); the "
                               "smashed summary lives in the base domain's own array abstraction", rid=rid)
                else:
                    what = "kills only the cells that OVERLAP the written cell, not the written cell itself" if "killed-overlap-only" in st \
                        else "returns without touching the overwritten cells"
                    ctx.bad("array_adaptive_domain::%s %s: the constraint that the postcondition puts on the stored value stays as a "
                            "constraint on the OLD content of the cell, so the precondition excludes states from which the error is "
                            "reachable" % (name, what), fn, r if r is not None else body,
                            sig="backward-store-keeps-post-constraint:%s" % name, rid=rid)
            if name == "backward_array_store_range":
                loops = [l for l in walk(body) if l.get("k") in ("for", "while", "do", "rangefor")]
                per_cell = [c for l in loops for c in walk(l.get("b")) if is_call(c, name="backward_array_store")]
                n += 1
                if per_cell:
                    ctx.bad("array_adaptive_domain::backward_array_store_range calls backward_array_store once per cell: each call meets "
                            "with the forward invariant of the WHOLE statement while the other cells of the range still carry their "
                            "post-constraints, which yields a spurious bottom (A[0..4]:=7; y:=A[4..7]; assert(y<=5) is proved)", fn,
                            per_cell[0], sig="range-store-per-cell-meet", rid=rid)
                else:
                    ctx.ok("backward_array_store_range: no per-cell meet with the statement's invariant", fn, body, rid=rid)
    if n == 0:
        ctx.fail("rule %s: backward_array_store / backward_array_store_range not found" % rid)


RULES += [r9_backward_stores]


def r10_smash_completeness(ctx):
    ctx.rule("C14.r10", "array_adaptive smashing: the summary of an array is seeded with a STRONG update of its first tracked cell only "
             "where the tracked cells are known to be ALL the cells that may hold a value (an input array, a havocked array or an "
             "array forgotten by a store over an unknown range has untracked cells with unknown contents)", floor=1)
    n = 0
    seen = set()
    for fn in ctx.db.fns(AA):
        if not (fn.get("cpk") or "").startswith(AAC):
            continue
        if fn["name"] not in ("array_store", "smash_array"):
            continue
        body = fn["body"]
        for c in walk(body):
            if not (is_call(c, name="array_store") and c.get("o") is not None and len(c.get("a", [])) == 5):
                continue
            flag = resolve_local(body, strip(c["a"][4]))
            # the strong-update flag of the smashing loop:  const bool is_strong_update = (k == 0)
            if not (isinstance(flag, dict) and cmp_parts(flag) and cmp_parts(flag)[0] == "==" and
                    any(y.get("k") == "lit" and y.get("v") == "0" for y in walk(flag))):
                continue
            key = (fn["name"], c.get("l"))
            if key in seen:
                continue
            seen.add(key)
            n += 1
            g = paths.guards(body)
            complete = any(any(is_call(y, name=("is_complete", "covers_all_cells", "all_cells_tracked")) for y in walk(cond))
                           for cond, pol in g.get(id(c), ()) if not isinstance(cond, tuple))
            if complete:
                ctx.ok("%s: strong seed of the summary only for a completely tracked array" % fn["name"], fn, c)
            else:
                ctx.bad("array_adaptive_domain::%s seeds the summary of a smashed array with a strong update of its first tracked cell "
                        "(`%s`) with no evidence that the tracked cells are all the cells: for an array with untracked contents "
                        "(input / havocked / forgotten) `A[24] := 1; A[i] := 2; x := A[20]` gives x in [1,2]" %
                        (fn["name"], src(flag)[:20]), fn, c, sig="smash-strong-seed-without-completeness")
    if n == 0:
        ctx.fail("rule C14.r10: smashing loop (array_store with is_strong_update = (k == 0)) not found")


RULES += [r10_smash_completeness]


def r11_summary_never_assigned(ctx):
    ctx.rule("C14.r11", "array_smashing: a summary variable (mk_scalar_var) is never the SOURCE of an assignment in the base domain - it "
             "stands for all the cells of its array, so `t := summary` makes every cell equal to t; values leave a summary only through "
             "expand (a copy of its constraints that is not related to it)", floor=2)
    n = 0
    seen = set()
    for fn in ctx.db.fns(AS):
        if not (fn.get("cpk") or "").startswith(ASC):
            continue
        body = fn["body"]
        d = local_decls(body)
        summ = {dd["id"] for dd in d.values() if "i" in dd and any(is_call(c, name="mk_scalar_var") for c in walk(dd["i"]))}
        if not summ:
            continue
        key = (fn["name"], fn.get("psig"))
        if key in seen:
            continue
        seen.add(key)
        for c in walk(body):
            if not (c.get("k") == "call" and callee(c) and callee(c)["name"] in ("assign", "assign_bool_var", "weak_assign", "weak_assign_bool_var") and
                    c.get("o") is not None and (is_field(obj(c), "m_base_dom") or (isinstance(strip(c["o"]), dict) and strip(c["o"]).get("k") == "ref")) and
                    len(c.get("a", [])) >= 2):
                continue
            n += 1
            srcs = {y.get("id") for y in walk(c["a"][1]) if y.get("k") == "ref" and y.get("rk") == "local"}
            hit = srcs & summ
            if hit:
                nm = [dd["n"] for dd in d.values() if dd["id"] in hit][0]
                ctx.bad("array_smashing::%s assigns from the summary variable `%s`: with a relational base domain the destination becomes "
                        "EQUAL to the summary (all cells), e.g. B := A followed by y := A[20] gives y == B.smashed" % (fn["name"], nm), fn, c,
                        sig="summary-is-assignment-source:%s" % fn["name"])
            else:
                ctx.ok("%s: assignment source is not a summary variable" % fn["name"], fn, c)
    if n == 0:
        ctx.fail("rule C14.r11: no base-domain assignment found in array_smashing")


RULES += [r11_summary_never_assigned]


def r12_every_cell_folded_or_abort(ctx):
    ctx.rule("C14.r12", "array_adaptive smashing: the loop that folds the tracked cells into the summary either stores EVERY cell "
             "(base.array_store(a, .., ghost of the cell, ..)) or gives the smashing up (the flag that guards `m_is_smashed = true` and "
             "the erasure of the cells is cleared) on every path of an iteration, including the ones that leave the loop early - a "
             "cell that is skipped silently is erased with the others and its contents are no longer in the summary", floor=2)
    n = 0
    seen = set()
    for fn in ctx.db.fns(AA):
        if not (fn.get("cpk") or "").startswith(AAC) or fn["name"] not in ("array_store", "smash_array"):
            continue
        body = fn["body"]
        for loop in [l for l in walk(body) if l.get("k") in ("for", "rangefor", "while")]:
            lb = loop.get("b")
            stores = [c for c in walk(lb) if is_call(c, name="array_store") and c.get("o") is not None and len(c.get("a", [])) == 5]
            flagged = []
            for c in stores:
                flag = resolve_local(body, strip(c["a"][4]))
                if isinstance(flag, dict) and cmp_parts(flag) and cmp_parts(flag)[0] == "==" and any(y.get("k") == "lit" and y.get("v") == "0" for y in walk(flag)):
                    flagged.append(c)
            if not flagged:
                continue
            key = (fn["name"], loop.get("l"))
            if key in seen:
                continue
            seen.add(key)
            n += 1
            # the abort flag: a local bool assigned `false` inside the loop and tested afterwards
            aborts = [a for a, ps in nodes_not_in_log(lb, lambda x: x.get("k") == "asg" and isinstance(strip(x.get("L")), dict) and strip(x["L"]).get("k") == "ref"
                                                      and isinstance(strip(x.get("R")), dict) and strip(x["R"]).get("k") == "lit" and strip(x["R"]).get("v") in ("false", "true"))]
            inner_decls = {d.get("id") for d in walk(lb) if d.get("k") == "decl"}
            aborts = [a for a in aborts if strip(a["L"]).get("id") not in inner_decls]
            abort_ids = {strip(a["L"]).get("id") for a in aborts}
            store_ids = {id(c) for c in flagged}

            def gen(x):
                if id(x) in store_ids:
                    return ("done",)
                if x.get("k") == "asg" and isinstance(strip(x.get("L")), dict) and strip(x["L"]).get("id") in abort_ids and \
                        isinstance(strip(x.get("R")), dict) and strip(x["R"]).get("k") == "lit":
                    return ("done",)
                if x.get("k") == "ret":
                    return ("done",)
                return ()
            fl = paths.MustEvents(gen)
            fl.record_after = True
            try:
                fl.run({"k": "seq", "b": [loop]})
            except paths.Unstructured as e:
                ctx.undecided("%s: smashing loop with unstructured control flow (%s)" % (fn["name"], e), fn, loop)
                continue
            exits = [(b, fl.at.get(id(b))) for b in walk(lb, into_lambdas=False) if b.get("k") in ("break", "continue")]
            exits.append((lb, fl.after.get(id(lb))))
            bad = [(b, st) for b, st in exits if st is not None and "done" not in st]
            if bad:
                b = bad[0][0]
                ctx.bad("array_adaptive_domain::%s: an iteration of the smashing loop can end (%s) without storing the cell into the summary "
                        "and without giving the smashing up: a cell without ghost variable (written on one side of an earlier join) is "
                        "erased with the others and `x := A[12]` no longer contains the 7 stored there" %
                        (fn["name"], "at the end of the body" if b is lb else b.get("k")), fn, b if b is not lb else loop,
                        sig="smash-cell-skipped:%s" % fn["name"])
            else:
                ctx.ok("%s: every iteration stores the cell or gives the smashing up" % fn["name"], fn, loop)
    if n == 0:
        ctx.fail("rule C14.r12: smashing loop not found")


RULES += [r12_every_cell_folded_or_abort]
