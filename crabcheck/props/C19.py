"""C19 - environment maps and sets behave as their mathematical counterparts."""
from . import _containers as cont
from . import _lattice

LEVEL_TEXT = ("Clause-level static rules for the environment containers: a top value is never stored in a separate_domain / "
              "separate_discrete_domain map (every insert is guarded by !is_top() on the same value; join-like merge operators "
              "drop bindings that reach top), the default_is_absorbing flag of every merge operator agrees with the operator it "
              "applies and with the map's default, set/forget/rename keep their case structure, tree nodes are immutable "
              "(persistence), and the lattice operators answer the bottom/top special cases correctly. The bit-prefix "
              "merge/compare/insert/remove algorithms of the patricia tree are NOT decided."
              " Every recursive call of the Patricia merge keeps the operand order (the op need not be commutative).")
ASSUMPTIONS = ["patricia tree merge/compare/insert/remove implement pointwise combination (graph algorithm, not decided)"]


def r1_top(ctx):
    ctx.rule("C19.r1", "top is never stored: inserts guarded by !is_top(); join-like apply drops top results", floor=8)
    cont.top_never_stored(ctx, "C19.r1")


def r2_flags(ctx):
    ctx.rule("C19.r2", "default_is_absorbing agrees with the applied operator and the map default", floor=8)
    cont.default_flags(ctx, "C19.r2")


def r3_nodes(ctx):
    ctx.rule("C19.r3", "tree nodes immutable once built (persistence)", floor=5)
    cont.tree_node_immutability(ctx, "C19.r3")


def r4_set(ctx):
    ctx.rule("C19.r4", "set / operator-= / rename keep their case structure", floor=4)
    cont.set_shape(ctx, "C19.r4")


def r5_prologues(ctx):
    ctx.rule("C19.r5", "lattice operators of the containers answer the bottom/top cases correctly", floor=10)
    _lattice.prologue_rule(ctx, "C19.r5", files=["include/crab/domains/separate_domains.hpp",
                                                  "include/crab/domains/discrete_domains.hpp"])


RULES = [r1_top, r2_flags, r3_nodes, r4_set, r5_prologues]


# ------------------------------------------------------------------ patricia tree kernels
from ..tree import (walk, strip, is_call, is_ref, is_this, deref, same_expr, src, obj, callee)   # noqa: E402
from .. import paths                                                                             # noqa: E402
from ..match import (strip_move, is_param, rets, resolve_local, local_decls, writes_to, cmp_parts)   # noqa: E402
import itertools                                                                                 # noqa: E402

PT = "include/crab/domains/patricia_trees.hpp"
TREE = "ikos::patricia_trees_impl::tree"


def _eval3(c, val):
    c = strip(c)
    if not isinstance(c, dict):
        return None
    v = val(c)
    if v is not None:
        return v
    k = c.get("k")
    if k == "un" and c.get("op") == "!":
        r = _eval3(c.get("e"), val)
        return None if r is None else (not r)
    if k == "call" and c.get("op") == "!" and "o" in c and not c.get("a"):
        r = _eval3(c.get("o"), val)
        return None if r is None else (not r)
    if k == "bin" and c.get("op") in ("&&", "||"):
        a, b = _eval3(c.get("L"), val), _eval3(c.get("R"), val)
        if c["op"] == "&&":
            if a is False or b is False:
                return False
            return True if (a is True and b is True) else None
        if a is True or b is True:
            return True
        return False if (a is False and b is False) else None
    return None


class _Unknown(Exception):
    pass


def _run(n, val):
    """interpret a statement tree whose only effects are `return <bool literal>`; conditions are decided by val.
    returns True / False (value returned) or None (falls through)."""
    if not isinstance(n, dict):
        return None
    k = n.get("k")
    if k == "seq":
        for x in n.get("b", []):
            r = _run(x, val)
            if r is not None:
                return r
        return None
    if k == "if":
        c = _eval3(n.get("c"), val)
        if c is None:
            raise _Unknown(src(n.get("c"))[:60])
        if c:
            return _run(n.get("t"), val)
        return _run(n.get("e"), val) if "e" in n else None
    if k == "ret":
        v = strip(n.get("v"))
        if isinstance(v, dict) and v.get("k") == "lit" and v.get("v") in ("true", "false"):
            return v["v"] == "true"
        raise _Unknown("return " + src(n.get("v"))[:40])
    if k in ("decl", "call", "asg", "label"):
        return None
    raise _Unknown(k)


def r6_compare_leaf(ctx):
    ctx.rule("C19.r6", "patricia tree::compare, leaf case: the answer is `false` exactly when the pointwise order fails - the bound "
             "values are not ordered, the leaf's key is missing on the side where missing means less, or the other tree binds ANOTHER "
             "key (it is a node, or a leaf with a different key) on the side where missing means more (32-row truth table)", floor=8)
    fs = ctx.db.fns(PT, pk=TREE + "::compare")
    if not ctx.need(fs, "tree::compare"):
        return
    for fn in fs:
        body = fn["body"]
        d = local_decls(body)
        ps = fn.get("params", [])
        if len(ps) != 4:
            ctx.undecided("tree::compare no longer has four parameters", fn, body)
            continue
        # the block guarded by s->is_leaf()
        blk = None
        for n in walk(body):
            if n.get("k") == "if" and is_call(strip(n.get("c")), name="is_leaf") and is_param(deref(strip(n["c"]).get("o")), fn, 0):
                blk = n.get("t")
                break
        if blk is None:
            ctx.undecided("tree::compare: the `s->is_leaf()` case was not found", fn, body)
            continue
        # locals: value_ = t->find(key)
        found_ids = {dd["id"] for dd in d.values() if "i" in dd and is_call(strip(dd["i"]), name="find") and
                     is_param(deref(strip(dd["i"]).get("o")), fn, 1)}
        if not found_ids:
            ctx.undecided("tree::compare: lookup of the leaf's key in the other tree not found", fn, blk)
            continue
        # operand order of the value comparison
        leqs = [n for n in walk(blk) if is_call(n, name="leq") and len(n.get("a", [])) == 2]
        okorder = False
        if len(leqs) == 1:
            def side(e):
                r = resolve_local(body, e, d)
                r = strip(r)
                if isinstance(r, dict) and r.get("k") == "cond" and is_param(r.get("c"), fn, 3):
                    def mine(x):
                        x = resolve_local(body, x, d)
                        return not any(isinstance(y, dict) and y.get("k") == "ref" and y.get("id") in found_ids for y in walk(x))
                    return ("own" if mine(r.get("t")) else "other", "own" if mine(r.get("e")) else "other")
                return None
            okorder = side(leqs[0]["a"][0]) == ("own", "other") and side(leqs[0]["a"][1]) == ("other", "own")
        if not okorder:
            ctx.bad("tree::compare, leaf case: po.leq must be called as leq(left, right) with left = (left_to_right ? leaf value : found "
                    "value) and right the opposite", fn, leqs[0] if leqs else blk, sig="compare-leaf-operands")
            continue
        nbad = 0
        for found, tleaf, ltr, dtop, leq in itertools.product((False, True), repeat=5):
            def val(c, found=found, tleaf=tleaf, ltr=ltr, dtop=dtop, leq=leq):
                if c.get("k") == "ref":
                    if c.get("id") in found_ids:
                        return found
                    if c.get("rk") == "param" and c.get("id") == ps[3]["id"]:
                        return ltr
                if c.get("k") == "call" and callee(c):
                    nm = callee(c)["name"]
                    if nm == "is_leaf" and is_param(deref(c.get("o")), fn, 1):
                        return tleaf
                    if nm == "default_is_top":
                        return dtop
                    if nm == "leq":
                        return leq
                    if nm == "operator bool" and is_ref(c.get("o")) and strip(c["o"]).get("id") in found_ids:
                        return found
                if c.get("k") == "cast":
                    return None
                return None
            try:
                got = _run(blk, val)
            except _Unknown as e:
                ctx.undecided("tree::compare, leaf case: cannot evaluate `%s`" % e, fn, blk)
                nbad = -1
                break
            other_key = (not tleaf) or (not found)
            exp_false = (found and not leq) or ((not found) and (ltr != dtop)) or (other_key and (ltr == dtop))
            exp = False if exp_false else None
            if got != exp:
                nbad += 1
                if nbad == 1:
                    ctx.bad("tree::compare, leaf case, answers %s where the pointwise order says %s: key %s in the other tree, other tree is a "
                            "%s, %s, default value is %s%s" %
                            ("`false`" if got is False else "`included so far`", "`false`" if exp is False else "`included so far`",
                             "found" if found else "NOT found", "leaf" if tleaf else "node",
                             "leaf is the left operand" if ltr else "leaf is the right operand", "top" if dtop else "bottom",
                             (", values %sordered" % ("" if leq else "NOT ")) if found else ""), fn, blk,
                            sig="compare-leaf-table:found=%d,tleaf=%d,ltr=%d,top=%d" % (found, tleaf, ltr, dtop))
        if nbad == 0:
            ctx.ok("compare leaf case agrees with the pointwise order on all 32 rows", fn, blk)


def r7_reuse(ctx):
    ctx.rule("C19.r7", "patricia merge: an operand tree X is returned in place of a freshly built result only after the result was "
             "compared with X itself (leaf: eq(new value, X's value); node: new branches == X's branches)", floor=20)
    fs = ctx.db.fns(PT, pk=TREE + "::merge")
    if not ctx.need(fs, "tree::merge"):
        return
    for fn in fs:
        body = fn["body"]
        d = local_decls(body)
        g = paths.guards(body)
        ps = fn.get("params", [])

        def which(e):
            e = strip_move(e)
            for i in (0, 1):
                if is_param(e, fn, i):
                    return i
            return None

        def owner_of_value(e):
            """which operand tree the value expression belongs to: B.second with B = X->binding(), or *V with V = X->find(..)"""
            e = strip(e)
            for x in walk(e):
                if x.get("k") == "ref" and x.get("rk") == "local":
                    dd = d.get(x.get("id")) or {}
                    i = strip(dd.get("i")) if "i" in dd else None
                    for y in walk(i):
                        if is_call(y, name=("binding", "find")):
                            w = which(deref(y.get("o")))
                            if w is not None:
                                return w
            return None
        n = 0
        for r in rets(body):
            v = strip_move(r.get("v"))
            if not (isinstance(v, dict) and v.get("k") in ("ctor", "ilist") and len(v.get("a", [])) == 2):
                continue
            X = which(v["a"][1])
            if X is None:
                continue
            gs = [(c, p) for c, p in g.get(id(r), ()) if not isinstance(c, tuple)]
            # the innermost guard that compares a NEW result with an operand
            cmpg = None
            for c, p in reversed(gs):
                cs = strip(c)
                if p and (is_call(cs, op="()") or (isinstance(cs, dict) and cs.get("k") == "bin" and cs.get("op") == "&&") or cmp_parts(cs)):
                    if any(is_call(y, name=("left_branch", "right_branch")) for y in walk(cs)) or \
                            (isinstance(cs, dict) and cs.get("k") == "call" and cs.get("op") == "()"):
                        cmpg = cs
                        break
            if cmpg is None:
                # returned without a comparison: the neutral cases (other operand empty / default not absorbing)
                continue
            n += 1
            if cmpg.get("k") == "call" and cmpg.get("op") == "()":
                a = cmpg.get("a", [])
                owners = [owner_of_value(x) for x in a]
                owners = [o for o in owners if o is not None]
                good = owners == [X]
                what = "eq(new value, value of %s)" % (ps[owners[0]]["n"] if owners else "?")
            else:
                br = [y for y in walk(cmpg) if is_call(y, name=("left_branch", "right_branch"))]
                owners = {which(deref(y.get("o"))) for y in br}
                names = {callee(y)["name"] for y in br}
                good = owners == {X} and names == {"left_branch", "right_branch"}
                what = "new branches == branches of %s" % "/".join(ps[o]["n"] for o in owners if o is not None)
            if good:
                ctx.ok("merge returns %s after %s" % (ps[X]["n"], what), fn, r)
            else:
                ctx.bad("tree::merge returns the operand `%s` unchanged after testing `%s`, i.e. after comparing the result with the OTHER "
                        "operand: when the combined value equals the other operand's value, `%s` (a different value) is returned as the "
                        "result of the merge" % (ps[X]["n"], src(cmpg)[:70], ps[X]["n"]), fn, r,
                        sig="merge-reuse:%s:%s" % (ps[X]["n"], what))
        if n == 0:
            ctx.fail("rule C19.r7: no reuse shortcut found in tree::merge")


RULES += [r6_compare_leaf, r7_reuse]


def r8_dropped_key_meaning(ctx):
    ctx.rule("C19.r8", "a merge operator drops a binding (returns no value) only for the value that a MISSING key denotes in that map: "
             "top in maps whose order says default_is_top(), bottom otherwise", floor=6)
    from ..match import guard_truth
    files = ("include/crab/domains/separate_domains.hpp", "include/crab/domains/discrete_domains.hpp")
    n = 0
    for f in files:
        if not ctx.db.has_file(f):
            continue
        # default of each container class: <container>::domain_po::default_is_top
        defaults = {}
        for fn in ctx.db.fns(f, name="default_is_top"):
            rs = rets(fn["body"])
            if len(rs) == 1 and isinstance(strip(rs[0].get("v")), dict) and strip(rs[0]["v"]).get("k") == "lit":
                outer = "::".join((fn.get("cpk") or "").split("::")[:-1])
                defaults[outer] = strip(rs[0]["v"]).get("v") == "true"
        for fn in ctx.db.fns(f, name="apply"):
            cpk = fn.get("cpk") or ""
            if not cpk.split("::")[-1].endswith("_op"):
                continue
            outer = "::".join(cpk.split("::")[:-1])
            if outer not in defaults:
                continue
            body = fn["body"]
            g = paths.guards(body)
            for r in rets(body):
                v = strip(r.get("v"))
                parts = v.get("a", []) if isinstance(v, dict) else []
                if len(parts) != 2:
                    continue
                flag = strip(parts[0])
                if isinstance(flag, dict) and flag.get("k") == "lit" and flag.get("v") == "true":
                    continue          # {true, _}: the whole map becomes bottom
                has_payload = any(x.get("k") == "ctor" and "optional" in (callee(x) or {}).get("cpk", "") and x.get("a") for x in walk(parts[1]))
                if has_payload:
                    continue
                n += 1
                # which value test guards the drop?
                def mk(nm):
                    def atom(c):
                        c = strip(c)
                        return 1 if (isinstance(c, dict) and c.get("k") == "call" and callee(c) and callee(c)["name"] == nm and not c.get("a")) else 0
                    return atom
                under_top = guard_truth(g.get(id(r), ()), mk("is_top"), body) is True
                under_bot = guard_truth(g.get(id(r), ()), mk("is_bottom"), body) is True
                want_top = defaults[outer]
                okd = (under_top and want_top) or (under_bot and not want_top)
                if okd:
                    ctx.ok("%s::apply drops the binding only for %s" % (cpk.split("::")[-2] + "::" + cpk.split("::")[-1], "top" if want_top else "bottom"), fn, r)
                elif under_top or under_bot:
                    ctx.bad("%s::apply drops the binding when the combined value is %s, but in %s a missing key means %s: the dropped key "
                            "silently becomes %s (e.g. the join is no longer an upper bound)" %
                            (cpk.split("::")[-1], "top" if under_top else "bottom", outer.split("::")[-1], "top" if want_top else "bottom",
                             "top" if want_top else "bottom"), fn, r, sig="dropped-key:%s:%s" % (outer.split("::")[-1], cpk.split("::")[-1]))
                else:
                    ctx.undecided("%s::apply drops a binding under a condition that is neither is_top() nor is_bottom()" % cpk.split("::")[-1], fn, r)
    if n == 0:
        ctx.fail("rule C19.r8: no dropped binding found")


RULES += [r8_dropped_key_meaning]


def r9_operator_functor(ctx):
    ctx.rule("C19.r9", "environment containers: operator| / join merge with a join-like functor (join_op, union_op, widening_op), "
             "operator& / meet with a meet-like one", floor=6)
    cont.operator_functor_rule(ctx, "C19.r9", ("include/crab/domains/separate_domains.hpp", "include/crab/domains/discrete_domains.hpp",
                                                "lib/array_adaptive_impl.cpp"))


RULES += [r9_operator_functor]


def r10_sorted_search(ctx):
    ctx.rule("C19.r10", "environment maps / sets: std::binary_search, lower_bound, upper_bound and equal_range are applied only to a "
             "range that std::sort has sorted on every path before (the caller's key vector of project() arrives in any order: a "
             "binary search on it misses keys, which are then forgotten)", floor=2)
    from ..paths import MustEvents, Unstructured
    SEARCH = ("binary_search", "lower_bound", "upper_bound", "equal_range")
    files = ["include/crab/domains/separate_domains.hpp", "include/crab/domains/discrete_domains.hpp", PT]
    n = 0
    seen = set()
    for f in files:
        if not ctx.db.has_file(f):
            continue
        for fn in ctx.db.fns(f):
            body = fn["body"]
            calls = [c for c in walk(body) if c.get("k") == "call" and callee(c) and callee(c)["name"] in SEARCH and
                     (callee(c).get("qn") or "").startswith("std::") and c.get("a")]
            if not calls:
                continue
            key = (fn.get("pk"), fn.get("psig"))
            if key in seen:
                continue
            seen.add(key)

            def container_of(e):
                for y in walk(e):
                    if y.get("k") == "call" and callee(y) and callee(y)["name"] in ("begin", "cbegin") and y.get("o") is not None:
                        o = strip(y["o"])
                        if isinstance(o, dict) and o.get("k") in ("ref", "mem"):
                            return o
                return None

            def gen(x):
                if x.get("k") == "call" and callee(x) and callee(x)["name"] in ("sort", "stable_sort") and x.get("a"):
                    o = container_of(x["a"][0])
                    if o is not None:
                        return ("sorted:%s" % (o.get("id") or o.get("n")),)
                return ()
            try:
                fl = MustEvents(gen)
                fl.run(body)
            except Unstructured:
                ctx.skipped("C19.r10|%s" % fn["name"], rid="C19.r10")
                continue
            for c in calls:
                n += 1
                o = container_of(c["a"][0])
                st = fl.at.get(id(c)) or frozenset()
                t = ((o or {}).get("TC") or (o or {}).get("T") or "")
                if o is not None and ("sorted:%s" % (o.get("id") or o.get("n"))) in st:
                    ctx.ok("%s: %s on a range sorted before" % (fn["name"], callee(c)["name"]), fn, c)
                elif o is not None and ("std::set" in t or "std::map" in t):
                    ctx.ok("%s: %s on an ordered container" % (fn["name"], callee(c)["name"]), fn, c)
                else:
                    ctx.bad("%s::%s applies std::%s to `%s`, which has not been sorted on every path before: with keys in descending "
                            "or arbitrary order the search misses keys that are present (separate_domain::project then forgets "
                            "bindings the caller asked to keep)" % ((fn.get("cpk") or "").split("::")[-1], fn["name"], callee(c)["name"],
                                                                    src(o)[:30] if o is not None else "?"), fn, c,
                            sig="search-on-unsorted-range:%s" % fn["name"])
    if n == 0:
        ctx.fail("rule C19.r10: no sorted-range search found")


RULES += [r10_sorted_search]


def r11_flagged_equality(ctx):
    ctx.rule("C19.r11", "sets with a separate top flag (discrete_domain, set_domain): operator== is evaluated for the four flag "
             "combinations with equal underlying sets - top is the flag with an EMPTY set, so a disjunct that compares only the sets "
             "makes top == {} (bottom) true", floor=4)
    DD = "include/crab/domains/discrete_domains.hpp"
    fs = [f for f in ctx.db.fns(DD, name="operator==") if len(f.get("params", [])) == 1]
    if not ctx.need(fs, "operator== in discrete_domains.hpp", "C19.r11"):
        return
    seen = set()
    import itertools
    for fn in fs:
        key = fn.get("cpk")
        if key in seen:
            continue
        body = fn["body"]
        flags = [x for x in walk(body) if x.get("k") == "mem" and x.get("n") == "m_is_top"]
        if not flags:
            continue             # no separate flag (e.g. dual_set_domain compares by mutual inclusion)
        seen.add(key)
        oid = fn["params"][0]["id"]
        for mine, theirs in itertools.product((False, True), repeat=2):
            def val(c, mine=mine, theirs=theirs):
                if c.get("k") == "mem" and c.get("n") == "m_is_top":
                    b = deref(c.get("b"))
                    if b is None or (isinstance(b, dict) and b.get("k") == "this"):
                        return mine
                    if isinstance(b, dict) and b.get("k") == "ref" and b.get("id") == oid:
                        return theirs
                if c.get("k") == "call" and c.get("op") == "==" and any(y.get("k") == "mem" and y.get("n") == "m_set" for y in walk(c)):
                    return True          # equal underlying sets (both empty)
                return None
            rs = rets(body)
            res = _eval3(rs[0].get("v"), val) if len(rs) == 1 else None
            want = (mine == theirs)
            if res is None:
                ctx.undecided("%s::operator== cannot be evaluated for flags (%s, %s)" % ((key or "").split("::")[-1], mine, theirs), fn, body)
            elif res == want:
                ctx.ok("%s::operator==: flags (%s,%s) with equal sets -> %s" % ((key or "").split("::")[-1], mine, theirs, res), fn, body)
            else:
                ctx.bad("%s::operator== answers %s for top flags (%s, %s) and equal underlying sets: top == {} is true although top <= {} "
                        "is false" % ((key or "").split("::")[-1], res, mine, theirs), fn, body,
                        sig="flag-ignored-in-equality:%s" % (key or "").split("::")[-1])


RULES += [r11_flagged_equality]


def r12_merge_operand_order(ctx):
    ctx.rule("C19.r12", "patricia merge(s, t, op, ..): every recursive call keeps the operand order - its first argument is (a branch of) s "
             "and its second (a branch of) t - because op need not be commutative: the same merge computes widening and narrowing, and "
             "a swapped pair computes `new widen old` (= new, a plain join) in that subtree, so a chain that grows there never "
             "stabilises", floor=6)
    fs = ctx.db.fns(PT, pk=TREE + "::merge")
    if not ctx.need(fs, "tree::merge"):
        return
    seen = set()
    for fn in fs:
        if fn["line"] in seen or len(fn.get("params", [])) < 3:
            continue
        seen.add(fn["line"])
        body = fn["body"]

        decls = local_decls(body)

        def root(e, depth=0):
            """the parameter (0 = s, 1 = t) an argument expression is taken from, else None"""
            hits = set()
            es = strip(e)
            if isinstance(es, dict) and es.get("k") == "ref" and es.get("rk") == "local" and depth < 3:
                d = decls.get(es.get("id"))
                if d is not None and "i" in d and not writes_to(body, es["id"]):
                    return root(d["i"], depth + 1)
            for x in walk(e):
                if isinstance(x, dict) and x.get("k") == "ref":
                    for i in (0, 1):
                        if is_param(x, fn, i):
                            hits.add(i)
            return hits.pop() if len(hits) == 1 else None
        for c in walk(body):
            if not (is_call(c, name="merge") and len(c.get("a", [])) >= 3):
                continue
            a0, a1 = root(c["a"][0]), root(c["a"][1])
            if a0 == 0 and a1 == 1:
                ctx.ok("merge(%s, %s, ..)" % (src(c["a"][0])[:24], src(c["a"][1])[:24]), fn, c)
            elif a0 is None or a1 is None:
                ctx.undecided("tree::merge: cannot tell which operand `%s` / `%s` come from" % (src(c["a"][0])[:24], src(c["a"][1])[:24]), fn, c)
            else:
                ctx.bad("tree::merge recurses with its operands swapped (`merge(%s, %s, ..)`): for a non-commutative op (widening) that "
                        "subtree computes new widen old = new, so with left indexes {2,3} and right {1,2,3} a bound that grows there is "
                        "never extrapolated and the analysis of the loop does not terminate" % (src(c["a"][0])[:24], src(c["a"][1])[:24]),
                        fn, c, sig="merge-operands-swapped")


RULES += [r12_merge_operand_order]


def r13_merge_apply_operand_order(ctx):
    ctx.rule("C19.r13", "patricia merge(s, t, op, combine_left_to_right): where a value of s meets a value of t the op is applied as "
             "op(key, value of s, value of t) when combine_left_to_right holds and with the two swapped otherwise - in BOTH leaf cases "
             "(s is a leaf, t is a leaf); the two blocks differ only in which tree `b` and `*value` come from, so a copy of one into the "
             "other computes t[k] OP s[k], which for widening means that a bound is not extrapolated", floor=2)
    fs = ctx.db.fns(PT, pk=TREE + "::merge")
    if not ctx.need(fs, "tree::merge"):
        return
    seen = set()
    n = 0
    for fn in fs:
        if fn["line"] in seen or len(fn.get("params", [])) < 4:
            continue
        seen.add(fn["line"])
        body = fn["body"]
        decls = local_decls(body)

        def origin(e, depth=0):
            """0 if the value comes from s, 1 if from t"""
            hits = set()
            e0 = strip_move(e)
            while isinstance(e0, dict) and e0.get("k") in ("ctor", "construct") and len(e0.get("a", [])) == 1:
                e0 = strip_move(e0["a"][0])
            if isinstance(e0, dict) and e0.get("k") == "call" and e0.get("o") is not None and (callee(e0) or {}).get("name") in ("find", "binding", "lookup"):
                e = e0["o"]          # X->find(key) / X->binding(): the value comes from X whatever the key is
            for x in walk(e):
                if not (isinstance(x, dict) and x.get("k") == "ref"):
                    continue
                for i in (0, 1):
                    if is_param(x, fn, i):
                        hits.add(i)
                if x.get("rk") == "local" and depth < 3:
                    d = decls.get(x.get("id"))
                    if d is not None and "i" in d:
                        o = origin(d["i"], depth + 1)
                        if o is not None:
                            hits.add(o)
            return hits.pop() if len(hits) == 1 else None
        for c in walk(body):
            if not (isinstance(c, dict) and c.get("k") == "cond"):
                continue
            cc = strip(c.get("c"))
            if not (isinstance(cc, dict) and cc.get("k") == "ref" and is_param(cc, fn, 3)):
                continue
            t_, e_ = strip_move(c.get("t")), strip_move(c.get("e"))
            for br, call in ((True, t_), (False, e_)):
                while isinstance(call, dict) and call.get("k") in ("ctor", "construct") and len(call.get("a", [])) == 1:
                    call = strip_move(call["a"][0])
                if not (is_call(call, name="apply") and len(call.get("a", [])) == 3):
                    continue
                o1, o2 = origin(call["a"][1]), origin(call["a"][2])
                n += 1
                want = (0, 1) if br else (1, 0)
                if (o1, o2) == want:
                    ctx.ok("op.apply(%s, %s) on the %s branch" % (src(call["a"][1])[:14], src(call["a"][2])[:14], "left-to-right" if br else "right-to-left"), fn, call)
                elif o1 is None or o2 is None:
                    ctx.undecided("tree::merge: cannot tell which tree `%s` / `%s` come from" % (src(call["a"][1])[:20], src(call["a"][2])[:20]), fn, call)
                else:
                    ctx.bad("tree::merge applies the op with the values of the two trees in the wrong order on the %s branch (`%s`): "
                            "{k4 -> [0,0], k5 -> [7,7]} widen {k4 -> [0,1]} gives k4 -> [0,1] instead of [0,+oo]" %
                            ("combine_left_to_right" if br else "right-to-left", src(call)[:60]), fn, call, sig="merge-apply-swapped")
    if n == 0:
        ctx.fail("rule C19.r13: no `combine_left_to_right ? op.apply(..) : op.apply(..)` found in tree::merge")


RULES += [r13_merge_apply_operand_order]


def r14_pair_domain_meet_pointwise(ctx):
    ctx.rule("C19.r14", "discrete_pair_domain: bottom is the EMPTY SET of pairs, not failure, so its meet functor never reports `the whole "
             "result is bottom` (first component true) when one key meets to the empty set - that key is dropped and the others keep "
             "their pairs; otherwise {e1->{e10}, e2->{e30}} & {e1->{e20}, e2->{e30}} is {} instead of {e2->{e30}}", floor=1)
    DD = "include/crab/domains/discrete_domains.hpp"
    fs = [f for f in ctx.db.fns(DD, name="apply") if "discrete_pair_domain" in (f.get("cpk") or "") and "meet_op" in (f.get("cpk") or "") and f.get("body")]
    if not ctx.need(fs, "discrete_pair_domain::meet_op::apply"):
        return
    fn = fs[0]
    bad = None
    for r in walk(fn["body"]):
        if r.get("k") != "ret" or r.get("v") is None:
            continue
        lits = [x for x in walk(r["v"]) if isinstance(x, dict) and x.get("k") == "lit" and x.get("v") in ("true", "false")]
        if lits and lits[0].get("v") == "true":
            bad = r
    if bad is not None:
        ctx.bad("discrete_pair_domain::meet_op::apply reports bottom for the whole map when one key meets to the empty set: the meet is not "
                "pointwise and drops the pairs of every other key", fn, bad, sig="pair-meet-bottom-absorbing")
    else:
        ctx.ok("the meet functor never reports bottom", fn, fn["body"])


RULES += [r14_pair_domain_meet_pointwise]
