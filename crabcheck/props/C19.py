"""C19 - environment maps and sets behave as their mathematical counterparts."""
from . import _containers as cont
from . import _lattice

LEVEL_TEXT = ("Clause-level static rules for the environment containers: a top value is never stored in a separate_domain / "
              "separate_discrete_domain map (every insert is guarded by !is_top() on the same value; join-like merge operators "
              "drop bindings that reach top), the default_is_absorbing flag of every merge operator agrees with the operator it "
              "applies and with the map's default, set/forget/rename keep their case structure, tree nodes are immutable "
              "(persistence), and the lattice operators answer the bottom/top special cases correctly. The bit-prefix "
              "merge/compare/insert/remove algorithms of the patricia tree are NOT decided.")
ASSUMPTIONS = ["patricia tree merge/compare/insert/remove implement pointwise combination (graph algorithm, not decided)"]


def r1_top(ctx):
    ctx.rule("C19.r1", "top is never stored: inserts guarded by !is_top(); join-like apply drops top results", floor=8)
    cont.top_never_stored(ctx, "C19.r1")


def r2_flags(ctx):
    ctx.rule("C19.r2", "default_is_absorbing agrees with the applied operator and the map default", floor=8)
    cont.default_flags(ctx, "C19.r2")


def r3_nodes(ctx):
    ctx.rule("C19.r3", "tree nodes immutable once built (persistence)", floor=5)
    cont.tree_node_immutability(ctx, "C19.r3")


def r4_set(ctx):
    ctx.rule("C19.r4", "set / operator-= / rename keep their case structure", floor=4)
    cont.set_shape(ctx, "C19.r4")


def r5_prologues(ctx):
    ctx.rule("C19.r5", "lattice operators of the containers answer the bottom/top cases correctly", floor=10)
    _lattice.prologue_rule(ctx, "C19.r5", files=["include/crab/domains/separate_domains.hpp",
                                                  "include/crab/domains/discrete_domains.hpp"])


RULES = [r1_top, r2_flags, r3_nodes, r4_set, r5_prologues]
