"""C12 - (last sentence only) the boolean / array / region liftings and the
reduced products hand every numerical operation to their numerical base
domain.  The exactness of the closure algorithms is NOT decided."""
from ..tree import (walk, walk_with_parents, strip, is_call, is_ref, is_this, is_field, deref, same_expr,
                    src, obj, args, callee, in_macro, LOG_MACROS)
from .. import paths
from ..match import strip_move, is_param, rets, resolve_local, local_decls, writes_to, cmp_parts

LEVEL_TEXT = ("Decides two structural necessary conditions. (a) closure pairing in zones/octagons: every relational edge written by add_linear_leq / assign is repaired and closed over (close_over_edge, same end points) before the operation moves on, and every closure delta computed by GraphOps::close_* is applied to the graph. (b) the last sentence: in "
              "flat_boolean_numerical_domain, array_smashing, array_adaptive_domain, region_domain, reduced_domain_product2 and "
              "reduced_numerical_domain_product2, every numerical transfer function and query (assign, apply x5, select, "
              "operator+=, entails, at, operator[]) reaches, on every path that is not an accepted exit (receiver bottom/top, "
              "non-numerical operand type, trivially-true constraint, variable unknown to the base), an operation of the numerical "
              "base domain; when that operation is the same-named one its arguments are the method's own parameters (or their "
              "accepted renamings) in the same positions; queries return the base domain's answer; products consult BOTH "
              "components. The exactness of closure / join / meet / forget in intervals, zones and octagons (sentences 1-2) is a "
              "numerical-algorithmic property that no static rule here decides; only the pairing (a) of its mechanism is."
              " The octagon meet closes relations on the bound-skipping view without re-deriving bounds (known finding F78).")
ASSUMPTIONS = ["renaming helpers of the region domain (rename_linear_expr, rename_linear_cst, get_or_insert_gvars) are faithful "
               "projections (their own correctness is covered by C15/C03 rules, not here)",
               "base domains themselves are exact on their language (NOT decided)"]

FB = "include/crab/domains/flat_boolean_domain.hpp"
SM = "include/crab/domains/array_smashing.hpp"
AD = "include/crab/domains/array_adaptive.hpp"
RG = "include/crab/domains/region_domain.hpp"
CD = "include/crab/domains/combined_domains.hpp"

METHODS = ("assign", "apply", "select", "operator+=", "entails", "at", "operator[]")
QUERIES = ("entails", "at", "operator[]")


def _field_root(e):
    """(field name, [accessor names]) of `m_f`, `m_f.first()`, `m_f.second()`"""
    acc = []
    e = deref(e)
    while isinstance(e, dict) and e.get("k") == "call" and "o" in e and not e.get("a") and callee(e) and \
            callee(e)["name"] in ("first", "second"):
        acc.append(callee(e)["name"])
        e = deref(e.get("o"))
    if isinstance(e, dict) and e.get("k") == "mem" and is_this(e.get("b")):
        return e.get("n"), list(reversed(acc))
    return None, None


# class -> (file, field, component rule)
#   "num"   : the numerical base is field itself or field.second()
#   "whole" : the base is the field
#   "both"  : field.first() and field.second() are both bases (field itself counts as both)
LIFTINGS = [
    ("crab::domains::flat_boolean_numerical_domain", FB, "m_product", "num"),
    ("crab::domains::array_smashing", SM, "m_base_dom", "whole"),
    ("crab::domains::array_adaptive_domain", AD, "m_base_dom", "whole"),
    ("crab::domains::region_domain", RG, "m_base_dom", "whole"),
    ("crab::domains::reduced_domain_product2", CD, "m_product", "both"),
    ("crab::domains::reduced_numerical_domain_product2", CD, "m_product", "both"),
]

# accepted renamings of the region domain (and optional-dereference of a ghost-variable lookup)
PROJECTIONS = {"rename_linear_expr", "rename_linear_cst", "rename_linear_cst_sys", "get_or_insert_gvars", "get_var", "get_gvars",
               "operator*", "operator->", "rename_var", "get"}

LOSSY = {"operator-=", "forget", "project", "set_to_top", "normalize", "minimize", "rename", "expand"}
NONNUM_TYPE_TESTS = {"is_array", "is_bool", "is_reference", "is_region", "is_bool_region", "is_unknown_region"}
TRIVIAL_TESTS = {"is_true", "is_tautology"}


def _labels(mode, field, acc):
    if mode == "whole":
        return ("c1",) if not acc else ()
    if mode == "num":
        return ("c1",) if (not acc or acc == ["second"]) else ()
    if not acc:
        return ("c1", "c2")
    if acc == ["first"]:
        return ("c1",)
    if acc == ["second"]:
        return ("c2",)
    return ()


def _derived(e, fn, body, d, depth=0, seen=None):
    """indices of fn's parameters that the expression is computed from (locals are followed through their initialiser
    and every write; a range-for variable stands for its range)"""
    out = set()
    seen = seen if seen is not None else set()
    if depth > 6:
        return out
    ps = {p["id"]: i for i, p in enumerate(fn.get("params", []))}
    for x in walk(e):
        if x.get("k") == "lambda":
            continue
        if x.get("k") == "ref":
            if x.get("rk") == "param" and x.get("id") in ps:
                out.add(ps[x["id"]])
            elif x.get("rk") == "local" and x.get("id") not in seen:
                seen.add(x.get("id"))
                dd = d.get(x.get("id"))
                if dd is not None:
                    if "i" in dd:
                        out |= _derived(dd["i"], fn, body, d, depth + 1, seen)
                    if dd.get("range") is not None:
                        out |= _derived(dd["range"], fn, body, d, depth + 1, seen)
                for w in writes_to(body, x.get("id")):
                    out |= _derived(w, fn, body, d, depth + 1, seen)
                for c in walk(body):
                    if c.get("k") == "call" and "o" in c and callee(c) and callee(c)["name"] in ("push_back", "insert", "emplace_back"):
                        o = strip(c.get("o"))
                        if isinstance(o, dict) and o.get("k") == "ref" and o.get("id") == x.get("id"):
                            out |= _derived({"k": "seq", "b": c.get("a", [])}, fn, body, d, depth + 1, seen)
    return out


def _decls_with_ranges(body):
    d = dict(local_decls(body))
    for n in walk(body):
        if n.get("k") == "rangefor":
            v = n.get("v")
            if isinstance(v, dict) and v.get("id") is not None:
                dd = dict(d.get(v["id"]) or {})
                dd["range"] = n.get("r")
                d[v["id"]] = dd
    return d


def _exempt_atom(c, pol, body, d):
    """True when (c == pol) is an accepted exit condition"""
    c = strip(c)
    while isinstance(c, dict) and c.get("k") == "un" and c.get("op") == "!":
        c = strip(c.get("e"))
        pol = not pol
    if not isinstance(c, dict):
        return False
    if c.get("k") == "bin" and c.get("op") == "&&":
        return pol and (_exempt_atom(c.get("L"), True, body, d) or _exempt_atom(c.get("R"), True, body, d))
    if c.get("k") == "bin" and c.get("op") == "||":
        return (not pol) and (_exempt_atom(c.get("L"), False, body, d) or _exempt_atom(c.get("R"), False, body, d))
    if c.get("k") == "call" and callee(c):
        nm = callee(c)["name"]
        o = c.get("o")
        if nm in ("is_bottom", "is_top") and not c.get("a") and pol:
            return o is None or is_this(deref(o)) or _field_root(o)[0] is not None
        if nm in NONNUM_TYPE_TESTS and pol and o is not None and any(is_call(x, name="get_type") for x in walk(o)):
            return True
        if nm in ("is_integer", "is_real", "is_number") and (not pol) and o is not None and any(is_call(x, name="get_type") for x in walk(o)):
            return True
        if nm in TRIVIAL_TESTS and pol and not c.get("a"):
            return True
        if nm == "operator bool" and not pol:
            # failed optional lookup of the base (ghost) variable: the base knows nothing about the variable
            r = resolve_local(body, o, d)
            return any(is_call(x, name=("get_gvars",)) for x in walk(r))
    if c.get("k") == "ref" and c.get("rk") == "local" and not pol:
        r = resolve_local(body, c, d)
        return any(is_call(x, name=("get_gvars",)) for x in walk(r))
    pp = cmp_parts(c)
    if pp:
        # get_bitwidth(v) == 1 : a Boolean operand
        op, a, b = pp
        lit1 = lambda x: isinstance(strip(x), dict) and strip(x).get("k") == "lit" and strip(x).get("v") == "1"
        bw = lambda x: any(y.get("k") == "call" and (is_call(y, name=("get_bitwidth", "get_integer_bitwidth")) or y.get("op") == "()") for y in walk(x))
        if ((op == "==" and pol) or (op == "!=" and not pol)) and ((lit1(a) and bw(b)) or (lit1(b) and bw(a))):
            return True
    return False


def r1_forwarding(ctx):
    ctx.rule("C12.r1", "liftings and products hand every numerical operation / query to the numerical base domain with the same "
             "arguments, on every path that is not an accepted exit; products use both components", floor=60)
    done = set()
    for cpk, f, field, mode in LIFTINGS:
        fs = [x for x in ctx.db.fns(f, cpk=cpk) if x["name"] in METHODS and x.get("virtual") and not x.get("static")]
        if not ctx.need(fs, "numerical operations of " + cpk):
            continue
        names = set()
        for fn in fs:
            # only the numerical overloads: linear_constraint_system for operator+=, not the lattice ops
            if fn["name"] == "operator+=" and "linear_constraint_system" not in fn["psig"]:
                continue
            if fn["name"] == "entails" and "linear_constraint_t" not in fn["psig"]:
                continue
            names.add((fn["name"], fn["psig"]))
            _check(ctx, fn, cpk.split("::")[-1], field, mode)
        if len(names) < 10:
            ctx.fail("rule C12.r1: only %d numerical operations found in %s (expected >= 10)" % (len(names), cpk))


def _check(ctx, fn, what, field, mode):
    body = fn["body"]
    d = _decls_with_ranges(body)
    name = fn["name"]
    np_ = len(fn.get("params", []))
    need = ("c1", "c2") if mode == "both" else ("c1",)
    if mode == "both" and name == "entails":
        need = ()          # either component suffices (short-circuit ||); checked below as "at least one"
    same, other = {}, {}
    bad = False
    for n, ps in walk_with_parents(body):
        if n.get("k") != "call" or "o" not in n or not callee(n) or in_macro(n, ps, LOG_MACROS):
            continue
        fld, acc = _field_root(n["o"])
        if fld != field:
            continue
        lab = _labels(mode, field, acc)
        if not lab:
            continue
        cal = callee(n)
        if cal["name"] in ("first", "second") and not n.get("a"):
            continue       # component accessor, not an operation
        if cal["name"] == name:
            a = [x for x in n.get("a", []) if not (isinstance(x, dict) and x.get("k") == "dflt")]
            if len(a) != np_:
                # a different overload of the same name (e.g. assign(dst, number)): an alternative base operation
                other[id(n)] = lab
                continue
            okc = True
            for i, x in enumerate(a):
                dv = _derived(x, fn, body, d)
                # projections only
                calls = [y for y in walk(resolve_local(body, x, d)) if y.get("k") == "call" and callee(y)]
                if dv == {i}:
                    continue
                if len(dv) == 1:
                    j = list(dv)[0]
                    ctx.bad("%s::%s passes its parameter `%s` where the base domain's %s expects `%s` (argument %d of `%s`)" %
                            (what, name, fn["params"][j]["n"], name, fn["params"][i]["n"], i + 1, src(n)[:90]), fn, n,
                            sig="fwd-order:%s(%s):%d" % (name, fn["psig"], i))
                    bad = True
                    okc = False
                else:
                    okc = False
            if okc:
                same[id(n)] = (n, lab)
            else:
                other[id(n)] = lab
        elif cal["name"] in LOSSY:
            continue       # forgetting is not an alternative way of performing the operation
        elif not cal.get("const") or name in QUERIES:
            other[id(n)] = lab
    if bad:
        return

    def gen(n):
        i = id(n)
        if i in same:
            return same[i][1]
        if i in other:
            return other[i]
        return ()

    def refine(cond, pol):
        if _exempt_atom(cond, pol, body, d):
            return ("c1", "c2")
        return ()
    try:
        f = paths.must_events(body, gen, refine=refine)
    except paths.Unstructured as e:
        ctx.undecided("%s::%s: control flow outside the fragment (%s)" % (what, name, e), fn, body)
        return
    if not same and not other:
        ctx.bad("%s::%s never calls the numerical base domain (%s): its result cannot be as precise as the base domain's" %
                (what, name, field), fn, body, sig="fwd-missing:%s(%s)" % (name, fn["psig"]))
        return
    if mode == "both" and name == "entails":
        labs = set()
        for v in list(same.values()):
            labs |= set(v[1])
        if not {"c1", "c2"} <= labs:
            ctx.bad("%s::entails consults only one component of the product" % what, fn, body, sig="fwd-one-component:entails")
            return
        need = ()
    g = paths.guards(body)
    for r, st in f.returns:
        miss = [x for x in need if x not in st]
        if miss:
            where = r if r is not None else body
            gs = [(c, p) for c, p in g.get(id(r), ())] if r is not None else []
            txt = " && ".join(("" if p else "!") + "(" + src(c)[:50] + ")" for c, p in gs if not isinstance(c, tuple))
            comp = {"c1": "first", "c2": "second"}
            ctx.bad("%s::%s: on a path %sthe operation is not handed to the numerical base domain%s: the lifting then knows less than "
                    "its base domain would" % (what, name, ("under `%s` " % txt) if txt else "",
                                               (" (component %s())" % "/".join(comp[x] for x in miss)) if mode == "both" else ""),
                    fn, where, sig="fwd-path:%s(%s):%s" % (name, fn["psig"], ",".join(miss)))
            return
    # queries: the returned value is the base domain's answer
    if name in QUERIES:
        for r in rets(body):
            st = f.at.get(id(r))
            gs = g.get(id(r), ())
            if any((not isinstance(c, tuple)) and _exempt_atom(c, p, body, d) for c, p in gs):
                continue
            v = r.get("v")
            vv = resolve_local(body, strip_move(v), d)
            sv = strip(v)
            # the most precise answer is never looser than the base domain's
            if name == "entails" and isinstance(sv, dict) and sv.get("k") == "lit":
                allc = ("c1", "c2") if mode == "both" else ("c1",)
                if sv.get("v") == "true" or all(x in (st or ()) for x in allc):
                    continue
            if name != "entails" and isinstance(sv, dict) and sv.get("k") == "call" and callee(sv) and callee(sv)["name"] == "bottom":
                continue
            has = any(id(x) in same or id(x) in other for x in walk(vv)) or any(id(x) in same or id(x) in other for x in walk(v))
            if not has:
                # value computed into a local from the base answers
                dv_calls = []
                for x in walk(v):
                    if x.get("k") == "ref" and x.get("rk") == "local":
                        dd = d.get(x.get("id")) or {}
                        for y in list(walk(dd.get("i"))) + [z for w in writes_to(body, x.get("id")) for z in walk(w)]:
                            if id(y) in same or id(y) in other:
                                dv_calls.append(y)
                has = bool(dv_calls)
            if not has:
                ctx.bad("%s::%s returns `%s`, not the answer of the numerical base domain" % (what, name, src(v)[:60]), fn, r,
                        sig="fwd-result:%s(%s)" % (name, fn["psig"]))
                return
    if same:
        n0 = list(same.values())[0][0]
        ctx.ok("%s::%s -> %s" % (what, name, src(n0)[:80]), fn, n0)
    else:
        ctx.ok("%s::%s uses other base operations on every path (no same-named call; precision of the replacement not decided)" %
               (what, name), fn, body)


RULES = [r1_forwarding]


# ---------------------------------------------------------------- closure pairing
SD = "include/crab/domains/split_dbm.hpp"
SO = "include/crab/domains/split_oct.hpp"
SP = "include/crab/domains/sparse_dbm.hpp"
GRAPH_DOMAINS = [(SD, "crab::domains::split_dbm_domain", "g"), (SO, "crab::domains::split_oct_domain", "m_graph"),
                 (SP, "crab::domains::sparse_dbm_domain", "g")]


class _MayPending(paths.Flow):
    """may-analysis: set of obligations opened on some path and not yet closed"""

    def __init__(self, tr):
        paths.Flow.__init__(self)
        self.tr = tr

    def initial(self):
        return frozenset()

    def join(self, a, b):
        return a | b

    def transfer(self, n, st):
        return self.tr(n, st)


def _is_zero_lit(e):
    e = strip(e)
    return isinstance(e, dict) and e.get("k") == "lit" and e.get("v") == "0"


def _vars_of(e):
    return {x.get("id") for x in walk(e) if x.get("k") == "ref" and x.get("rk") in ("local", "param")}


def r2_edge_closure(ctx):
    ctx.rule("C12.r2", "zones / octagons: every relational edge written by add_linear_leq / assign is followed, before its end points "
             "change and before the operation returns, by repair_potential and close_over_edge on the same end points", floor=10)
    n_sites = 0
    for f, cpk, gf in GRAPH_DOMAINS[:2]:
        for name in ("add_linear_leq", "assign"):
            fs = ctx.db.fns(f, pk=cpk + "::" + name)
            if not ctx.need(fs, cpk + "::" + name):
                continue
            for fn in fs:
                body = fn["body"]
                sites = {}
                for n in walk(body):
                    if is_call(n, name="update_edge") and is_field(obj(n), gf) and len(n.get("a", [])) >= 3:
                        S, D = n["a"][0], n["a"][2]
                        if _is_zero_lit(S) or _is_zero_lit(D):
                            continue        # a bound of one variable: collected by close_after_assign(.., 0, ..) / inline bounds
                        sites[id(n)] = (n, S, D)
                if not sites:
                    continue
                leaked = {}

                def tr(n, st, sites=sites, leaked=leaked):
                    k = n.get("k")
                    if id(n) in sites:
                        _, S, D = sites[id(n)]
                        return st | {("rep", id(n)), ("clo", id(n))}
                    if k == "call" and callee(n):
                        nm = callee(n)["name"]
                        if nm in ("repair_potential", "close_over_edge") and len(n.get("a", [])) == 2:
                            tag = "rep" if nm == "repair_potential" else "clo"
                            out = set(st)
                            for t, i in st:
                                if t == tag and same_expr(sites[i][1], n["a"][0]) and same_expr(sites[i][2], n["a"][1]):
                                    out.discard((t, i))
                            return frozenset(out)
                        if nm in ("update_bounds_lb", "update_bounds_ub") and n.get("a"):
                            # octagons: an edge between the two vertices of ONE variable is a bound; its consequences are
                            # propagated by update_bounds_lb / update_bounds_ub of that variable
                            return frozenset((t, i) for t, i in st if not (same_expr(sites[i][1], n["a"][0]) or
                                                                           same_expr(sites[i][2], n["a"][0])))
                        if nm == "set_to_bottom" and ("o" not in n or is_this(deref(n.get("o")))):
                            return frozenset()      # the value is bottom: nothing left to close
                    wid = None
                    if k == "asg":
                        l = strip(n.get("L"))
                        if isinstance(l, dict) and l.get("k") == "ref":
                            wid = l.get("id")
                    elif k == "decl":
                        wid = n.get("id")
                    if wid is not None:
                        for t, i in st:
                            if wid in (_vars_of(sites[i][1]) | _vars_of(sites[i][2])):
                                leaked.setdefault((t, i), n)
                    return st
                fl = _MayPending(tr)
                try:
                    fl.run(body)
                except paths.Unstructured as e:
                    ctx.undecided("%s: %s" % (fn["name"], e), fn, body)
                    continue
                at_exit = {}
                for r, st in fl.returns:
                    for x in st:
                        at_exit.setdefault(x, r)
                for i, (n, S, D) in sites.items():
                    n_sites += 1
                    what = None
                    for t, txt in (("rep", "repair_potential"), ("clo", "close_over_edge")):
                        if (t, i) in leaked or (t, i) in at_exit:
                            what = txt
                            break
                    if what is None:
                        ctx.ok("%s: edge %s -> %s repaired and closed" % (name, src(S), src(D)), fn, n)
                    else:
                        ctx.bad("%s::%s writes the relational edge %s -> %s and then, on some path, %s without %s(%s, %s): the graph is no "
                                "longer closed, so constraints implied through this edge are not entailed" %
                                (cpk.split("::")[-1], name, src(S), src(D),
                                 "changes the end points / starts the next iteration" if (("rep", i) in leaked or ("clo", i) in leaked) else "returns",
                                 what, src(S), src(D)), fn, n, sig="edge-unclosed:%s:%s:%s->%s" % (name, what, src(S), src(D)))
    if n_sites == 0:
        ctx.fail("rule C12.r2: no relational edge write found")


CLOSERS = ("close_after_assign", "close_after_meet", "close_after_widen", "close_johnson")
APPLIERS = ("apply_delta", "update_delta")


def r3_delta_applied(ctx):
    ctx.rule("C12.r3", "every closure delta computed by GraphOps::close_* is applied to the graph (apply_delta / update_delta) before the "
             "delta is cleared or the operation returns", floor=15)
    n_sites = 0
    for f, cpk, gf in GRAPH_DOMAINS:
        seen_fn = False
        for fn in ctx.db.fns(f, cpk=cpk):
            body = fn["body"]
            sites = {}
            for n in walk(body):
                if n.get("k") == "call" and callee(n) and callee(n)["name"] in CLOSERS and "GraphOps" in (callee(n).get("cpk") or callee(n).get("qn") or ""):
                    a = n.get("a", [])
                    if a and is_ref(a[-1]):
                        sites[id(n)] = (n, strip(a[-1]).get("id"))
            if not sites:
                continue
            seen_fn = True

            def tr(n, st, sites=sites):
                if id(n) in sites:
                    return st | {id(n)}
                if n.get("k") == "call" and callee(n):
                    nm = callee(n)["name"]
                    if nm in APPLIERS and len(n.get("a", [])) >= 2 and is_ref(n["a"][1]):
                        did = strip(n["a"][1]).get("id")
                        return frozenset(i for i in st if sites[i][1] != did)
                    if nm == "set_to_bottom" and ("o" not in n or is_this(deref(n.get("o")))):
                        return frozenset()
                return st

            class F(_MayPending):
                def refine(self, cond, st, pol):
                    # if (!GraphOps::close_after_assign(...)) return false;   -- the closure found a negative cycle
                    c = strip(cond)
                    p = pol
                    while isinstance(c, dict) and c.get("k") == "un" and c.get("op") == "!":
                        c = strip(c.get("e"))
                        p = not p
                    if isinstance(c, dict) and id(c) in sites and not p:
                        return st - {id(c)}
                    return st
            fl = F(tr)
            try:
                fl.run(body)
            except paths.Unstructured as e:
                ctx.undecided("%s: %s" % (fn["name"], e), fn, body)
                continue
            pend = {}
            for r, st in fl.returns:
                for i in st:
                    pend.setdefault(i, r)
            # a delta cleared while pending
            for n in walk(body):
                if is_call(n, name="clear") and is_ref(obj(n)):
                    st = fl.at.get(id(n), frozenset())
                    for i in st:
                        if sites[i][1] == strip(obj(n)).get("id"):
                            pend.setdefault(i, n)
            for i, (n, did) in sites.items():
                n_sites += 1
                if i in pend:
                    ctx.bad("%s::%s computes a closure delta with `%s` and can return (or clear the delta) without applying it to the "
                            "graph: the graph stays un-closed" % (cpk.split("::")[-1], fn["name"], src(n)[:70]), fn, n,
                            sig="delta-unapplied:%s:%s" % (fn["name"], callee(n)["name"]))
                else:
                    ctx.ok("%s: %s applied" % (fn["name"], src(n)[:60]), fn, n)
        if not seen_fn:
            ctx.fail("rule C12.r3: no GraphOps::close_* call found in " + cpk)
    if n_sites == 0:
        ctx.fail("rule C12.r3: no closure call found")


RULES += [r2_edge_closure, r3_delta_applied]


def _flat_args(e, depth=0):
    """leaf expressions of nested brace / pair constructions"""
    e = strip_move(e)
    if isinstance(e, dict) and e.get("k") in ("ilist", "ctor") and e.get("a") and depth < 4:
        out = []
        for a in e["a"]:
            out += _flat_args(a, depth + 1)
        return out
    return [strip(e)]


def r4_relaxation(ctx):
    ctx.rule("C12.r4", "closure relaxations are self-consistent: in `if (g.lookup(s,d,w)) { if (w.get() <= X) continue; g.set_edge(s,Y,d) } "
             "else add (s,d,Z)` the weight compared is the weight written (X = Y = Z) and the end points agree", floor=3)
    n_sites = 0
    for f, cpk, gf in GRAPH_DOMAINS[:2]:
        for fn in ctx.db.fns(f, pk=cpk + "::close_over_edge"):
            body = fn["body"]
            d = local_decls(body)
            for n in walk(body):
                if n.get("k") != "if":
                    continue
                c = strip(n.get("c"))
                if not (is_call(c, name="lookup") and len(c.get("a", [])) == 3):
                    continue
                S, D, W = strip(c["a"][0]), strip(c["a"][1]), strip(c["a"][2])
                then = n.get("t")
                inner = [x for x in walk(then) if x.get("k") == "if" and any(y.get("k") == "continue" for y in walk(x.get("t")))]
                sets = [x for x in walk(then) if is_call(x, name=("set_edge", "update_edge")) and len(x.get("a", [])) >= 3]
                if len(inner) != 1 or len(sets) != 1:
                    continue
                n_sites += 1
                pp = cmp_parts(inner[0].get("c"))
                wref = lambda e: is_call(strip(e), name="get") and same_expr(strip(strip(e).get("o")), W)
                X = None
                okdir = False
                if pp:
                    op, a, b = pp
                    if wref(a) and op in ("<=", "<"):
                        X, okdir = strip(b), True
                    elif wref(b) and op in (">=", ">"):
                        X, okdir = strip(a), True
                    elif wref(a) or wref(b):
                        X = strip(b) if wref(a) else strip(a)
                st = sets[0]
                Y = strip(st["a"][1])
                problems = []
                if X is None:
                    ctx.undecided("close_over_edge: cannot read the comparison guarding `%s`" % src(st)[:50], fn, inner[0])
                    continue
                if not okdir:
                    problems.append("the existing weight is kept when it is LOOSER (`%s`)" % src(inner[0].get("c"))[:40])
                if not same_expr(X, Y):
                    problems.append("the existing weight is compared with `%s` but `%s` is written" % (src(X), src(Y)))
                if not (same_expr(strip(st["a"][0]), S) and same_expr(strip(st["a"][2]), D)):
                    problems.append("lookup(%s,%s) but set_edge(%s,.,%s)" % (src(S), src(D), src(st["a"][0]), src(st["a"][2])))
                if "e" in n:
                    adds = [x for x in walk(n["e"]) if is_call(x, name=("add_edge", "push_back", "emplace_back"))]
                    for ad in adds:
                        if callee(ad)["name"] == "add_edge" and len(ad.get("a", [])) >= 3:
                            leaves = [strip(ad["a"][0]), strip(ad["a"][2]), strip(ad["a"][1])]
                        else:
                            leaves = _flat_args(ad["a"][0]) if ad.get("a") else []
                        if len(leaves) != 3:
                            continue
                        if not same_expr(leaves[2], Y):
                            problems.append("the new edge is added with `%s` but the existing edge is set to `%s`" % (src(leaves[2]), src(Y)))
                        if not (same_expr(leaves[0], S) and same_expr(leaves[1], D)):
                            problems.append("lookup(%s,%s) but the new edge is (%s,%s)" % (src(S), src(D), src(leaves[0]), src(leaves[1])))
                if problems:
                    ctx.bad("%s::close_over_edge, relaxation of %s -> %s: %s; the stored bound is then not the shortest path and implied "
                            "constraints are no longer entailed" % (cpk.split("::")[-1], src(S), src(D), "; ".join(problems)), fn, st,
                            sig="relaxation:%s->%s:%s" % (src(S), src(D), src(Y)))
                else:
                    ctx.ok("%s -> %s relaxed with %s" % (src(S), src(D), src(Y)), fn, st)
    if n_sites == 0:
        ctx.fail("rule C12.r4: no relaxation site found")


RULES += [r4_relaxation]


def r5_meet_bounds_closure(ctx):
    ctx.rule("C12.r5", "zones (split_dbm) meet: whenever the syntactic meet is not closed, the variable bounds are recovered by closing "
             "from vertex 0 (close_after_assign(g, pi, 0, delta) + apply_delta) on EVERY path and for every parameter setting - "
             "pushing bounds only along the edges the closure has just added misses a bound of one operand combined with an edge "
             "of the other ({a<=5} & {b-a<=0} must entail b<=5)", floor=2)
    SD = "include/crab/domains/split_dbm.hpp"
    n = 0
    for fn in ctx.db.fns(SD):
        if fn["name"] not in ("operator&", "operator&=") or not (fn.get("cpk") or "").endswith("split_dbm_domain"):
            continue
        # the meet is implemented in a lambda
        for lam in [x for x in walk(fn["body"]) if x.get("k") == "lambda"]:
            lb = lam.get("b")
            closes = [c for c in walk(lb) if is_call(c, name=("close_after_meet", "close_johnson"))]
            if not closes:
                continue
            n += 1

            def gen(x):
                if is_call(x, name="close_after_assign") and len(x.get("a", [])) >= 3:
                    v = strip(x["a"][2])
                    if isinstance(v, dict) and v.get("k") == "lit" and v.get("v") == "0":
                        return ("bounds-closed",)
                return ()
            try:
                fl = paths.MustEvents(gen)
                fl.run(lb)
            except paths.Unstructured:
                ctx.skipped("C12.r5|%s" % fn["name"], rid="C12.r5")
                continue
            # state at the end of the `if (!is_closed)` block that contains the closure
            blk = None
            for x, ps in walk_with_parents(lb):
                if x is closes[0]:
                    ifs = [p for p in ps if p.get("k") == "if"]
                    blk = ifs[-1] if ifs else None
                    # the outermost `if (!is_closed)`
                    for p in ifs:
                        if any(y.get("k") == "ref" and "closed" in (y.get("n") or "") for y in walk(p.get("c"))):
                            blk = p
                            break
            ok = False
            if blk is not None:
                inner = paths.MustEvents(gen)
                inner._brk, inner._cont, inner._gotos, inner._labels_seen = [[]], [[]], {}, set()
                end = inner.stmt(blk.get("t"), frozenset())
                ok = end is not None and "bounds-closed" in end
            if ok:
                ctx.ok("%s: bounds closed from vertex 0 on every path of the non-closed case" % fn["name"], fn, closes[0])
            else:
                ctx.bad("split_dbm_domain::%s does not close the bounds from vertex 0 on every path after the closure of the meet (a "
                        "parameter-dependent shortcut pushes bounds only along the new edges): {a<=5} & {b-a<=0} does not entail b<=5" %
                        fn["name"], fn, closes[0], sig="meet-bounds-not-closed:%s" % fn["name"])
    if n == 0:
        ctx.fail("rule C12.r5: split_dbm meet closure not found")


def r6_oct_twin_lookups(ctx):
    from . import C04
    C04.r10_oct_twin_lookups(ctx, rid="C12.r6")


RULES += [r5_meet_bounds_closure, r6_oct_twin_lookups]


def r7_oct_meet_bounds(ctx):
    ctx.rule("C12.r7", "octagons (split_oct) meet: the relations of the syntactic meet are closed on the view that SKIPS the bound edges, "
             "so the unary bounds must be re-derived and tightened afterwards (update_bounds / a closure that includes the bound "
             "edges / integer_tightening) on every path of the non-closed case; otherwise y <= x-5 and x+y >= -4 never give x >= 1 "
             "and the meet does not entail what the conjunction implies", floor=1)
    SO = "include/crab/domains/split_oct.hpp"
    n = 0
    for fn in ctx.db.fns(SO):
        if fn["name"] not in ("operator&", "operator&=") or not (fn.get("cpk") or "").endswith("split_oct_domain"):
            continue
        for lam in [x for x in walk(fn["body"]) if x.get("k") == "lambda"]:
            lb = lam.get("b")
            closes = [c for c in walk(lb) if is_call(c, name=("close_after_meet", "close_johnson"))]
            if not closes:
                continue
            n += 1
            after = [c for c in walk(lb) if is_call(c, name=("update_bounds", "integer_tightening", "close_after_assign", "normalize", "close_bounds"))]
            if after:
                ctx.ok("%s: bounds re-derived after the closure of the relations" % fn["name"], fn, after[0])
            else:
                ctx.bad("split_oct_domain::%s closes the relations of the meet on the bound-skipping view and never re-derives / tightens the "
                        "unary bounds: {x-z<=0; y-x<=-5; ...} & {-x-y<=4; y<=1; ...} does not entail -x-z <= -2 although x >= 1 follows "
                        "over the integers (the same constraints assumed one after the other entail it)" % fn["name"], fn, closes[0],
                        sig="oct-meet-bounds-not-rederived:%s" % fn["name"])
    if n == 0:
        ctx.fail("rule C12.r7: split_oct meet closure not found")


RULES += [r7_oct_meet_bounds]


def r8_dijkstra_edge_colour(ctx):
    ctx.rule("C12.r8", "GraphOps::chrome_dijkstra (closure after a meet): the colour accumulated on a vertex D when the edge S -> D is "
             "relaxed is the colour OF THAT EDGE, edge_marks[sz * S + D] - S being the vertex whose successor D is (the `es` of "
             "edge_val(es, ed), or the source of e_succs in the seeding loop) - also on a tie between two equally short paths; the "
             "colour of another edge into D marks D as reached from both operands, D is never expanded and a shortest path through it "
             "is lost (the meet no longer entails f - a <= 3)", floor=3)
    GO = "include/crab/domains/graphs/graph_ops.hpp"
    n = 0
    seen = set()
    for fn in ctx.db.fns(GO):
        body = fn.get("body")
        if not body or "dijkstra" not in fn["name"] or (fn["name"], fn["line"]) in seen:
            continue
        seen.add((fn["name"], fn["line"]))
        parents = {}
        for x, ps in walk_with_parents(body):
            parents[id(x)] = ps
        for x in walk(body):
            lhs = rhs = None
            if x.get("k") == "asg":
                lhs, rhs = strip(x.get("L")), x.get("R")
            elif x.get("k") in ("casg",) or (x.get("k") == "bin" and x.get("op") in ("|=",)):
                lhs, rhs = strip(x.get("L")), x.get("R")
            elif x.get("k") == "call" and x.get("op") in ("=", "|=") and "o" in x and x.get("a"):
                lhs, rhs = strip(x["o"]), x["a"][0]
            if lhs is None or rhs is None:
                continue

            def index_of(e, arr):
                e = strip(e)
                if isinstance(e, dict) and e.get("k") in ("idx", "subscript") :
                    b, i = e.get("b") or e.get("a"), e.get("i")
                    if isinstance(strip(b), dict) and strip(b).get("n") == arr:
                        return i
                if isinstance(e, dict) and e.get("k") == "call" and e.get("op") == "[]" and "o" in e and e.get("a") and \
                        isinstance(strip(e["o"]), dict) and strip(e["o"]).get("n") == arr:
                    return e["a"][0]
                return None
            D = index_of(lhs, "vert_marks")
            if D is None:
                continue
            em = [index_of(y, "edge_marks") for y in walk(rhs) if isinstance(y, dict)]
            em = [i for i in em if i is not None]
            if not em:
                continue
            idx = strip(em[0])
            # idx = sz * A + B
            if not (isinstance(idx, dict) and idx.get("k") == "bin" and idx.get("op") == "+"):
                ctx.undecided("%s: edge_marks index `%s` is not of the form sz * S + D" % (fn["name"], src(idx)[:30]), fn, x)
                continue
            mul, B = strip(idx.get("L")), strip(idx.get("R"))
            if not (isinstance(mul, dict) and mul.get("k") == "bin" and mul.get("op") == "*"):
                mul, B = B, mul
            if not (isinstance(mul, dict) and mul.get("k") == "bin" and mul.get("op") == "*"):
                ctx.undecided("%s: edge_marks index `%s` is not of the form sz * S + D" % (fn["name"], src(idx)[:30]), fn, x)
                continue
            A = strip(mul.get("R")) if isinstance(strip(mul.get("L")), dict) and strip(mul["L"]).get("n") == "sz" else strip(mul.get("L"))
            # the source vertex of the edge being relaxed
            loops = [p for p in parents.get(id(x), []) if p.get("k") in ("rangefor", "for", "while")]
            S = None
            if loops:
                inner = loops[-1]
                ev = [c for c in walk(inner.get("b")) if is_call(c, name="edge_val") and len(c.get("a", [])) == 2 and same_expr(strip(c["a"][1]), strip(D))]
                if ev:
                    S = strip(ev[0]["a"][0])
                elif inner.get("k") == "rangefor":
                    es = [c for c in walk(inner.get("r")) if is_call(c, name=("e_succs", "succs")) and c.get("a")]
                    if es:
                        S = strip(es[0]["a"][0])
            if S is None:
                ctx.undecided("%s: the edge that is relaxed where vert_marks[%s] is written was not found" % (fn["name"], src(D)[:12]), fn, x)
                continue
            n += 1
            if same_expr(B, strip(D)) and same_expr(A, S):
                ctx.ok("%s: vert_marks[%s] takes the colour of the edge %s -> %s" % (fn["name"], src(D)[:8], src(S)[:8], src(D)[:8]), fn, x)
            else:
                ctx.bad("GraphOps::%s accumulates on vertex %s the colour edge_marks[sz * %s + %s] although the edge being relaxed is %s -> %s: "
                        "on a tie the vertex is marked as reached from both operands and never expanded - the closure after a meet of "
                        "{e-p<=1, e-q<=1} and {p-a<=1, q-a<=1, e-a<=10, f-e<=1} keeps f-a<=11 instead of f-a<=3" %
                        (fn["name"], src(D)[:8], src(A)[:8], src(B)[:8], src(S)[:8], src(D)[:8]), fn, x, sig="dijkstra-colour-of-other-edge:%s" % fn["name"])
    if n == 0:
        ctx.fail("rule C12.r8: no colour accumulation found in the dijkstra routines")


RULES += [r8_dijkstra_edge_colour]
