"""C07 - weak topological orderings are well formed (nesting clause only)."""
from . import _wto

LEVEL_TEXT = ("Decides only the second sentence of C07 (the nesting reported for a node lists the heads of the strictly "
              "enclosing components, outermost first): in nesting_builder the value recorded for a head is the nesting "
              "before the head is appended, children are visited after the append, the nesting is restored on every exit, "
              "operator+= appends at the end, and nobody else writes the nesting table. The first sentence (each reachable "
              "node once, proper nesting, edge condition for every graph) is a property of an iterative graph algorithm "
              "over all graphs and is NOT decided by static analysis; only one structural necessary condition of it is: every write of a DFS "
              "frame's `_min` in wto::visit is a min-update (C07.r5).")
ASSUMPTIONS = ["the component structure handed to nesting_builder is Bourdoncle's WTO (not decided)"]


def r1_nesting(ctx):
    ctx.rule("C07.r1", "head nesting excludes the head; children after append; restored on exit", floor=3)
    ctx.rule("C07.r2", "a vertex records the current nesting", floor=1)
    _wto.nesting_rule(ctx, "C07.r1", "C07.r2")


def r3_writers(ctx):
    ctx.rule("C07.r3", "the nesting table is mutated only by nesting_builder", floor=3)
    _wto.table_writers_rule(ctx, "C07.r3")


def r4_append(ctx):
    ctx.rule("C07.r4", "wto_nesting::operator+= appends at the end (outermost first)", floor=1)
    _wto.append_rule(ctx, "C07.r4")


RULES = [r1_nesting, r3_writers, r4_append]


from ..tree import walk, strip, is_call, same_expr, src, deref   # noqa: E402
from .. import paths                                            # noqa: E402
from ..match import cmp_parts                                   # noqa: E402

WTO = "include/crab/fixpoint/wto.hpp"


def r5_min_update(ctx):
    ctx.rule("C07.r5", "wto::visit: `_min` of a DFS frame is the minimum dfn seen in the frame's subtree, so every write `F._min = E` is "
             "guarded by a comparison of E with the SAME F._min (E <= F._min / F._min > E)", floor=2)
    fs = [f for f in ctx.db.fns(WTO, name="visit") if (f.get("cpk") or "").endswith("::wto") and
          any(isinstance(x, dict) and x.get("k") == "mem" and x.get("n") == "_min" for x in walk(f["body"]))]
    if not ctx.need(fs, "wto::visit (non-recursive)"):
        return
    for fn in fs:
        body = fn["body"]
        g = paths.guards(body)
        n = 0
        for a in walk(body):
            L = R = None
            if a.get("k") == "asg":
                L, R = strip(a.get("L")), strip(a.get("R"))
            elif a.get("k") == "call" and a.get("op") == "=" and "o" in a and a.get("a"):
                L, R = strip(a["o"]), strip(a["a"][0])
            if not (isinstance(L, dict) and L.get("k") == "mem" and L.get("n") == "_min"):
                continue
            n += 1
            good = False
            for c, p in g.get(id(a), ()):
                if isinstance(c, tuple) or not p:
                    continue
                stack = [strip(c)]
                while stack:
                    x = stack.pop()
                    if isinstance(x, dict) and x.get("k") == "bin" and x.get("op") == "&&":
                        stack += [strip(x.get("L")), strip(x.get("R"))]
                        continue
                    pp = cmp_parts(x)
                    if not pp:
                        continue
                    op, u, v = pp
                    u, v = strip(u), strip(v)
                    if op in ("<=", "<") and same_expr(u, R) and same_expr(v, L):
                        good = True
                    if op in (">=", ">") and same_expr(u, L) and same_expr(v, R):
                        good = True
            if good:
                ctx.ok("min-update %s = %s" % (src(L), src(R)), fn, a)
            else:
                gs = " && ".join(src(c)[:60] for c, p in g.get(id(a), ()) if not isinstance(c, tuple))
                ctx.bad("wto::visit writes `%s = %s` under `%s`, which does not compare %s with %s itself: the frame's min can be RAISED "
                        "again after an earlier successor lowered it, the component head is then mis-detected and nodes are dropped from "
                        "the ordering" % (src(L), src(R), gs, src(R), src(L)), fn, a, sig="min-update:%s=%s" % (src(L), src(R)))
        if n == 0:
            ctx.fail("rule C07.r5: no write of `_min` found in wto::visit")


RULES += [r5_min_update]


def r6_self_loop_head(ctx, rid="C07.r6"):
    ctx.rule(rid, "wto::visit: a successor already on the DFS stack marks a loop when its dfn is <= the frame's min INCLUDING "
             "equality - a self-loop has dfn(child) == min == dfn(vertex), so a strict comparison turns a self-looping block into a "
             "plain vertex that the fixpoint iterator visits once", floor=1)
    fs = [f for f in ctx.db.fns(WTO, name="visit") if (f.get("cpk") or "").endswith("::wto")]
    if not ctx.need(fs, "wto::visit"):
        return
    n = 0
    for fn in fs:
        body = fn["body"]
        g = paths.guards(body)
        marks = []
        for c in walk(body):
            # non-recursive variant: loop_nodes.insert(child); recursive variant: loop = true
            if is_call(c, name="insert") and isinstance(strip(c.get("o")), dict) and strip(c["o"]).get("k") == "ref" and \
                    strip(c["o"]).get("rk") == "local" and "loop" in (strip(c["o"]).get("n") or ""):
                marks.append(c)
            if c.get("k") == "asg" and isinstance(strip(c.get("L")), dict) and strip(c["L"]).get("k") == "ref" and \
                    (strip(c["L"]).get("n") or "") == "loop" and isinstance(strip(c.get("R")), dict) and strip(c["R"]).get("v") == "true":
                marks.append(c)
        for mk in marks:
            cmps = []
            for c, p in g.get(id(mk), ()):
                if isinstance(c, tuple):
                    continue
                pp = cmp_parts(strip(c))
                if pp and pp[0] in ("<", "<=", ">", ">="):
                    op = pp[0]
                    if not p:
                        op = {"<": ">=", "<=": ">", ">": "<=", ">=": "<"}[op]
                    cmps.append((op, pp[1], pp[2], c))
            if not cmps:
                continue
            n += 1
            op, u, v, c = cmps[-1]
            if op in ("<=", ">="):
                ctx.ok("loop mark under a non-strict comparison `%s`" % src(c)[:50], fn, mk)
            else:
                ctx.bad("wto::visit marks a loop only when `%s` holds STRICTLY: for an edge v -> v the successor's dfn equals the frame's "
                        "min, so a block whose only cycle is a self-loop becomes a plain vertex; the fixpoint iterator then analyses it "
                        "once with its own post still bottom and every later invariant misses the states of the further iterations" %
                        src(c)[:50], fn, mk, sig="wto-self-loop-strict")
    if n == 0:
        ctx.fail("rule %s: no loop mark under a dfn comparison found in wto::visit" % rid)


RULES += [r6_self_loop_head]
